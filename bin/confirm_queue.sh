#!/bin/bash
# usage: confirm_queue.sh [root=/tmp/seed2] [offset=2]: processes "PROP K" lines of <root>/queue.txt; several workers can run (claims via mkdir)
R=${1:-/tmp/seed2}; OFF=${2:-2}
mkdir -p $R/claims; touch $R/queue.txt
while true; do
  did=0
  while read -r P K; do
    [ -z "$P" ] && continue
    if mkdir $R/claims/$P-$K 2>/dev/null; then
      /verif/bin/confirm_seed.sh $P $K $R $OFF >> $R/confirm.log 2>&1
      echo "$P $K" >> $R/done.txt; did=1; break
    fi
  done < $R/queue.txt
  [ $did = 0 ] && sleep 20
done
