#!/bin/bash
# processes "PROP K" lines appended to /tmp/seed/queue.txt, one at a time
touch /tmp/seed/queue.txt /tmp/seed/done.txt
while true; do
  L=$(comm -23 <(sort -u /tmp/seed/queue.txt) <(sort -u /tmp/seed/done.txt) | head -1)
  if [ -z "$L" ]; then sleep 20; continue; fi
  /verif/bin/confirm_seed.sh $L >> /tmp/seed/confirm.log 2>&1
  echo "$L" >> /tmp/seed/done.txt
done
