#!/bin/bash
# processes "PROP K" lines of /tmp/seed/queue.txt; several workers can run (claims via mkdir lock)
mkdir -p /tmp/seed/claims; touch /tmp/seed/queue.txt
while true; do
  did=0
  while read -r P K; do
    [ -z "$P" ] && continue
    if mkdir /tmp/seed/claims/$P-$K 2>/dev/null; then
      /verif/bin/confirm_seed.sh $P $K >> /tmp/seed/confirm.log 2>&1
      echo "$P $K" >> /tmp/seed/done.txt; did=1; break
    fi
  done < /tmp/seed/queue.txt
  [ $did = 0 ] && sleep 20
done
