#!/bin/bash
# usage: refmatrix.sh <name under /verif/refactorings> [checks...]: apply a behaviour-preserving refactoring in a scratch worktree of /repo HEAD and run
# the checks (default: all 20) against it; ANY exit status other than 0 or any VIOLATION line is a false alarm. Writes refactorings/<name>/result.json.
S=$1; shift; CHECKS=${@:-C01 C02 C03 C04 C05 C06 C07 C08 C09 C10 C11 C12 C13 C14 C15 C16 C17 C18 C19 C20}
D=/verif/refactorings/$S; W=/tmp/rf_$S; O=/tmp/rfout_$S
rm -rf $W $O; mkdir -p $O
git -C /repo worktree add -q --detach $W HEAD || exit 2
cp /repo/gemclus/tree/_utils.cpython-312-x86_64-linux-gnu.so $W/gemclus/tree/
( cd $W && git apply $D/patch.diff ) || { echo "patch does not apply"; git -C /repo worktree remove --force $W; exit 2; }
RES=""
for c in $CHECKS; do
  OUTP=$(cd /verif && VERIF_REPO=$W VERIF_OUT=$O VERIF_SEED=1 timeout 3000 bin/check $c 2>&1); rc=$?
  nv=$(echo "$OUTP" | grep -c '^VIOLATION')
  first=$(echo "$OUTP" | grep '^VIOLATION\|^UNDECIDED\|internal error' | head -2 | tr '\n' ' ' | sed 's/"/\\"/g' | cut -c1-400)
  RES="$RES{\"check\": \"$c\", \"exit\": $rc, \"violations\": $nv, \"first\": \"$first\"},"
done
echo "{\"refactoring\": \"$S\", \"repo_head\": \"$(git -C /repo rev-parse --short HEAD)\", \"results\": [${RES%,}]}" > $D/result.json
git -C /repo worktree remove --force $W; rm -rf $O
python3 -c "
import json; d=json.load(open('$D/result.json')); bad=[(r['check'],r['exit'],r['first'][:200]) for r in d['results'] if r['exit']!=0 or r['violations']]
print('$S', 'FALSE ALARMS' if bad else 'clean', bad)"
