#!/usr/bin/env python3
"""Mechanical harmless refactoring used by bin/selftest: rename every local variable of every function of the given
Python files (suffix _r), keep parameters, globals, attributes and keyword names. ast.unparse re-prints the file
(comments and layout are lost, line numbers change)."""
import ast, sys, builtins

def locals_of(fn):
    params = set()
    banned = set()
    stored = set()
    for node in ast.walk(fn):
        if isinstance(node, (ast.FunctionDef, ast.AsyncFunctionDef, ast.Lambda)):
            a = node.args
            names = [x.arg for x in a.posonlyargs + a.args + a.kwonlyargs] + ([a.vararg.arg] if a.vararg else []) + ([a.kwarg.arg] if a.kwarg else [])
            (params if node is fn else banned).update(names)
            if node is not fn and not isinstance(node, ast.Lambda):
                banned.add(node.name)
        elif isinstance(node, (ast.Global, ast.Nonlocal)):
            banned.update(node.names)
        elif isinstance(node, ast.Name) and isinstance(node.ctx, (ast.Store, ast.Del)):
            stored.add(node.id)
        elif isinstance(node, ast.ExceptHandler) and node.name:
            banned.add(node.name)
        elif isinstance(node, (ast.Import, ast.ImportFrom)):
            banned.update((al.asname or al.name).split(".")[0] for al in node.names)
        elif isinstance(node, ast.ClassDef):
            banned.add(node.name)
    return {n for n in stored - params - banned if not hasattr(builtins, n) and not n.startswith("__")}

class Ren(ast.NodeTransformer):
    def __init__(self, names): self.names = names
    def visit_Name(self, node):
        if node.id in self.names:
            node.id = node.id + "_r"
        return node

def transform(src):
    tree = ast.parse(src)
    n = 0
    def handle(body):
        nonlocal n
        for node in body:
            if isinstance(node, (ast.FunctionDef, ast.AsyncFunctionDef)):
                loc = locals_of(node)
                n += len(loc)
                Ren(loc).visit(node)
            elif isinstance(node, ast.ClassDef):
                handle(node.body)
    handle(tree.body)
    return ast.unparse(tree) + "\n", n

if __name__ == "__main__":
    tot = 0
    for p in sys.argv[1:]:
        out, n = transform(open(p).read())
        open(p, "w").write(out)
        tot += n
    print("renamed", tot, "locals in", len(sys.argv) - 1, "files")
