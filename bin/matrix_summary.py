#!/usr/bin/env python3
"""summary of seeded/*/detection.json: every seed must be reported by the check of its own property"""
import glob, json, os
rows = []
for f in sorted(glob.glob(os.path.join(os.path.dirname(os.path.dirname(os.path.abspath(__file__))), "seeded", "C*", "detection.json"))):
    d = json.load(open(f))
    own = d["seed"].split("-")[0]
    det = [r["check"] for r in d["results"] if r["exit"] == 1]
    rows.append((d["seed"], own in det, det, [r["check"] for r in d["results"] if r["exit"] not in (0, 1)],
                 next((("no-failing-input" in r["first"]) for r in d["results"] if r["check"] == own and r["exit"] == 1), None)))
n = len(rows)
print(f"{n} seeds; detected by the check of their own property: {sum(r[1] for r in rows)}; by some related check: {sum(bool(r[2]) for r in rows)}")
print("own-check first violation carries a failing input replayed on the real code:", sum(1 for r in rows if r[4] is False), "of", sum(1 for r in rows if r[4] is not None))
for r in rows:
    if not r[1]:
        print("  MISSED by own check:", r[0], "detected by", r[2], "undecided/errors in", r[3])
