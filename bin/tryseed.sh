#!/bin/bash
# usage: tryseed.sh <patch file> <tag> [checks...]: apply a patch in a scratch worktree of /repo HEAD and run the given checks against it (debugging aid)
P=$1; T=$2; shift; shift; W=/tmp/try_$T; O=/tmp/tryout_$T
rm -rf $W $O; mkdir -p $O
git -C /repo worktree add -q --detach $W HEAD || exit 2
cp /repo/gemclus/tree/_utils.cpython-312-x86_64-linux-gnu.so $W/gemclus/tree/
( cd $W && git apply $P ) || { echo "patch does not apply"; git -C /repo worktree remove --force $W; exit 2; }
for c in "$@"; do
  (cd /verif && VERIF_REPO=$W VERIF_OUT=$O VERIF_SEED=1 timeout 3000 bin/check $c 2>&1 | grep -v KNOWN-FINDING | cut -c1-260 | tail -6)
done
git -C /repo worktree remove --force $W; rm -rf $O
