#!/usr/bin/env python3
"""fills the `@@<seed>@@` placeholders / refreshes the `detected by` column of the round tables in DESIGN.md from seeded/<seed>/meta.json"""
import json, os, re, sys
ROOT = os.path.dirname(os.path.dirname(os.path.abspath(__file__)))
p = os.path.join(ROOT, "DESIGN.md")
s = open(p).read()


def det(seed):
    m = json.load(open(os.path.join(ROOT, "seeded", seed, "meta.json")))
    return ", ".join(m["checks_run"]["detected_by"]) or "(none)"


s = re.sub(r"@@(C\d\d-\d+)@@", lambda m: det(m.group(1)), s)
if "--refresh" in sys.argv:
    rounds = sys.argv[sys.argv.index("--refresh") + 1].split(",")      # e.g. 11,12
    def row(m):
        seed = m.group(1)
        if seed.split("-")[1] in rounds and os.path.exists(os.path.join(ROOT, "seeded", seed, "meta.json")):
            return f"| {seed} | {m.group(2)} | {det(seed)} |"
        return m.group(0)
    s = re.sub(r"^\| (C\d\d-\d+) \| (.*?) \| ([^|]*?) \|$", row, s, flags=re.M)
open(p, "w").write(s)
