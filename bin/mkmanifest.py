#!/usr/bin/env python3
"""Regenerates MANIFEST.json from the table below (kept here so the manifest stays valid)."""
import json, os
ROOT = os.path.dirname(os.path.dirname(os.path.abspath(__file__)))
PROPS = [l for l in open(os.path.join(ROOT, "properties.jsonl")) if l.strip()]
IDS = [json.loads(l)["id"] for l in PROPS]

CHECKS = {}
def check(pid, category, text, note, technique, design_ref, thorough=True):
    CHECKS[pid] = {
        "property_id": pid,
        "quick_cmd": f"bin/check {pid} --tier quick",
        **({"thorough_cmd": f"bin/check {pid} --tier thorough"} if thorough else {}),
        "evidence_file": f"evidence/{pid}.json",
        "replay_cmd_template": f"bin/check {pid} --replay {{path}}",
        "engine": "gemclus-contracts",
        "level_claimed": {"category": category, "text": text, "design_ref": design_ref},
        "level_note": note,
        "technique": technique,
    }

exec(open(os.path.join(ROOT, "bin", "manifest_table.py")).read())

m = {
    "version": 1,
    "setup_cmd": "bin/setup",
    "hooks": {"guard": "GEMCLUS_VERIF", "enable": "none needed: contracts are sidecar files under /verif/contracts; stubs and proxies are installed from /verif by assigning module attributes inside the checker process",
              "baseline_off_cmd": "bin/baseline_off", "source_commits": [], "add_only": True},
    "engines": [{"name": "gemclus-contracts", "path": "engine/", "serves_properties": sorted(CHECKS),
                 "kind_free_text": "contract-based deductive verification: sidecar contracts on the real functions; obligations generated from /repo's current source on every run (symbolic execution of the real function objects on exact reals, VC generation from the real AST, effect/data-flow obligations) and discharged by an own normal-form prover and z3"}],
    "checks": [CHECKS[k] for k in sorted(CHECKS)],
    "notes": "See DESIGN.md. Labels: P-inf (all inputs, all sizes), P@S (all real inputs at enumerated shapes), B (bounded stand-in, never counted as proved).",
    "not_applicable": [{"property_id": i, "reason": NA.get(i, "check not built yet in this session (see DESIGN.md section 4 for the plan)")} for i in IDS if i not in CHECKS],
}
json.dump(m, open(os.path.join(ROOT, "MANIFEST.json"), "w"), indent=1)
print("claimed", sorted(CHECKS), "NA", [x["property_id"] for x in m["not_applicable"]])
