#!/bin/bash
# usage: confirm_seed.sh <PROP> <k> [srcroot=/tmp/seed] [offset=0] : confirm seeded change k from <srcroot>/<PROP>/out (stored as <PROP>-<k+offset>) in a scratch worktree of /repo HEAD:
# demo passes without, fails with the patch; the pinned suite keeps every baseline-stable test passing. Stores /verif/seeded/<PROP>-<k>/.
P=$1; K=$2; ROOT=${3:-/tmp/seed}; OFF=${4:-0}; N=$((K+OFF)); SRC=$ROOT/$P/out; W=/tmp/confirm_${P}_$N; OUT=/verif/seeded/$P-$N
[ -f $SRC/patch$K.diff ] || { echo "no patch"; exit 2; }
rm -rf $W; git -C /repo worktree add -q --detach $W HEAD || exit 2
cp /repo/gemclus/tree/_utils.cpython-312-x86_64-linux-gnu.so $W/gemclus/tree/
mkdir -p $OUT; cp $SRC/patch$K.diff $OUT/patch.diff; cp $SRC/demo$K.py $OUT/demo.py; cp $SRC/notes$K.md $OUT/notes.md 2>/dev/null
cd $W; export OMP_NUM_THREADS=1 OPENBLAS_NUM_THREADS=1 MKL_NUM_THREADS=1
PYTHONPATH=$W timeout 600 /venv/bin/python $OUT/demo.py > $OUT/demo_clean.log 2>&1; RC0=$?
git apply $OUT/patch.diff 2> $OUT/apply.log; RA=$?
PYTHONPATH=$W timeout 600 /venv/bin/python $OUT/demo.py > $OUT/demo_patched.log 2>&1; RC1=$?
PYTHONPATH=$W /venv/bin/python -m pytest -q -p no:cacheprovider --timeout=900 --continue-on-collection-errors --junitxml=$W/junit.xml > $OUT/suite.log 2>&1
/venv/bin/python /verif/bin/baseline_cmp.py $W/junit.xml > $OUT/suite_cmp.txt 2>&1; RS=$?
tail -3 $OUT/suite.log > $OUT/suite_tail.txt; rm -f $OUT/suite.log
HEAD=$(git -C /repo rev-parse --short HEAD)
cat > $OUT/confirm.json <<EOT
{"property": "$P", "seed": $N, "repo_head": "$HEAD", "patch_applies": $([ $RA = 0 ] && echo true || echo false),
 "demo_exit_clean": $RC0, "demo_exit_patched": $RC1, "baseline_stable_still_pass": $([ $RS = 0 ] && echo true || echo false)}
EOT
cd /; git -C /repo worktree remove --force $W
cat $OUT/confirm.json
