#!/bin/bash
# usage: seedmatrix.sh <seed dir name under /verif/seeded> [checks...]: apply the seeded change in a scratch worktree of /repo HEAD
# and run the given checks (default: all 20) against it; writes seeded/<name>/detection.json. /repo itself is untouched.
S=$1; shift; CHECKS=${@:-C01 C02 C03 C04 C05 C06 C07 C08 C09 C10 C11 C12 C13 C14 C15 C16 C17 C18 C19 C20}
D=/verif/seeded/$S; W=/tmp/sm_$S; O=/tmp/smout_$S
rm -rf $W $O; mkdir -p $O
git -C /repo worktree add -q --detach $W HEAD || exit 2
cp /repo/gemclus/tree/_utils.cpython-312-x86_64-linux-gnu.so $W/gemclus/tree/
( cd $W && git apply $D/patch.diff ) || { echo "patch does not apply"; git -C /repo worktree remove --force $W; exit 2; }
RES=""
for c in $CHECKS; do
  OUTP=$(cd /verif && VERIF_REPO=$W VERIF_OUT=$O timeout 3000 bin/check $c 2>&1); rc=$?
  nv=$(echo "$OUTP" | grep -c '^VIOLATION')
  first=$(echo "$OUTP" | grep '^VIOLATION' | head -1 | sed 's/"/\\"/g')
  RES="$RES{\"check\": \"$c\", \"exit\": $rc, \"violations\": $nv, \"first\": \"$first\"},"
done
echo "{\"seed\": \"$S\", \"repo_head\": \"$(git -C /repo rev-parse --short HEAD)\", \"results\": [${RES%,}]}" > $D/detection.json
git -C /repo worktree remove --force $W; rm -rf $O
python3 -c "
import json; d=json.load(open('$D/detection.json')); print('$S', 'detected by', [r['check'] for r in d['results'] if r['exit']==1], 'errors', [r['check'] for r in d['results'] if r['exit'] not in (0,1)])"
