#!/bin/bash
# seedmatrix_own.sh <seed>: re-run only the check of the seed's own property and merge the result into seeded/<seed>/detection.json
S=$1; P=${S%%-*}; D=/verif/seeded/$S
[ -f $D/detection.json ] && cp $D/detection.json /tmp/det_old_$S.json
/verif/bin/seedmatrix.sh $S $P > /tmp/det_own_$S.log 2>&1
python3 - <<PY
import json, os
new = json.load(open("$D/detection.json"))
old_p = "/tmp/det_old_$S.json"
if os.path.exists(old_p):
    old = json.load(open(old_p))
    keep = [r for r in old["results"] if r["check"] != "$P"]
    new["results"] = new["results"] + keep
    json.dump(new, open("$D/detection.json", "w"))
    os.remove(old_p)
r = [x for x in new["results"] if x["check"] == "$P"][0]
print("$S", "own check exit", r["exit"], "violations", r["violations"])
PY
rm -f /tmp/det_own_$S.log
