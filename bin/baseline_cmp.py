import json,sys,xml.etree.ElementTree as ET
b=json.load(open('/root/.vp/BASELINE.json'))
t=ET.parse(sys.argv[1]).getroot()
res={}
for tc in t.iter('testcase'):
    name=tc.get('classname')+'::'+tc.get('name')
    ok=not any(c.tag in('failure','error','skipped') for c in tc)
    res[name]=ok
sp=b['stable_pass']
miss=[s for s in sp if not res.get(s)]
print('stable_pass',len(sp),'now failing/missing',len(miss)); print(miss[:10])
print('total pass',sum(res.values()),'of',len(res))

sys.exit(1 if miss else 0)
