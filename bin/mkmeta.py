#!/usr/bin/env python3
"""writes seeded/<id>/meta.json from notes.md, confirm.json and detection.json"""
import json, os, re, sys
ROOT = os.path.dirname(os.path.dirname(os.path.abspath(__file__)))
S = os.path.join(ROOT, "seeded")
rows = []
for d in sorted(os.listdir(S)):
    p = os.path.join(S, d)
    if not os.path.isdir(p) or not os.path.exists(os.path.join(p, "patch.diff")):
        continue
    notes = open(os.path.join(p, "notes.md")).read() if os.path.exists(os.path.join(p, "notes.md")) else ""
    title = notes.strip().split("\n")[0].lstrip("# ").strip() if notes else ""
    needs = ""
    for line in notes.split("\n"):
        if re.search(r"need|manifest", line, re.I) and len(line) > 20:
            needs = re.sub(r"^[\s\*\-]+", "", line).strip()
            break
    conf = json.load(open(os.path.join(p, "confirm.json"))) if os.path.exists(os.path.join(p, "confirm.json")) else {}
    det = json.load(open(os.path.join(p, "detection.json"))) if os.path.exists(os.path.join(p, "detection.json")) else {"results": []}
    files = sorted({l[6:].strip() for l in open(os.path.join(p, "patch.diff")) if l.startswith("+++ b/")})
    meta = {
        "id": d, "property": d.split("-")[0], "title": title, "files_touched": files,
        "needs_to_manifest": needs,
        "produced_by": "independent sub-agent given only the property text and a scratch worktree of /repo (no access to /verif)",
        "confirmed": {"how": "bin/confirm_seed.sh: scratch worktree of /repo HEAD; demo.py without the patch (must exit 0), with the patch (must exit 1); "
                             "pinned test suite with the patch compared with BASELINE.json (all 626 stable tests must still pass)",
                      "repo_head": conf.get("repo_head"), "patch_applies": conf.get("patch_applies"), "demo_exit_clean": conf.get("demo_exit_clean"),
                      "demo_exit_patched": conf.get("demo_exit_patched"), "baseline_stable_still_pass": conf.get("baseline_stable_still_pass")},
        "checks_run": {"how": "bin/seedmatrix.sh: checks run against a scratch worktree with the patch applied (VERIF_REPO), /repo untouched",
                       "ran": [r["check"] for r in det["results"]], "detected_by": [r["check"] for r in det["results"] if r["exit"] == 1],
                       "undecided_in": [r["check"] for r in det["results"] if r["exit"] == 2],
                       "first_violation": {r["check"]: r["first"] for r in det["results"] if r["exit"] == 1}},
        "round": min((int(d.split("-")[1]) + 1) // 2, 7),
        "rebased": os.path.exists(os.path.join(p, "patch.orig.diff")),
    }
    json.dump(meta, open(os.path.join(p, "meta.json"), "w"), indent=1)
    rows.append((d, meta["checks_run"]["detected_by"], meta["checks_run"]["ran"], title[:70]))
for r in rows:
    print(r[0], "detected by", r[1], "of", r[2], "|", r[3])
