NA = {}
check("C01", "proof",
      "Contract on each GEMINI class's evaluate(): result == specification score (p(y)-weighted named distance between empirical cluster conditionals), proved for ALL real-valued predictions/affinities/epsilon at each enumerated shape (P@S) by running the real evaluate() on exact symbolic reals and deciding the identity with a normal-form prover; the 13-name registry is decided by complete enumeration (P-inf).",
      "Reals for floats; shapes enumerated (no induction over n,K); ot.emd2 by contract stub; NumPy object-array semantics; z3 and the NF prover trusted.",
      "symbolic execution of the real functions on exact reals + normal-form identity prover / z3; finite-table enumeration", "4 C01")
check("C02", "proof",
      "Contract on evaluate(return_grad=True): the returned gradient equals the symbolic derivative of the returned score along every simplex-tangent direction, on every differentiability region (TV sign patterns, MMD zero-distance masks explored by an entailment-driven fork engine), score identical with/without gradient, shape, exact zeros at clipped entries; all real inputs at each enumerated shape (P@S).",
      "Reals for floats; shapes enumerated; ot.emd2 duals by contract (envelope theorem); measure-zero region boundaries excluded as the property states.",
      "symbolic execution + symbolic differentiation of the returned score + normal-form prover; fork engine with z3 feasibility", "4 C02")
check("C03", "proof",
      "Four modular contracts: (1) VJP contract on every _compute_grads (linear, MLP, sparse MLP, categorical, Douglas, KernelRIM incl. the kernel-weighted penalty): result[j][idx] == -d/dtheta sum G*_infer(X), entry by entry, for all real X/theta/G at each shape and every ReLU pattern / cut ordering (P@S); (2) RIM._update_weights adds exactly d/dW reg*||W||^2; (3) mlcl.decorate_grads injects exactly the derivative of the pairwise constraint terms on the right rows for every batch permutation; (4) data-flow contract on the loop body of fit() of all 17 gradient estimators and of _path(): _infer -> gemini(return_grad) -> _compute_grads -> _update_weights on this batch, same weights list as the optimiser (P-inf, term-mode symbolic interpretation of the real AST through the real MRO).",
      "softmax by contract stub; sklearn optimisers trusted to apply what they are given; chain-rule lemma L3 composes the VJP contracts with C02; shapes enumerated.",
      "symbolic execution + symbolic differentiation + normal-form prover (VJP); term-mode AST interpretation for data-flow obligations", "4 C03")
