NA = {}
check("C01", "proof",
      "Contract on each GEMINI class's evaluate(): result == specification score (p(y)-weighted named distance between empirical cluster conditionals), proved for ALL real-valued predictions/affinities/epsilon at each enumerated shape (P@S) by running the real evaluate() on exact symbolic reals and deciding the identity with a normal-form prover; the 13-name registry is decided by complete enumeration (P-inf).",
      "Reals for floats; shapes enumerated (no induction over n,K); ot.emd2 by contract stub; NumPy object-array semantics; z3 and the NF prover trusted.",
      "symbolic execution of the real functions on exact reals + normal-form identity prover / z3; finite-table enumeration", "4 C01")
check("C02", "proof",
      "Contract on evaluate(return_grad=True): the returned gradient equals the symbolic derivative of the returned score along every simplex-tangent direction, on every differentiability region (TV sign patterns, MMD zero-distance masks explored by an entailment-driven fork engine), score identical with/without gradient, shape, exact zeros at clipped entries; all real inputs at each enumerated shape (P@S).",
      "Reals for floats; shapes enumerated; ot.emd2 duals by contract (envelope theorem); measure-zero region boundaries excluded as the property states.",
      "symbolic execution + symbolic differentiation of the returned score + normal-form prover; fork engine with z3 feasibility", "4 C02")
