#!/usr/bin/env python3-vt
"""validate MANIFEST.json and every evidence/<id>.json against the schemas in /root/.vp (or --schemas DIR);
for proof-level evidence also require coverage.discharged == coverage.obligations > 0"""
import json, os, sys
ROOT = os.path.dirname(os.path.dirname(os.path.abspath(__file__)))
sd = "/root/.vp"
try:
    import jsonschema
except ImportError:
    sys.path.insert(0, "/opt/veriftools/pyvenv/lib/python3.11/site-packages")
    import jsonschema
bad = 0
man = json.load(open(os.path.join(ROOT, "MANIFEST.json")))
jsonschema.validate(man, json.load(open(os.path.join(sd, "MANIFEST.schema.json"))))
es = json.load(open(os.path.join(sd, "EVIDENCE.schema.json")))
props = [json.loads(l)["id"] for l in open(os.path.join(ROOT, "properties.jsonl")) if l.strip()]
claimed = {c["property_id"] if "property_id" in c else c.get("id"): c for c in man.get("checks", man.get("properties", []))}
for pid in props:
    p = os.path.join(ROOT, "evidence", pid + ".json")
    if not os.path.exists(p):
        print("MISSING", pid); bad += 1; continue
    e = json.load(open(p))
    try:
        jsonschema.validate(e, es)
    except jsonschema.ValidationError as ex:
        print("INVALID", pid, ex.message[:200]); bad += 1; continue
    c = e["coverage"]
    if e["level"] == "proof" and not (c.get("obligations", 0) > 0 and c.get("obligations") == c.get("discharged")):
        print("MISMATCH", pid, c.get("obligations"), c.get("discharged")); bad += 1
    if e["tier"] != "quick" or e["seed"] != 1:
        print("NOTE", pid, "tier", e["tier"], "seed", e["seed"])
    print(f"{pid} level={e['level']} tier={e['tier']} seed={e['seed']} obligations={c.get('obligations')} discharged={c.get('discharged')} "
          f"bounded={c.get('bounded_checks')} undecided={c.get('undecided_count')} wall={e['wall_s']}")
sys.exit(1 if bad else 0)
