#!/bin/bash
# usage: suite_at.sh <commit> <tag>: run the pinned suite on a scratch worktree of /repo at <commit>, compare with baseline
C=$1; T=/tmp/suite_$2
git -C /repo worktree add -q --detach $T $C && cp /repo/gemclus/tree/_utils.cpython-312-x86_64-linux-gnu.so $T/gemclus/tree/
cd $T && PYTHONPATH=$T /venv/bin/python -m pytest -q -p no:cacheprovider --timeout=900 --continue-on-collection-errors --junitxml=/tmp/suite_$2.xml > /tmp/suite_$2.log 2>&1
/venv/bin/python /verif/bin/baseline_cmp.py /tmp/suite_$2.xml > /tmp/suite_$2.result 2>&1
echo "exit=$?" >> /tmp/suite_$2.result
git -C /repo worktree remove --force $T
