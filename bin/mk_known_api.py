#!/usr/bin/env python3
"""writes contracts/known_api.json: every function / method name defined in the GemClus sources of the tree the contracts were
written against.  The FX interpreter keeps calls to THESE names under the inlining policy of each contract (opaque callees
with their own contracts, or inlined bodies); a GemClus function or method whose name is NOT in the list is a helper
introduced later (e.g. by an extract-method refactoring) and is always inlined, so that contracts see through it."""
import ast, json, os, sys
root = sys.argv[1] if len(sys.argv) > 1 else "/repo/gemclus"
names = set()
for dp, dn, fn in os.walk(root):
    if "tests" in dp.split(os.sep):
        continue
    for f in fn:
        if f.endswith((".py", ".pyx")):
            try:
                tree = ast.parse(open(os.path.join(dp, f)).read())
            except SyntaxError:
                import re
                names |= set(re.findall(r"^\s*(?:cp?def|def)\s+(?:[\w\[\], :]+\s+)?(\w+)\s*\(", open(os.path.join(dp, f)).read(), re.M))
                continue
            for n in ast.walk(tree):
                if isinstance(n, (ast.FunctionDef, ast.AsyncFunctionDef)):
                    names.add(n.name)
out = os.path.join(os.path.dirname(os.path.dirname(os.path.abspath(__file__))), "contracts", "known_api.json")
json.dump(sorted(names), open(out, "w"), indent=0)
print(len(names), "names ->", out)
