#!/bin/bash
# seedmatrix_rel.sh <seed>: run the seed against its own property's check and the related ones
declare -A REL=( [C01]="C01 C02 C13" [C02]="C02 C01 C13" [C03]="C03 C04 C14 C15" [C04]="C04 C03 C18 C11 C16" [C05]="C05 C06 C17" [C06]="C06 C05 C16 C03"
 [C07]="C07 C10 C12" [C08]="C08 C09 C04" [C09]="C09 C08 C18 C19" [C10]="C10 C03 C14" [C11]="C11 C04 C16 C18" [C12]="C12 C04 C07" [C13]="C13 C01 C02 C17"
 [C14]="C14 C03 C10" [C15]="C15 C03 C18" [C16]="C16 C11 C04 C06" [C17]="C17 C04 C13 C05 C03" [C18]="C18 C04 C09 C11" [C19]="C19 C09 C16" [C20]="C20 C16" )
S=$1; P=${S%%-*}
/verif/bin/seedmatrix.sh $S ${REL[$P]}
