"""FX engine: effect / data-flow / linkage obligations from the real AST.

A term-mode symbolic interpreter of a stated Python subset, run over the source of the real
functions (inspect.getsource on the objects resolved through the real MRO, on every run).
Values are hash-consed terms (nested tuples); calls into GemClus methods on `self` are inlined
through the real MRO, everything else is an opaque call recorded as an *event*.  The result is,
per explored path, an ordered trace of events:

  ('call', seq, fname, args, kwargs, loops)   opaque call (fname dotted source text / resolved name)
  ('store', obj, attr, value, loops)           attribute store (frame)
  ('read', obj, attr, loops)                   read of an attribute not yet stored on this path
  ('raise', exc_term, loops)                   explicit raise: path ends
  ('return', value)                            function result
  ('yield', value, loops)

Contracts are predicates over these traces (frames, def-before-use, dominance, argument flow).
Python subset: assignments (names, attributes, subscripts, tuple unpacking), if / for / while
(bodies executed once with the assigned variables havocked), return, raise, augmented
assignment, expressions, nested function definitions (closures), with/try bodies executed in
sequence.  Unsupported syntax raises FxUnsupported (reported as UNDECIDED, never as a violation).
"""
import ast
import inspect
import textwrap


class FxUnsupported(Exception):
    pass


class PathEnd(Exception):
    pass


def fn_ast(f):
    f = inspect.unwrap(f) if not isinstance(f, (staticmethod, classmethod)) else f.__func__
    src = textwrap.dedent(inspect.getsource(f))
    node = ast.parse(src).body[0]
    return node, f


def C(v):
    return ("const", v)


def is_const(t):
    return isinstance(t, tuple) and len(t) == 2 and t[0] == "const"


class State:
    def __init__(self):
        self.env = {}
        self.heap = {}        # (obj term, attr) -> term
        self.events = []
        self.pc = []          # (term, bool)
        self.loops = ()
        self.ended = None     # 'return' / 'raise'
        self.ret = None

    def copy(self):
        s = State()
        s.env = dict(self.env)
        s.heap = dict(self.heap)
        s.events = list(self.events)
        s.pc = list(self.pc)
        s.loops = self.loops
        s.ended = self.ended
        s.ret = self.ret
        return s


IGNORABLE_CALLS = ("print", "warnings.warn")


_KNOWN_API = None


def _known_api():
    global _KNOWN_API
    if _KNOWN_API is None:
        import json
        import os
        p = os.path.join(os.path.dirname(os.path.dirname(os.path.abspath(__file__))), "contracts", "known_api.json")
        _KNOWN_API = frozenset(json.load(open(p))) if os.path.exists(p) else frozenset()
    return _KNOWN_API


class Interp:
    def __init__(self, cls=None, inline=True, max_depth=6, max_paths=4000, pure=(), assume=None,
                 inline_filter=None, known_none=()):
        self.cls = cls
        self.inline = inline
        self.max_depth = max_depth
        self.max_paths = max_paths
        self.pure = set(pure)
        self.assume = assume or {}      # source text of a condition -> bool
        self.seq = 0
        self.loop_id = 0
        self.inline_filter = inline_filter
        self.unresolved = []            # linkage: self attributes / methods that do not resolve
        self.inline_functions = set()   # names of module-level GemClus functions to inline (e.g. check_groups)
        self.known_api = _known_api()   # names that existed when the contracts were written; any other GemClus helper is inlined

    # ------------------------------------------------------------ entry
    def run_method(self, name, args=None, owner=None, self_term=("var", "self")):
        """symbolically run cls.<name>; returns list of final states (one per path)."""
        owner, f = self.resolve(name, after=owner)
        if f is None:
            raise FxUnsupported(f"{self.cls.__name__}.{name} does not resolve")
        node, f = fn_ast(f)
        st = State()
        params = [a.arg for a in node.args.args]
        st.env[params[0]] = self_term
        defaults = node.args.defaults
        nd = len(defaults)
        for i, pn in enumerate(params[1:], 1):
            if args and pn in args:
                st.env[pn] = args[pn]
            else:
                st.env[pn] = ("var", pn)
        self.frames = [(owner, name)]
        return self.exec_block(node.body, [st], f.__globals__, owner, 0)

    def run_function(self, f, args=None):
        node, f = fn_ast(f)
        st = State()
        for a in node.args.args:
            st.env[a.arg] = (args or {}).get(a.arg, ("var", a.arg))
        self.frames = [(None, f.__name__)]
        return self.exec_block(node.body, [st], f.__globals__, None, 0)

    def _init_params(self):
        try:
            return set(inspect.signature(self.cls.__init__).parameters)
        except (TypeError, ValueError):
            return set()

    def resolve(self, name, after=None):
        if self.cls is None:
            return None, None
        mro = self.cls.__mro__
        start = mro.index(after) + 1 if after is not None else 0
        for k in mro[start:]:
            if name in k.__dict__:
                return k, k.__dict__[name]
        return None, None

    # ------------------------------------------------------------ statements
    def exec_block(self, stmts, states, glob, owner, depth):
        for s in stmts:
            nxt = []
            for st in states:
                if st.ended:
                    nxt.append(st)
                    continue
                nxt.extend(self.exec_stmt(s, st, glob, owner, depth))
            states = nxt
            if len(states) > self.max_paths:
                raise FxUnsupported("too many paths")
        return states

    def exec_stmt(self, s, st, glob, owner, depth):
        if isinstance(s, ast.Expr):
            if isinstance(s.value, ast.Constant):
                return [st]
            if isinstance(s.value, (ast.Yield, ast.YieldFrom)):
                out = []
                for st2, v in self.ev(s.value.value, st, glob, owner, depth):
                    st2.events.append(("yield", v, st2.loops))
                    out.append(st2)
                return out
            return [st2 for st2, _ in self.ev(s.value, st, glob, owner, depth)]
        if isinstance(s, ast.Assign):
            out = []
            for st2, v in self.ev(s.value, st, glob, owner, depth):
                if st2.ended == "raise":        # raised inside an inlined callee: the statement is not completed
                    out.append(st2)
                    continue
                sts = [st2]
                for tgt in s.targets:
                    sts = [x for y in sts for x in self.assign(tgt, v, y, glob, owner, depth)]
                out.extend(sts)
            return out
        if isinstance(s, ast.AnnAssign):
            if s.value is None:
                return [st]
            out = []
            for st2, v in self.ev(s.value, st, glob, owner, depth):
                if st2.ended == "raise":
                    out.append(st2)
                    continue
                out.extend(self.assign(s.target, v, st2, glob, owner, depth))
            return out
        if isinstance(s, ast.AugAssign):
            out = []
            load = ast.copy_location(_as_load(s.target), s.target)
            for st2, cur in self.ev(load, st, glob, owner, depth):
                for st3, v in self.ev(s.value, st2, glob, owner, depth):
                    if st3.ended == "raise":
                        out.append(st3)
                        continue
                    nv = ("binop", type(s.op).__name__, cur, v)
                    # augmented assignment mutates the object held by the target in place when it is an array / list
                    st3.events.append(("mutate", cur, ("aug", type(s.op).__name__, v), st3.loops))
                    out.extend(self.assign(s.target, nv, st3, glob, owner, depth, aug=True))
            return out
        if isinstance(s, ast.Return):
            if s.value is None:
                st.ended, st.ret = "return", C(None)
                return [st]
            out = []
            for st2, v in self.ev(s.value, st, glob, owner, depth):
                if st2.ended != "raise":        # `return helper(...)` where the inlined helper raised stays a raising path
                    st2.ended, st2.ret = "return", v
                out.append(st2)
            return out
        if isinstance(s, ast.Raise):
            out = []
            if s.exc is None:
                st.events.append(("raise", C("reraise"), st.loops))
                st.ended = "raise"
                return [st]
            for st2, v in self.ev(s.exc, st, glob, owner, depth, for_raise=True):
                st2.events.append(("raise", v, st2.loops))
                st2.ended = "raise"
                out.append(st2)
            return out
        if isinstance(s, ast.If):
            out = []
            for st2, c in self.cond(s.test, st, glob, owner, depth):
                if st2.ended == "raise":
                    out.append(st2)
                    continue
                if c is True:
                    out.extend(self.exec_block(s.body, [st2], glob, owner, depth))
                elif c is False:
                    out.extend(self.exec_block(s.orelse, [st2], glob, owner, depth))
                else:
                    a = st2.copy()
                    a.pc.append(pc_entry(c, True))
                    b = st2.copy()
                    b.pc.append(pc_entry(c, False))
                    ra = self.exec_block(s.body, [a], glob, owner, depth)
                    rb = self.exec_block(s.orelse, [b], glob, owner, depth)
                    out.extend(self.merge_ignorable(st2, ra, rb))
            return out
        if isinstance(s, (ast.For, ast.While)):
            return self.exec_loop(s, st, glob, owner, depth)
        if isinstance(s, (ast.Pass, ast.Import, ast.ImportFrom, ast.Global, ast.Nonlocal)):
            return [st]
        if isinstance(s, (ast.Break, ast.Continue)):
            st.events.append((type(s).__name__.lower(), st.loops))
            st.ended = type(s).__name__.lower()      # ends the loop body; resolved by exec_loop
            return [st]
        if isinstance(s, ast.FunctionDef):
            st.env[s.name] = ("closure", id(s), s.name)
            self.closures = getattr(self, "closures", {})
            self.closures[id(s)] = (s, dict(st.env), glob, owner)
            # the captured environment belongs to THIS path (all paths execute the `def` at the same step of the block)
            st.heap[("closure-env", id(s))] = (s, dict(st.env), glob, owner)
            # decorators applied (functools.wraps(...) is identity for our purposes)
            return [st]
        if isinstance(s, ast.With):
            sts = [st]
            for item in s.items:
                sts = [x for y in sts for x, _ in self.ev(item.context_expr, y, glob, owner, depth)]
            return self.exec_block(s.body, sts, glob, owner, depth)
        if isinstance(s, ast.Try):
            sts = self.exec_block(s.body, [st], glob, owner, depth)
            return self.exec_block(s.finalbody, sts, glob, owner, depth) if s.finalbody else sts
        if isinstance(s, ast.Assert):
            return [st]
        if isinstance(s, ast.Delete):
            return [st]
        raise FxUnsupported(f"statement {type(s).__name__} at line {getattr(s, 'lineno', '?')}")

    def merge_ignorable(self, base, ra, rb):
        """if both branches only made ignorable calls (print / warnings.warn) and left the state
        unchanged, continue with one state (keeps the path count small and is exact for effects)."""
        if len(ra) == 1 and len(rb) == 1:
            a, b = ra[0], rb[0]
            if not a.ended and not b.ended and a.env == b.env and a.heap == b.heap:
                ea, eb = a.events[len(base.events):], b.events[len(base.events):]
                if all(_ignorable(e) for e in ea) and all(_ignorable(e) for e in eb):
                    m = base.copy()
                    m.events.extend(ea)
                    m.events.extend(eb)
                    return [m]
            # an if / else that only binds local names (no call, store or mutation on either side) is the statement form of a
            # conditional expression: continue with ONE state whose differing locals are ite terms, exactly as
            # `x = a if c else b` would have produced
            if (not a.ended and not b.ended and a.heap == b.heap and set(a.env) == set(b.env)
                    and len(a.pc) == len(base.pc) + 1 and len(b.pc) == len(base.pc) + 1 and a.pc[-1][0] == b.pc[-1][0]):
                ea, eb = a.events[len(base.events):], b.events[len(base.events):]
                harmless = lambda e: e[0] == "read" or (e[0] == "call" and (e[2] in self.pure or e[2] in _PURE_BUILTINS))
                if all(harmless(e) for e in ea) and all(harmless(e) for e in eb):      # pure bindings: not even a print / warning
                    c, pol = a.pc[-1]
                    m = base.copy()
                    m.events.extend(ea)
                    m.events.extend(eb)
                    for k in a.env:
                        va, vb = a.env[k], b.env[k]
                        m.env[k] = va if va == vb else (("ite", c, va, vb) if pol else ("ite", c, vb, va))
                    return [m]
        return ra + rb

    def exec_loop(self, s, st, glob, owner, depth):
        self.loop_id += 1
        lid = (self.loop_id, "for" if isinstance(s, ast.For) else "while", getattr(s, "lineno", 0))
        assigned = set()
        for n in ast.walk(s):
            if isinstance(n, ast.Name) and isinstance(n.ctx, ast.Store):
                assigned.add(n.id)
        out = []
        if isinstance(s, ast.For):
            heads = self.ev(s.iter, st, glob, owner, depth)
        else:
            heads = [(st, None)]
        for st2, it in heads:
            # havoc every variable assigned in the loop (sound for any iteration count)
            entry_env = dict(st2.env)
            for v in assigned:
                if v in st2.env:
                    st2.env[v] = ("loopvar", lid[0], v, st2.env[v])
            body = st2.copy()
            body.loops = st2.loops + (lid,)
            body.events.append(("loop-enter", lid, it, body.loops))
            if isinstance(s, ast.For):
                bs = self.assign(s.target, ("iter", it, lid[0]), body, glob, owner, depth)
            else:
                bs = []
                for b2, c in self.cond(s.test, body, glob, owner, depth):
                    if c is not True and c is not False:
                        b2.pc.append(pc_entry(c, True))
                    b2.events.append(("loop-guard", lid, c, b2.loops))
                    bs.append(b2)
            res = self.exec_block(s.body, bs, glob, owner, depth)
            for r in res:
                broke = r.ended == "break"
                if r.ended in ("break", "continue"):
                    r.ended = None
                if r.ended:
                    out.append(r)
                    continue
                r.loops = st2.loops
                r.events.append(("loop-exit", lid, r.loops))
                for v in assigned:
                    r.env[v] = ("loopout", lid[0], v, r.env.get(v))
                if s.orelse and not broke:
                    out.extend(self.exec_block(s.orelse, [r], glob, owner, depth))
                else:
                    out.append(r)
        return out

    # ------------------------------------------------------------ assignment
    def assign(self, tgt, v, st, glob, owner, depth, aug=False):
        if isinstance(tgt, ast.Name):
            st.env[tgt.id] = v
            return [st]
        if isinstance(tgt, (ast.Tuple, ast.List)):
            sts = [st]
            for i, e in enumerate(tgt.elts):
                if isinstance(v, tuple) and v and v[0] == "tuple" and len(v[1]) == len(tgt.elts):
                    item = v[1][i]
                else:
                    item = ("item", v, C(i))
                sts = [x for y in sts for x in self.assign(e, item, y, glob, owner, depth)]
            return sts
        if isinstance(tgt, ast.Attribute):
            out = []
            for st2, base in self.ev(tgt.value, st, glob, owner, depth):
                st2.heap[(base, tgt.attr)] = v
                st2.events.append(("store", base, tgt.attr, v, st2.loops))
                out.append(st2)
            return out
        if isinstance(tgt, ast.Subscript):
            out = []
            for st2, base in self.ev(tgt.value, st, glob, owner, depth):
                for st3, idx in self.ev_slice(tgt.slice, st2, glob, owner, depth):
                    if not aug:
                        st3.events.append(("mutate", base, ("setitem", idx, v), st3.loops))
                    out.append(st3)
            return out
        if isinstance(tgt, ast.Starred):
            return self.assign(tgt.value, ("star", v), st, glob, owner, depth)
        raise FxUnsupported(f"assignment target {type(tgt).__name__}")

    # ------------------------------------------------------------ conditions
    def cond(self, test, st, glob, owner, depth):
        src = ast.unparse(test)
        if src in self.assume:
            return [(st, self.assume[src])]
        out = []
        for st2, v in self.ev(test, st, glob, owner, depth):
            if is_const(v):
                out.append((st2, bool(v[1])))
            else:
                # already decided on this path?  (path conditions are stored in canonical form, see canon_cond)
                dec = None
                cv, flip = canon_cond(v)
                for c, b in st2.pc:
                    if c == cv:
                        dec = (b != flip)
                out.append((st2, dec if dec is not None else v))
        return out

    # ------------------------------------------------------------ expressions
    def ev(self, e, st, glob, owner, depth, for_raise=False):
        """returns list of (state, term)"""
        if isinstance(e, ast.Constant):
            return [(st, C(e.value))]
        if isinstance(e, ast.Name):
            if e.id in st.env:
                return [(st, st.env[e.id])]
            if e.id in glob:
                # a module-level constant (a named magic number or option string) denotes its value
                if isinstance(glob[e.id], (str, int, float, bool, type(None))) and not e.id.startswith("__"):
                    return [(st, C(glob[e.id]))]
                return [(st, ("global", e.id))]
            import builtins
            if hasattr(builtins, e.id):
                return [(st, ("builtin", e.id))]
            return [(st, ("free", e.id))]
        if isinstance(e, ast.Attribute):
            out = []
            for st2, base in self.ev(e.value, st, glob, owner, depth):
                k = (base, e.attr)
                if k in st2.heap:
                    out.append((st2, st2.heap[k]))
                else:
                    if base == ("var", "self") or (isinstance(base, tuple) and base[0] == "var"):
                        st2.events.append(("read", base, e.attr, st2.loops))
                    out.append((st2, ("attr", base, e.attr)))
            return out
        if isinstance(e, (ast.Tuple, ast.List)):
            res = [(st, [])]
            for x in e.elts:
                res = [(s3, items + [v]) for s2, items in res for s3, v in self.ev(x, s2, glob, owner, depth)]
            if isinstance(e, ast.Tuple):
                return [(s2, ("tuple", tuple(items))) for s2, items in res]
            # a list display creates a fresh mutable object: give it an identity
            out = []
            for s2, items in res:
                self.seq += 1
                out.append((s2, ("list", tuple(items), self.seq)))
            return out
        if isinstance(e, ast.Dict):
            res = [(st, [])]
            for kx, vx in zip(e.keys, e.values):
                res = [(s4, items + [(k, v)]) for s2, items in res
                       for s3, k in (self.ev(kx, s2, glob, owner, depth) if kx is not None else [(s2, C("**"))])
                       for s4, v in self.ev(vx, s3, glob, owner, depth)]
            return [(s2, ("dict", tuple(items))) for s2, items in res]
        if isinstance(e, ast.BinOp):
            return [(s3, _fold(("binop", type(e.op).__name__, a, b)))
                    for s2, a in self.ev(e.left, st, glob, owner, depth)
                    for s3, b in self.ev(e.right, s2, glob, owner, depth)]
        if isinstance(e, ast.UnaryOp):
            return [(s2, _fold(("unop", type(e.op).__name__, a))) for s2, a in self.ev(e.operand, st, glob, owner, depth)]
        if isinstance(e, ast.BoolOp):
            res = [(st, [])]
            for x in e.values:
                res = [(s3, items + [v]) for s2, items in res for s3, v in self.ev(x, s2, glob, owner, depth)]
            return [(s2, _fold(("boolop", type(e.op).__name__, tuple(items)))) for s2, items in res]
        if isinstance(e, ast.Compare):
            res = [(st, [])]
            for x in [e.left] + list(e.comparators):
                res = [(s3, items + [v]) for s2, items in res for s3, v in self.ev(x, s2, glob, owner, depth)]
            return [(s2, _fold(("cmp", tuple(type(o).__name__ for o in e.ops), tuple(items)))) for s2, items in res]
        if isinstance(e, ast.IfExp):
            out = []
            for st2, c in self.cond(e.test, st, glob, owner, depth):
                if c is True:
                    out.extend(self.ev(e.body, st2, glob, owner, depth))
                elif c is False:
                    out.extend(self.ev(e.orelse, st2, glob, owner, depth))
                else:
                    for s3, a in self.ev(e.body, st2, glob, owner, depth):
                        for s4, b in self.ev(e.orelse, s3, glob, owner, depth):
                            out.append((s4, mk_ite(c, a, b)))
            return out
        if isinstance(e, ast.Subscript):
            return [(s3, ("item", base, idx)) for s2, base in self.ev(e.value, st, glob, owner, depth)
                    for s3, idx in self.ev_slice(e.slice, s2, glob, owner, depth)]
        if isinstance(e, ast.Call):
            return self.ev_call(e, st, glob, owner, depth, for_raise)
        if isinstance(e, ast.JoinedStr):
            return [(st, ("fstring", ast.unparse(e)))]
        if isinstance(e, ast.Lambda):
            self.closures = getattr(self, "closures", {})
            self.closures[id(e)] = (e, dict(st.env), glob, owner)
            st.heap[("closure-env", id(e))] = (e, dict(st.env), glob, owner)
            return [(st, ("closure", id(e), "<lambda>"))]
        if isinstance(e, (ast.ListComp, ast.GeneratorExp, ast.SetComp, ast.DictComp)):
            # evaluate the element expression once with the targets bound to iteration elements
            st2 = st
            saved = dict(st.env)
            srcs = []
            for g in e.generators:
                r = self.ev(g.iter, st2, glob, owner, depth)
                st2, it = r[0]
                srcs.append(it)
                st2 = self.assign(g.target, ("iter", it, "comp"), st2, glob, owner, depth)[0]
            elt = e.elt if not isinstance(e, ast.DictComp) else e.value
            r = self.ev(elt, st2, glob, owner, depth)
            st2, v = r[0]
            st2.env = {**saved}
            return [(st2, ("comp", type(e).__name__, v, tuple(srcs), ast.unparse(e)))]
        if isinstance(e, ast.Starred):
            return [(s2, ("star", v)) for s2, v in self.ev(e.value, st, glob, owner, depth)]
        if isinstance(e, ast.Slice):
            return self.ev_slice(e, st, glob, owner, depth)
        if isinstance(e, (ast.Yield,)):
            out = []
            for st2, v in (self.ev(e.value, st, glob, owner, depth) if e.value else [(st, C(None))]):
                st2.events.append(("yield", v, st2.loops))
                out.append((st2, C(None)))
            return out
        raise FxUnsupported(f"expression {type(e).__name__}: {ast.unparse(e)[:60]}")

    def ev_slice(self, sl, st, glob, owner, depth):
        if isinstance(sl, ast.Slice):
            res = [(st, [])]
            for x in (sl.lower, sl.upper, sl.step):
                if x is None:
                    res = [(s2, items + [C(None)]) for s2, items in res]
                else:
                    res = [(s3, items + [v]) for s2, items in res for s3, v in self.ev(x, s2, glob, owner, depth)]
            return [(s2, ("slice",) + tuple(items)) for s2, items in res]
        return self.ev(sl, st, glob, owner, depth)

    def ev_call(self, e, st, glob, owner, depth, for_raise=False):
        fsrc = ast.unparse(e.func)
        # super().m(...)
        if (isinstance(e.func, ast.Attribute) and isinstance(e.func.value, ast.Call)
                and getattr(e.func.value.func, "id", None) == "super"):
            return self._args_then(e, st, glob, owner, depth,
                                   lambda s2, args, kw: self.call_method(e.func.attr, ("var", "self"), args, kw, s2, glob,
                                                                         owner, depth, after=owner, fsrc=fsrc))
        out = []
        for st2, f in self.ev(e.func, st, glob, owner, depth):
            out.extend(self._args_then(e, st2, glob, owner, depth,
                                       lambda s2, args, kw, f=f: self.apply(f, fsrc, args, kw, s2, glob, owner, depth)))
        return out

    def _args_then(self, e, st, glob, owner, depth, k):
        res = [(st, [], [])]
        for a in e.args:
            res = [(s3, args + [v], kw) for s2, args, kw in res for s3, v in self.ev(a, s2, glob, owner, depth)]
        for kwd in e.keywords:
            res = [(s3, args, kw + [(kwd.arg, v)]) for s2, args, kw in res
                   for s3, v in self.ev(kwd.value, s2, glob, owner, depth)]
        out = []
        for s2, args, kw in res:
            out.extend(k(s2, tuple(args), tuple(kw)))
        return out

    def apply(self, f, fsrc, args, kw, st, glob, owner, depth):
        # method on self, resolved through the real MRO
        if isinstance(f, tuple) and f[0] == "attr" and f[1] == ("var", "self") and self.cls is not None:
            return self.call_method(f[2], f[1], args, kw, st, glob, owner, depth, fsrc=fsrc)
        # explicit base-class call  Base.method(self, ...)
        if (isinstance(f, tuple) and f[0] == "attr" and isinstance(f[1], tuple) and f[1][0] == "global" and args
                and args[0] == ("var", "self") and self.cls is not None):
            base = glob.get(f[1][1])
            if isinstance(base, type) and base in self.cls.__mro__:
                idx = self.cls.__mro__.index(base)
                prev = self.cls.__mro__[idx - 1] if idx > 0 else None
                return self.call_method(f[2], args[0], args[1:], kw, st, glob, owner, depth, after=prev, fsrc=fsrc)
        # ---- canonical spellings, so that contracts do not depend on the idiom a maintainer prefers:
        #   dict() == {}                       np.matmul(a, b) == np.dot(a, b) == a @ b
        #   np.argmax(x, axis=1) == x.argmax(axis=1) == x.argmax(1)     (same for sum / mean / max / min / ... / reshape / copy)
        if isinstance(f, tuple) and f[0] == "builtin" and f[1] == "dict" and not args and not kw:
            return [(st, ("dict", ()))]
        if isinstance(f, tuple) and f[0] == "attr" and isinstance(f[1], tuple) and f[1][0] == "global":
            import numpy
            if glob.get(f[1][1]) is numpy:
                if f[2] in ("matmul", "dot") and len(args) == 2 and not kw:
                    return [(st, ("binop", "MatMult", args[0], args[1]))]
                if f[2] == "flatnonzero" and len(args) == 1 and not kw:
                    # np.flatnonzero(c) == np.where(c)[0] for the one-dimensional conditions of this code base
                    return [(s2, ("item", v, C(0))) for s2, v in self.apply(("attr", f[1], "where"), "np.where", args, kw, st, glob, owner, depth)]
                if f[2] == "logical_not" and len(args) == 1 and not kw:
                    return [(st, ("unop", "Invert", args[0]))]
                if f[2] in _METHOD_EQUIV and args:
                    f, fsrc, args = ("attr", args[0], f[2]), f"{show(args[0])[:60]}.{f[2]}", args[1:]
        if isinstance(f, tuple) and f[0] == "attr" and f[2] in _AXIS_FIRST and not args and kw and kw[0][0] == "axis":
            args, kw = (kw[0][1],), kw[1:]
        if isinstance(f, tuple) and f[0] == "ite":
            # (A if c else B)(args): one path per branch, the condition joins the path condition
            out = []
            dec = None
            for c_, b_ in st.pc:
                if c_ == f[1]:
                    dec = b_
            for pol, fb in ((True, f[2]), (False, f[3])):
                if dec is not None and dec != pol:
                    continue
                s2 = st.copy() if dec is None else st
                if dec is None:
                    s2.pc.append((f[1], pol))
                nm = fb[1] if isinstance(fb, tuple) and fb[0] in ("global", "builtin", "free") else fsrc
                out.extend(self.apply(fb, nm, args, kw, s2, glob, owner, depth))
            return out
        if isinstance(f, tuple) and f[0] == "closure":
            node, env, g2, own2 = st.heap.get(("closure-env", f[1])) or self.closures[f[1]]
            return self.inline_fn(node, env, args, kw, st, g2, own2, depth, f[2])
        # the name of a call is read off what the callee DENOTES (self.optimiser_.update_params), not off how the source spells it
        # (opt = self.optimiser_; opt.update_params(...)): local aliases do not change the trace
        name = _canon_name(f, st) or fsrc
        if isinstance(f, tuple) and f[0] == "global":
            name = f[1]
            obj = glob.get(name)
            import types
            if (self.inline and isinstance(obj, types.FunctionType) and (getattr(obj, "__module__", "") or "").startswith("gemclus")
                    and depth < self.max_depth and (name in self.inline_functions or obj.__name__ not in self.known_api)
                    and ("fn", name) not in self.frames):
                try:
                    node, fobj = fn_ast(obj)
                except (OSError, TypeError):
                    node = None
                if node is not None and not any(isinstance(x, (ast.Yield, ast.YieldFrom)) for x in ast.walk(node)):
                    self.frames.append(("fn", name))
                    try:
                        return self.inline_fn(node, {}, args, kw, st, fobj.__globals__, None, depth, name)
                    finally:
                        self.frames.pop()
        params = None
        if isinstance(f, tuple) and f[0] == "global" and kw:
            import inspect
            obj = glob.get(f[1])
            try:
                tgt = obj.__init__ if inspect.isclass(obj) else obj
                ps = [p_.name for p_ in inspect.signature(tgt).parameters.values() if p_.kind in (p_.POSITIONAL_ONLY, p_.POSITIONAL_OR_KEYWORD)]
                params = tuple(ps[1:] if inspect.isclass(obj) else ps)
            except (TypeError, ValueError, AttributeError):
                params = None
        return [self.opaque_call(name, f, args, kw, st, params=params)]

    def opaque_call(self, name, f, args, kw, st, params=None):
        args, kw = _positional(name, args, kw, params)
        self.seq += 1
        seq = self.seq
        pure = name in self.pure
        st.events.append(("call", seq, name, args, kw, st.loops, f))
        return st, ("callres", None if pure else seq, name, args, kw)

    def call_method(self, m, selft, args, kw, st, glob, owner, depth, after=None, fsrc=None):
        o2, f2 = self.resolve(m, after=after)
        if f2 is None:
            # instance attribute holding a callable (e.g. a decorated method or a stored kernel)
            k = (selft, m)
            if k in st.heap:
                return self.apply(st.heap[k], fsrc or m, args, kw, st, glob, owner, depth)
            if after is None and m not in self._init_params():
                self.unresolved.append(m)
            return [self.opaque_call(f"self.{m}", ("attr", selft, m), args, kw, st)]
        mod = getattr(o2, "__module__", "") or ""
        # a method that did not exist when the contracts were written is a helper extracted later: always seen through
        want_inline = (self.inline and mod.startswith("gemclus") and depth < self.max_depth
                       and (self.inline_filter is None or self.inline_filter(o2, m) or m not in self.known_api))
        if isinstance(f2, property):
            want_inline = False
        if not want_inline or (o2, m) in self.frames:
            r = self.opaque_call(f"self.{m}", ("method", o2.__name__ if o2 else None, m), args, kw, st, params=_params_of(f2))
            return [r]
        is_static = isinstance(f2, staticmethod)
        if isinstance(f2, (staticmethod, classmethod)):
            f2 = f2.__func__
        node, fobj = fn_ast(f2)
        if any(isinstance(x, (ast.Yield, ast.YieldFrom)) for x in ast.walk(node)):
            # generator functions are never inlined: their contract (C10) describes the yielded sequence
            return [self.opaque_call(f"self.{m}", ("method", o2.__name__, m), args, kw, st)]
        self.frames.append((o2, m))
        try:
            # a static method has no receiver parameter: its arguments bind from the first parameter on
            env = {} if is_static else {node.args.args[0].arg: selft}
            res = self.inline_fn(node, env, args, kw, st, fobj.__globals__, o2, depth, f"{o2.__name__}.{m}", skip_first=not is_static)
        finally:
            self.frames.pop()
        return res

    def inline_fn(self, node, env0, args, kw, st, glob, owner, depth, label, skip_first=False):
        params = [a.arg for a in node.args.args]
        if skip_first:
            params = params[1:]
        env = dict(env0)
        defaults = node.args.defaults
        # bind
        for i, pn in enumerate(params):
            if i < len(args):
                env[pn] = args[i]
        for k, v in kw:
            env[k] = v
        nd = len(defaults)
        allp = [a.arg for a in node.args.args]
        for i, d in enumerate(defaults):
            pn = allp[len(allp) - nd + i]
            if pn not in env:
                r = self.ev(d, st, glob, owner, depth)
                env[pn] = r[0][1]
        for pn in params:
            env.setdefault(pn, ("var", pn))
        saved_env = st.env
        st.env = env
        st.events.append(("enter", label, st.loops))
        body = node.body if not isinstance(node, ast.Lambda) else [ast.Return(value=node.body)]
        res = self.exec_block(body, [st], glob, owner, depth + 1)
        out = []
        for r in res:
            r.env = dict(saved_env)
            if r.ended == "raise":
                out.append((r, ("bottom",)))
                continue
            v = r.ret if r.ended == "return" else C(None)
            r.ended, r.ret = None, None
            r.events.append(("leave", label, r.loops))
            out.append((r, v))
        # raised paths must stay ended: exec_block skips ended states
        return out


_AXIS_FIRST = frozenset(("argmax", "argmin", "sum", "mean", "max", "min", "prod", "any", "all", "std", "var", "cumsum", "squeeze"))
_METHOD_EQUIV = _AXIS_FIRST | frozenset(("reshape", "copy", "flatten", "ravel", "transpose", "nonzero", "argsort", "astype", "tolist", "item"))
_PURE_BUILTINS = frozenset(("dict", "list", "tuple", "set", "frozenset", "len", "int", "float", "bool", "str", "isinstance", "callable", "range",
                            "min", "max", "abs", "sum", "sorted", "round"))
_NEG = {"IsNot": "Is", "NotEq": "Eq", "NotIn": "In"}


_SIGS = None


def _signatures():
    """parameter lists of every function / method defined in GemClus, by name (without self / cls)"""
    global _SIGS
    if _SIGS is None:
        import importlib
        import inspect
        import pkgutil
        _SIGS = {}
        try:
            import gemclus
            mods = [gemclus] + [importlib.import_module(m.name) for m in pkgutil.walk_packages(gemclus.__path__, "gemclus.") if ".tests" not in m.name]
        except Exception:
            mods = []
        for mod in mods:
            for _, obj in list(vars(mod).items()):
                cands = []
                if inspect.isfunction(obj) and (obj.__module__ or "").startswith("gemclus"):
                    cands.append((obj, False))
                elif inspect.isclass(obj) and (obj.__module__ or "").startswith("gemclus"):
                    for nm, m_ in vars(obj).items():
                        fobj = m_.__func__ if isinstance(m_, (staticmethod, classmethod)) else m_
                        if inspect.isfunction(fobj):
                            cands.append((fobj, not isinstance(m_, staticmethod)))
                for fobj, drop in cands:
                    try:
                        ps = [p_.name for p_ in inspect.signature(fobj).parameters.values()
                              if p_.kind in (p_.POSITIONAL_ONLY, p_.POSITIONAL_OR_KEYWORD)]
                    except (TypeError, ValueError):
                        continue
                    _SIGS.setdefault(fobj.__name__, set()).add(tuple(ps[1:] if drop else ps))
    return _SIGS


def _params_of(f2):
    import inspect
    drop = not isinstance(f2, staticmethod)
    fobj = f2.__func__ if isinstance(f2, (staticmethod, classmethod)) else f2
    try:
        ps = [p_.name for p_ in inspect.signature(fobj).parameters.values() if p_.kind in (p_.POSITIONAL_ONLY, p_.POSITIONAL_OR_KEYWORD)]
    except (TypeError, ValueError):
        return None
    return tuple(ps[1:] if drop else ps)


def _positional(name, args, kw, params=None):
    """f(a, y=b) and f(a, b) are the same call when y is the second parameter: keywords that continue the positional prefix of a
    GemClus callee (all definitions of that name agree on the parameter list) are moved to their positions"""
    if not kw:
        return args, kw
    if params is None:
        sigs = _signatures().get(name.rsplit(".", 1)[-1])
        if not sigs or len(sigs) != 1:
            return args, kw
        params = next(iter(sigs))
    args, kw = list(args), list(kw)
    while len(args) < len(params):
        nxt = params[len(args)]
        hit = [i for i, (k, _v) in enumerate(kw) if k == nxt]
        if not hit:
            break
        args.append(kw.pop(hit[0])[1])
    return tuple(args), tuple(kw)


def argmap(t, params):
    """arguments of a call result by parameter name, whether they were passed by position or by keyword (`**mapping` under None)"""
    out = {}
    for name, v in zip(params, t[3]):
        out[name] = v
    for k, v in t[4]:
        out[k] = v
    if len(t[3]) > len(params):
        out["*extra"] = t[3][len(params):]
    return out


def branches(t):
    """the terms a conditional term may denote (a mutation of `a if c else b` mutates a or b)"""
    if isinstance(t, tuple) and t and t[0] == "ite":
        return branches(t[2]) + branches(t[3])
    return [t]


def _canon_name(f, st=None):
    if isinstance(f, tuple):
        if f[0] == "var":
            return f[1]
        if f[0] == "attr" and isinstance(f[2], str):
            b = _canon_name(f[1], st)
            return None if b is None else b + "." + f[2]
        if st is not None:
            # an object created locally and stored on self (tree = Tree(); self.tree_ = tree) is named by the attribute that holds it
            for (base, attr), val in st.heap.items():
                if val == f and base == ("var", "self"):
                    return "self." + attr
    return None


def canon_cond(v):
    """canonical form of a branch condition: negations are folded into the polarity, so that `if x is not None: A else: B`,
    `if x is None: B else: A` and `if not (x is None): A ...` leave the same path conditions.  Returns (term, flipped)."""
    flip = False
    while isinstance(v, tuple):
        if v[0] == "unop" and v[1] == "Not":
            v, flip = v[2], not flip
            continue
        if v[0] == "cmp" and len(v[1]) == 1 and v[1][0] in _NEG:
            v, flip = ("cmp", (_NEG[v[1][0]],), v[2]), not flip
            continue
        break
    return v, flip


def pc_entry(c, polarity):
    c2, f = canon_cond(c)
    return (c2, polarity != f)


def mk_ite(c, a, b):
    c2, f = canon_cond(c)
    if a == b:
        return a
    return ("ite", c2, b, a) if f else ("ite", c2, a, b)


def _as_load(t):
    t2 = ast.parse(ast.unparse(t), mode="eval").body
    return t2


def _ignorable(e):
    return e[0] in ("read",) or (e[0] == "call" and e[2] in IGNORABLE_CALLS)


def _fold(t):
    """constant folding of fully concrete sub-terms"""
    try:
        if t[0] == "binop" and is_const(t[2]) and is_const(t[3]):
            import operator
            op = {"Add": operator.add, "Sub": operator.sub, "Mult": operator.mul, "Div": operator.truediv,
                  "FloorDiv": operator.floordiv, "Mod": operator.mod, "Pow": operator.pow}[t[1]]
            return C(op(t[2][1], t[3][1]))
        if t[0] == "unop" and is_const(t[2]):
            import operator
            op = {"Not": operator.not_, "USub": operator.neg, "UAdd": operator.pos}[t[1]]
            return C(op(t[2][1]))
        if t[0] == "cmp" and all(is_const(x) for x in t[2]) and len(t[1]) == 1:
            a, b = t[2][0][1], t[2][1][1]
            o = t[1][0]
            r = {"Eq": a == b, "NotEq": a != b, "Is": a is b, "IsNot": a is not b}.get(o)
            if r is None and o in ("Lt", "LtE", "Gt", "GtE"):
                r = {"Lt": a < b, "LtE": a <= b, "Gt": a > b, "GtE": a >= b}[o]
            if r is not None:
                return C(bool(r))
    except Exception:
        pass
    return t


# ------------------------------------------------------------------ trace queries
def calls(st, name=None, pred=None):
    out = []
    for e in st.events:
        if e[0] == "call" and (name is None or e[2] == name or (callable(name) and name(e[2]))):
            if pred is None or pred(e):
                out.append(e)
    return out


def stores(st, obj=("var", "self")):
    return [(e[2], e[3]) for e in st.events if e[0] == "store" and e[1] == obj]


def find_callres(t, name, acc=None):
    """all sub-terms of t that are results of a call named `name`."""
    acc = [] if acc is None else acc
    if isinstance(t, tuple):
        if t and t[0] == "callres" and t[2] == name:
            acc.append(t)
        for x in t:
            find_callres(x, name, acc)
    return acc


def strip(t):
    """erase call sequence numbers (so that terms can be compared structurally)."""
    if isinstance(t, tuple):
        if t and t[0] == "callres":
            return ("callres", None, t[2], strip(t[3]), strip(t[4]))
        return tuple(strip(x) for x in t)
    return t


def show(t, depth=0):
    if not isinstance(t, tuple) or not t:
        return repr(t)
    k = t[0]
    if k == "const":
        return repr(t[1])
    if k == "var":
        return t[1]
    if k in ("global", "builtin", "free"):
        return t[1]
    if k == "attr":
        return f"{show(t[1])}.{t[2]}"
    if k == "callres":
        a = ", ".join([show(x) for x in t[3]] + [f"{n}={show(v)}" for n, v in t[4]])
        return f"{t[2]}({a})"
    if k == "item":
        return f"{show(t[1])}[{show(t[2])}]"
    if k == "list":
        return "[" + ", ".join(show(x) for x in t[1]) + "]#" + str(t[2] if len(t) > 2 else "")
    if k == "tuple":
        return "(" + ", ".join(show(x) for x in t[1]) + ")"
    if k == "iter":
        return f"elem({show(t[1])})"
    if k == "loopvar":
        return f"{t[2]}@loop{t[1]}"
    if k == "loopout":
        return f"{t[2]}@after-loop{t[1]}"
    if k == "binop":
        return f"({show(t[2])} {t[1]} {show(t[3])})"
    if k == "slice":
        return ":".join("" if x == C(None) else show(x) for x in t[1:])
    if not isinstance(k, str):
        return "(" + ", ".join(show(x) for x in t) + ")"
    return "<" + k + " " + " ".join(show(x) for x in t[1:]) + ">"
