"""FX terms -> z3: decides obligations about integer counters and branch conditions of a path *semantically* (for all integer
values of the symbols) instead of by the shape of the code.  `n += 2 if a and b else 1` under `if a or b:`, an if / elif chain
and `n += int(a) + int(b)` are one function; `if d and s: q.append(x)` and `if d: if s: q.append(x)` enqueue under one condition.

Fragment: integer constants, + - *, comparisons, and / or / not, conditional terms, int(bool) and bool(int); every other term
(attribute reads, call results, loop variables) is an uninterpreted integer (or Boolean, where it is used as one) keyed by the term
itself, so equal terms denote equal values.  `x is None` is an uninterpreted Boolean of x.  len(X) and X.shape[0] of the same X
are one symbol.  Assumption A2 (unbounded integers) applies."""
import z3

from . import fx


class Tr:
    def __init__(self):
        self.ints, self.bools = {}, {}

    def _key(self, t):
        t = fx.strip(t) if hasattr(fx, "strip") else t
        # number of rows: len(A) == A.shape[0]
        if isinstance(t, tuple) and t[:1] == ("callres",) and t[2] == "len" and len(t[3]) == 1:
            return ("nrows", t[3][0])
        if isinstance(t, tuple) and t[0] == "item" and isinstance(t[1], tuple) and t[1][:1] == ("attr",) and t[1][2] == "shape" and t[2] == fx.C(0):
            return ("nrows", t[1][1])
        return t

    def isym(self, t):
        k = self._key(t)
        if k not in self.ints:
            self.ints[k] = z3.Int(f"i{len(self.ints)}")
        return self.ints[k]

    def bsym(self, t):
        k = self._key(t)
        if k not in self.bools:
            self.bools[k] = z3.Bool(f"b{len(self.bools)}")
        return self.bools[k]

    def num(self, t):
        if fx.is_const(t):
            v = t[1]
            if isinstance(v, bool):
                return z3.IntVal(int(v))
            if isinstance(v, int):
                return z3.IntVal(v)
            return self.isym(t)
        if isinstance(t, tuple):
            if t[0] in ("loopvar",):
                return self.isym(t)
            if t[0] == "binop" and t[1] in ("Add", "Sub", "Mult"):
                a, b = self.num(t[2]), self.num(t[3])
                return {"Add": a + b, "Sub": a - b, "Mult": a * b}[t[1]]
            if t[0] == "ite":
                return z3.If(self.boo(t[1]), self.num(t[2]), self.num(t[3]))
            if t[:1] == ("callres",) and t[2] == "int" and len(t[3]) == 1 and self._boolish(t[3][0]):
                return z3.If(self.boo(t[3][0]), 1, 0)
            if self._boolish(t):
                return z3.If(self.boo(t), 1, 0)            # True + True == 2
        return self.isym(t)

    @staticmethod
    def _boolish(t):
        return isinstance(t, tuple) and (t[0] in ("cmp", "boolop") or (t[0] == "unop" and t[1] == "Not")
                                         or (fx.is_const(t) and isinstance(t[1], bool)))

    def boo(self, t):
        if fx.is_const(t):
            return z3.BoolVal(bool(t[1]))
        if isinstance(t, tuple):
            if t[0] == "cmp" and len(t[1]) == 1 and len(t[2]) == 2:
                op, (a, b) = t[1][0], t[2]
                if op in ("Is", "IsNot"):
                    r = self.bsym(("cmp", ("Is",), (a, b)))
                    return r if op == "Is" else z3.Not(r)
                if op in ("Lt", "LtE", "Gt", "GtE", "Eq", "NotEq"):
                    x, y = self.num(a), self.num(b)
                    return {"Lt": x < y, "LtE": x <= y, "Gt": x > y, "GtE": x >= y, "Eq": x == y, "NotEq": x != y}[op]
            if t[0] == "boolop":
                parts = [self.boo(x) for x in t[2]]
                return z3.And(*parts) if t[1] == "And" else z3.Or(*parts)
            if t[0] == "unop" and t[1] == "Not":
                return z3.Not(self.boo(t[2]))
            if t[0] == "ite":
                return z3.If(self.boo(t[1]), self.boo(t[2]), self.boo(t[3]))
            if t[:1] == ("callres",) and t[2] == "bool" and len(t[3]) == 1:
                return self.boo(t[3][0])
        return self.bsym(t)

    def path(self, pc):
        return [self.boo(c) if b else z3.Not(self.boo(c)) for c, b in pc]


def entails(tr, pc, goal, timeout_ms=5000):
    """pc => goal for all integer / Boolean values of the symbols; returns (status, counter-model or None)"""
    s = z3.Solver()
    s.set("timeout", timeout_ms)
    for a in tr.path(pc):
        s.add(a)
    s.add(z3.Not(goal))
    r = s.check()
    if r == z3.unsat:
        from . import xcheck
        xc = xcheck.second_opinion(s)
        return ("UNDECIDED" if xc.startswith("DISAGREE") else "PROVED"), {"xcheck": xc}
    if r == z3.sat:
        m = s.model()
        return "REFUTED", {"counter_model": {str(d): str(m[d]) for d in m.decls()}}
    return "UNDECIDED", None
