"""Hash-consed expression DAG over Q with atoms log/sqrt/exp.

This is the value domain of the SX engine: the real GemClus numeric functions are run on
NumPy object arrays whose elements wrap nodes of this DAG (see sx.py).
"""
from fractions import Fraction as Q
import math

import numpy as np


class Node:
    __slots__ = ("op", "args", "id", "__weakref__")

    def __repr__(self):
        return f"<{self.op}#{self.id}>"


_tab = {}
_cnt = [0]


def reset():
    _tab.clear()
    _cnt[0] = 0
    global ZERO, ONE, MONE
    ZERO = const(0)
    ONE = const(1)
    MONE = const(-1)


def mk(op, *args):
    key = (op,) + tuple(a.id if isinstance(a, Node) else a for a in args)
    n = _tab.get(key)
    if n is None:
        n = Node()
        n.op = op
        n.args = args
        n.id = _cnt[0]
        _cnt[0] += 1
        _tab[key] = n
    return n


def const(c):
    return mk("c", Q(c))


ZERO = const(0)
ONE = const(1)
MONE = const(-1)


def var(name):
    return mk("v", name)


def add(a, b):
    if a.op == "c" and b.op == "c":
        return const(a.args[0] + b.args[0])
    if a is ZERO:
        return b
    if b is ZERO:
        return a
    return mk("+", a, b) if a.id <= b.id else mk("+", b, a)


def mul(a, b):
    if a.op == "c" and b.op == "c":
        return const(a.args[0] * b.args[0])
    if a is ZERO or b is ZERO:
        return ZERO
    if a is ONE:
        return b
    if b is ONE:
        return a
    return mk("*", a, b) if a.id <= b.id else mk("*", b, a)


def neg(a):
    return mul(MONE, a)


def sub(a, b):
    return add(a, neg(b))


def inv(a):
    if a.op == "c":
        if a.args[0] == 0:
            raise ZeroDivisionError("symbolic division by the constant 0")
        return const(1 / a.args[0])
    if a.op == "inv":
        return a.args[0]
    return mk("inv", a)


def atom(kind, a):
    if kind == "sqrt" and a.op == "c":
        c = a.args[0]
        if c >= 0:
            rn, rd = math.isqrt(c.numerator), math.isqrt(c.denominator)
            if rn * rn == c.numerator and rd * rd == c.denominator:
                return const(Q(rn, rd))
    if kind == "log" and a is ONE:
        return ZERO
    if kind == "exp" and a is ZERO:
        return ONE
    return mk(kind, a)


def defined(a, sign=None):
    """identity function that asks the normal form to keep `a` as one generator of declared
    sign (used for the dependent coordinate of a simplex row, p_iK = 1 - sum_k p_ik > 0)."""
    return mk("def", a, sign)


def total(nodes):
    r = ZERO
    for n in nodes:
        r = add(r, n)
    return r


# ---- lifting of concrete numbers: simplest rational within 2^-50 (assumption A3)
def _simplest_between(lo, hi):
    if lo > hi:
        lo, hi = hi, lo
    if lo <= 0 <= hi:
        return Q(0)
    if hi < 0:
        return -_simplest_between(-hi, -lo)
    fl = math.floor(lo)
    if fl == lo:
        return Q(fl)
    if fl + 1 <= hi:
        return Q(fl + 1)
    r = _simplest_between(1 / (hi - fl), 1 / (lo - fl))
    return fl + 1 / r


_ratcache = {}


def rat(x):
    x = float(x)
    r = _ratcache.get(x)
    if r is not None:
        return r
    if math.isnan(x) or math.isinf(x):
        raise ValueError("non-finite float met a symbol: %r" % x)
    if x == int(x) and abs(x) < 2 ** 53:
        r = Q(int(x))
    else:
        q = Q(x)
        eps = abs(q) * Q(1, 2 ** 50)
        r = _simplest_between(q - eps, q + eps)
    _ratcache[x] = r
    return r


# ---- evaluation
def fev(n, env, memo=None):
    """float64 evaluation (iterative, memoised)."""
    memo = {} if memo is None else memo
    stack = [n]
    while stack:
        m = stack[-1]
        if m.id in memo:
            stack.pop()
            continue
        o = m.op
        if o == "c":
            memo[m.id] = float(m.args[0])
            stack.pop()
        elif o == "v":
            memo[m.id] = float(env[m.args[0]])
            stack.pop()
        else:
            todo = [a for a in m.args if isinstance(a, Node) and a.id not in memo]
            if todo:
                stack.extend(todo)
                continue
            stack.pop()
            v = [memo[a.id] for a in m.args if isinstance(a, Node)]
            try:
                if o == "+":
                    r = v[0] + v[1]
                elif o == "*":
                    r = v[0] * v[1]
                elif o == "inv":
                    r = 1.0 / v[0] if v[0] != 0 else float("nan")
                elif o == "log":
                    r = math.log(v[0]) if v[0] > 0 else float("nan")
                elif o == "sqrt":
                    r = math.sqrt(v[0]) if v[0] >= 0 else (0.0 if v[0] > -1e-300 else float("nan"))
                elif o == "exp":
                    r = math.exp(v[0])
                elif o == "def":
                    r = v[0]
                else:
                    raise ValueError(o)
            except OverflowError:
                r = float("inf")
            memo[m.id] = r
    return memo[n.id]


def fev_vec(n, env, memo):
    """vectorised float64 evaluation: env maps names to equal-length NumPy arrays."""
    stack = [n]
    with np.errstate(all="ignore"):
        while stack:
            m = stack[-1]
            if m.id in memo:
                stack.pop()
                continue
            o = m.op
            if o == "c":
                memo[m.id] = float(m.args[0])
                stack.pop()
            elif o == "v":
                memo[m.id] = env[m.args[0]]
                stack.pop()
            else:
                todo = [a for a in m.args if isinstance(a, Node) and a.id not in memo]
                if todo:
                    stack.extend(todo)
                    continue
                stack.pop()
                v = [memo[a.id] for a in m.args if isinstance(a, Node)]
                if o == "+":
                    r = v[0] + v[1]
                elif o == "*":
                    r = v[0] * v[1]
                elif o == "inv":
                    r = 1.0 / np.asarray(v[0], dtype=float)
                elif o == "log":
                    r = np.log(np.asarray(v[0], dtype=float))
                elif o == "sqrt":
                    r = np.sqrt(np.asarray(v[0], dtype=float))
                elif o == "exp":
                    r = np.exp(np.asarray(v[0], dtype=float))
                elif o == "def":
                    r = v[0]
                else:
                    raise ValueError(o)
                memo[m.id] = r
    return memo[n.id]


def mpev(n, env, memo=None, dps=50):
    """mpmath evaluation with true log/sqrt/exp."""
    import mpmath
    mpmath.mp.dps = dps
    memo = {} if memo is None else memo
    stack = [n]
    while stack:
        m = stack[-1]
        if m.id in memo:
            stack.pop()
            continue
        o = m.op
        if o == "c":
            c = m.args[0]
            memo[m.id] = mpmath.mpf(c.numerator) / mpmath.mpf(c.denominator)
            stack.pop()
        elif o == "v":
            x = env[m.args[0]]
            memo[m.id] = (mpmath.mpf(x.numerator) / mpmath.mpf(x.denominator)) if isinstance(x, Q) else mpmath.mpf(x)
            stack.pop()
        else:
            todo = [a for a in m.args if isinstance(a, Node) and a.id not in memo]
            if todo:
                stack.extend(todo)
                continue
            stack.pop()
            v = [memo[a.id] for a in m.args if isinstance(a, Node)]
            if o == "+":
                r = v[0] + v[1]
            elif o == "*":
                r = v[0] * v[1]
            elif o == "inv":
                r = 1 / v[0] if v[0] != 0 else mpmath.nan
            elif o == "log":
                r = mpmath.log(v[0]) if v[0] > 0 else mpmath.nan
            elif o == "sqrt":
                r = mpmath.sqrt(v[0]) if v[0] >= 0 else mpmath.nan
            elif o == "exp":
                r = mpmath.exp(v[0])
            elif o == "def":
                r = v[0]
            memo[m.id] = r
    return memo[n.id]


def variables(n, acc=None, seen=None):
    acc = set() if acc is None else acc
    seen = set() if seen is None else seen
    stack = [n]
    while stack:
        m = stack.pop()
        if m.id in seen:
            continue
        seen.add(m.id)
        if m.op == "v":
            acc.add(m.args[0])
        elif m.op != "c":
            stack.extend(a for a in m.args if isinstance(a, Node))
    return acc


def size(n):
    seen = set()
    stack = [n]
    while stack:
        m = stack.pop()
        if m.id in seen:
            continue
        seen.add(m.id)
        if m.op not in ("c", "v"):
            stack.extend(a for a in m.args if isinstance(a, Node))
    return len(seen)


# ---- differentiation d/d var (memo per variable)
def diff(n, v, memo):
    # iterative post-order
    stack = [n]
    while stack:
        m = stack[-1]
        if m.id in memo:
            stack.pop()
            continue
        o = m.op
        if o == "c":
            memo[m.id] = ZERO
            stack.pop()
            continue
        if o == "v":
            memo[m.id] = ONE if m.args[0] == v else ZERO
            stack.pop()
            continue
        todo = [a for a in m.args if isinstance(a, Node) and a.id not in memo]
        if todo:
            stack.extend(todo)
            continue
        stack.pop()
        if o == "+":
            r = add(memo[m.args[0].id], memo[m.args[1].id])
        elif o == "*":
            a, b = m.args
            r = add(mul(memo[a.id], b), mul(a, memo[b.id]))
        elif o == "inv":
            a = m.args[0]
            da = memo[a.id]
            r = ZERO if da is ZERO else neg(mul(da, mul(m, m)))
        elif o == "log":
            da = memo[m.args[0].id]
            r = ZERO if da is ZERO else mul(da, inv(m.args[0]))
        elif o == "sqrt":
            da = memo[m.args[0].id]
            r = ZERO if da is ZERO else mul(da, mul(const(Q(1, 2)), inv(m)))
        elif o == "exp":
            r = mul(memo[m.args[0].id], m)
        elif o == "def":
            r = memo[m.args[0].id]
        else:
            raise ValueError(o)
        memo[m.id] = r
    return memo[n.id]


def substitute(n, mapping, memo=None):
    """Replace variables by nodes: mapping name -> Node."""
    memo = {} if memo is None else memo
    stack = [n]
    while stack:
        m = stack[-1]
        if m.id in memo:
            stack.pop()
            continue
        o = m.op
        if o == "c":
            memo[m.id] = m
            stack.pop()
            continue
        if o == "v":
            memo[m.id] = mapping.get(m.args[0], m)
            stack.pop()
            continue
        todo = [a for a in m.args if isinstance(a, Node) and a.id not in memo]
        if todo:
            stack.extend(todo)
            continue
        stack.pop()
        a = [memo[x.id] for x in m.args if isinstance(x, Node)]
        if o == "+":
            r = add(a[0], a[1])
        elif o == "*":
            r = mul(a[0], a[1])
        elif o == "inv":
            r = inv(a[0])
        elif o == "def":
            r = mk("def", a[0], m.args[1])
        else:
            r = atom(o, a[0])
        memo[m.id] = r
    return memo[n.id]
