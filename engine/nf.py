"""NF: deterministic normal-form prover for identities between DAG expressions.

Values are Laurent polynomials over Q in *generators*:
  v      a variable
  F      a composite denominator generator standing for a normalised multi-term polynomial q
         (1/q is F^-1), so that common denominators are products of distinct denominators
  sqrt   s with s^2 = a (a a polynomial in earlier generators), s >= 0
  sqrtc  square root of a square-free positive integer
  log    free generator standing for log(a)   (any identity valid for free atoms is valid)
  logc   log of a prime
  exp    generator standing for exp(a), > 0
Zero test: clear generators latest-first (F -> q, s^2 -> a, split into even/odd part in s).
Sound: a zero normal form implies the identity over the reals wherever all denominators are
non-zero and all sqrt/log arguments are in their domain.  Incomplete only if atoms are
algebraically dependent in a way the canonicalisation missed.
"""
from fractions import Fraction as Q
import cmath
import math

from . import dag


class Gen:
    __slots__ = ("kind", "data", "sign", "id", "val", "argval")


GENS = []          # id -> Gen
_GKEY = {}         # (kind, key) -> id
_NFMEMO = {}       # node id -> poly
VARSIGN = {}       # variable name -> '+', '-', '+0', '-0' (declared by contracts)
SAFETY = []        # list of (kind, poly) safety facts needed: ('inv', p) means p != 0 was assumed


def reset():
    GENS.clear()
    _GKEY.clear()
    _NFMEMO.clear()
    VARSIGN.clear()
    SAFETY.clear()


def pkey(p):
    return tuple(sorted(p.items()))


def gen(kind, key, data=None, sign=None):
    k = (kind, key)
    g = _GKEY.get(k)
    if g is None:
        G = Gen()
        G.val = None
        G.argval = None
        G.kind = kind
        G.data = data
        G.sign = sign
        G.id = len(GENS)
        GENS.append(G)
        _GKEY[k] = g = G.id
    return g


_VRNG = __import__("random").Random(12345)


def genval(g):
    """float value of a generator at two fixed pseudo-random reference points (used only as a
    pre-filter before an exact zero test when looking for an existing equivalent atom)."""
    G = GENS[g]
    v = getattr(G, "val", None)
    if v is not None:
        return v
    if G.kind == "v":
        v = (_VRNG.uniform(0.3, 1.7), _VRNG.uniform(0.3, 1.7))
    elif G.kind == "F":
        v = tuple(peval(G.data, i) for i in (0, 1))
    elif G.kind == "sqrt":
        v = tuple(cmath.sqrt(peval(G.data, i)) for i in (0, 1))
    elif G.kind == "sqrtc":
        v = (math.sqrt(G.data),) * 2
    elif G.kind == "logc":
        v = (math.log(G.data),) * 2
    elif G.kind == "log":
        v = tuple(cmath.log(peval(G.data, i) or 1.0) for i in (0, 1))
    elif G.kind == "exp":
        v = tuple(cmath.exp(max(-50.0, min(50.0, complex(peval(G.data, i)).real))) for i in (0, 1))
    G.val = v
    return v


def peval(p, i):
    tot = 0.0
    for m, c in p.items():
        t = float(c)
        for g, e in m:
            x = genval(g)[i]
            try:
                t *= x ** e
            except ZeroDivisionError:
                t = float("inf")
        tot += t
    if isinstance(tot, complex) and abs(tot.imag) <= 1e-13 * abs(tot):
        tot = tot.real
    return tot


def _find_equiv(kind, p):
    """existing atom of this kind whose argument is c * p for a rational c > 0 (exactly):
    returns (gen id, c) or None."""
    try:
        v0, v1 = peval(p, 0), peval(p, 1)
    except OverflowError:
        return None
    if not (v0 and v1) or v0 != v0 or v1 != v1 or isinstance(v0, complex) or isinstance(v1, complex):
        return None
    for G in GENS:
        if G.kind != kind or len(G.data) <= 1 and kind != "exp":
            continue
        w = getattr(G, "argval", None)
        if w is None:
            try:
                w = G.argval = (peval(G.data, 0), peval(G.data, 1))
            except OverflowError:
                continue
        if not (w[0] and w[1]) or isinstance(w[0], complex) or isinstance(w[1], complex):
            continue
        r0, r1 = w[0] / v0, w[1] / v1
        if r0 <= 0 or abs(r0 - r1) > 1e-9 * abs(r0):
            continue
        c = dag.rat(r0)
        if abs(float(c) - r0) > 1e-9 * abs(r0):
            continue
        if iszero(padd(G.data, pscale(p, -c))):
            return G.id, c
    return None


def pconst(c):
    c = Q(c)
    return {(): c} if c else {}


def pgen(g, e=1):
    return {((g, e),): Q(1)}


def padd(a, b):
    if len(a) < len(b):
        a, b = b, a
    t = dict(a)
    for m, c in b.items():
        v = t.get(m)
        if v is None:
            t[m] = c
        else:
            v = v + c
            if v:
                t[m] = v
            else:
                del t[m]
    return t


def pscale(a, c):
    if not c:
        return {}
    return {m: v * c for m, v in a.items()}


def mmul(m1, m2):
    if not m1:
        return m2
    if not m2:
        return m1
    d = dict(m1)
    for g, e in m2:
        v = d.get(g, 0) + e
        if v:
            d[g] = v
        else:
            del d[g]
    return tuple(sorted(d.items()))


def pmul(a, b):
    if len(a) > len(b):
        a, b = b, a
    t = {}
    for m1, c1 in a.items():
        for m2, c2 in b.items():
            m = mmul(m1, m2)
            c = c1 * c2
            v = t.get(m)
            if v is None:
                t[m] = c
            else:
                v = v + c
                if v:
                    t[m] = v
                else:
                    del t[m]
    return t


def ppow(a, e):
    r = {(): Q(1)}
    for _ in range(e):
        r = pmul(r, a)
    return r


def normalise(p):
    """p = c * m0 * q with q multi-term, monomial-gcd free, coefficient of its smallest
    monomial 1 (or q == 1 when p is a single term)."""
    if len(p) == 1:
        (m, c), = p.items()
        return c, m, {(): Q(1)}
    mins = None
    for m in p:
        d = dict(m)
        if mins is None:
            mins = dict(d)
        else:
            for g in list(mins):
                mins[g] = min(mins[g], d.get(g, 0))
            for g, e in d.items():
                if g not in mins:
                    mins[g] = min(0, e)
    mins = {g: e for g, e in mins.items() if e}
    m0 = tuple(sorted(mins.items()))
    m0inv = tuple((g, -e) for g, e in m0)
    q = {mmul(m, m0inv): c for m, c in p.items()}
    lead = q[min(q)]
    q = {m: c / lead for m, c in q.items()}
    return lead, m0, q


def gsign(g, e):
    s = GENS[g].sign
    if e % 2 == 0:
        return "+" if s in ("+", "-") else "+0"
    if e < 0 and s in ("+0", "-0"):
        return None
    return s


_MUL = {("+", "+"): "+", ("+", "-"): "-", ("-", "+"): "-", ("-", "-"): "+"}


def smul(a, b):
    if a is None or b is None:
        return None
    if a == "0" or b == "0":
        return "0"
    strict = (len(a) == 1 and len(b) == 1)
    r = _MUL[(a[0], b[0])]
    return r if strict else r + "0"


def msign(m):
    s = "+"
    for g, e in m:
        s = smul(s, gsign(g, e))
        if s is None:
            return None
    return s


def poly_sign(p):
    """'+','-','+0','-0','0' or None."""
    if not p:
        return "0"
    tot = None
    for m, c in p.items():
        s = smul("+" if c > 0 else "-", msign(m))
        if s is None:
            return None
        if tot is None:
            tot = s
        else:
            if tot[0] != s[0]:
                return None
            if len(tot) == 2 and len(s) == 1:
                tot = s      # one strictly signed term makes the sum strict
    return tot


def pinv(p):
    if not p:
        raise ZeroDivisionError("division by an identically zero expression")
    if len(p) == 1:
        (m, c), = p.items()
        return {tuple((g, -e) for g, e in m): 1 / c}
    lead, m0, q = normalise(p)
    F = gen("F", pkey(q), data=q)
    if GENS[F].sign is None:
        GENS[F].sign = poly_sign(q) if poly_sign(q) in ("+", "-") else None
    m0inv = tuple((g, -e) for g, e in m0)
    return {mmul(m0inv, ((F, -1),)): 1 / lead}


def pdef(p, sign):
    """keep the (multi-term) polynomial p as one generator F with F == q (p = lead * m0 * q)."""
    if len(p) <= 1:
        return p
    lead, m0, q = normalise(p)
    F = gen("F", pkey(q), data=q)
    if sign is not None and GENS[F].sign is None:
        sm = smul("+" if lead > 0 else "-", msign(m0))
        if sm in ("+", "-") and sign in ("+", "-"):
            GENS[F].sign = sign if sm == "+" else ("-" if sign == "+" else "+")
    return {mmul(m0, ((F, 1),)): lead}


def _factor_int(n):
    f = {}
    d = 2
    while d * d <= n and d < 10 ** 6:
        while n % d == 0:
            f[d] = f.get(d, 0) + 1
            n //= d
        d += 1 if d == 2 else 2
    if n > 1:
        f[n] = f.get(n, 0) + 1
    return f


def plogc(c):
    r = {}
    for n, sgn in ((c.numerator, 1), (c.denominator, -1)):
        for pr, e in _factor_int(n).items():
            r = padd(r, pscale(pgen(gen("logc", pr, data=pr, sign="+")), sgn * e))
    return r


def plog(p):
    if not p:
        raise ValueError("log of an identically zero expression")
    c, m0, q = normalise(p)
    ok = c > 0 and all(GENS[g].sign == "+" for g, _ in m0)
    multi = len(q) > 1
    if multi and ok and poly_sign(q) != "+":
        ok = False
    if not ok:
        if ("log", pkey(p)) not in _GKEY and len(p) > 1:
            hit = _find_equiv("log", p)
            if hit is not None:
                return padd(pgen(hit[0]), pscale(plogc(hit[1]), -1))
        return pgen(gen("log", pkey(p), data=p))
    r = plogc(c)
    for g, e in m0:
        G = GENS[g]
        if G.kind == "F":
            t = plog(G.data)
        elif G.kind == "sqrt":
            t = pscale(plog(G.data), Q(1, 2))
        elif G.kind == "sqrtc":
            t = pscale(plogc(Q(G.data)), Q(1, 2))
        elif G.kind == "exp":
            t = G.data
        else:
            t = pgen(gen("log", pkey(pgen(g)), data=pgen(g)))
        r = padd(r, pscale(t, e))
    if multi:
        r = padd(r, pgen(gen("log", pkey(q), data=q)))
    return r


def psqrt(p):
    if not p:
        return {}
    c, m0, q = normalise(p)
    multi = len(q) > 1
    qs = poly_sign(q) if multi else "+"
    if c < 0 and qs == "-":
        c, q, qs = -c, pscale(q, -1), "+"
    if c < 0 or qs not in ("+", "+0"):
        if ("sqrt", pkey(p)) not in _GKEY:
            hit = _find_equiv("sqrt", p)
            if hit is not None:
                return pmul(psqrt(pconst(1 / hit[1])), pgen(hit[0]))
        s = gen("sqrt", pkey(p), data=p, sign="+0")
        return pgen(s)
    out = {(): Q(1)}
    rest_c = Q(1)
    # rational part
    num, den = c.numerator, c.denominator
    k = num * den          # sqrt(num/den) = sqrt(num*den)/den
    sq = 1
    sf = 1
    for pr, e in _factor_int(k).items():
        sq *= pr ** (e // 2)
        if e % 2:
            sf *= pr
    out = pscale(out, Q(sq, den))
    if sf != 1:
        out = pmul(out, pgen(gen("sqrtc", sf, data=sf, sign="+")))
    rest = {(): Q(1)}
    for g, e in m0:
        if GENS[g].sign == "+" or (GENS[g].sign == "+0" and e > 0):
            h, r = divmod(e, 2)
            if h:
                out = pmul(out, pgen(g, h))
            if r:
                a = GENS[g].data if GENS[g].kind == "F" else pgen(g)
                s = gen("sqrt", pkey(a), data=a, sign=GENS[g].sign)
                out = pmul(out, pgen(s))
        else:
            rest = pmul(rest, pgen(g, e))
    if multi:
        rest = pmul(rest, q)
    if rest != {(): Q(1)}:
        if ("sqrt", pkey(rest)) not in _GKEY and len(rest) > 1:
            hit = _find_equiv("sqrt", rest)
            if hit is not None:
                # G.data == c * rest  =>  sqrt(rest) = sqrt(1/c) * s_G
                return pmul(pmul(out, psqrt(pconst(1 / hit[1]))), pgen(hit[0]))
        sg = "+" if poly_sign(rest) == "+" else "+0"
        s = gen("sqrt", pkey(rest), data=rest, sign=sg)
        out = pmul(out, pgen(s))
    return out


def pexp(p):
    """exp of a normal form splits over its monomials: exp(sum_m c_m m) = prod_m exp(m / b_m)^(a_m) with c_m = a_m / b_m in
    lowest terms -- one positive generator per (monomial, denominator), integer (possibly negative) powers.  Canonical for
    integer coefficients, so exp(h_k - h_max) / sum_j exp(h_j - h_max) and exp(h_k) / sum_j exp(h_j) have the same normal
    form; exp(m/2)^2 and exp(m) stay distinct generators (incomplete, never unsound)."""
    if not p:
        return {(): Q(1)}
    out = {(): Q(1)}
    for m, c in sorted(p.items()):
        c = Q(c)
        base = {m: Q(1, c.denominator)}
        out = pmul(out, pgen(gen("exp", pkey(base), data=base, sign="+"), int(c.numerator)))
    return out


def nf(n):
    memo = _NFMEMO
    stack = [n]
    while stack:
        m = stack[-1]
        if m.id in memo:
            stack.pop()
            continue
        o = m.op
        if o == "c":
            memo[m.id] = pconst(m.args[0])
            stack.pop()
            continue
        if o == "v":
            memo[m.id] = pgen(gen("v", m.args[0], data=m.args[0], sign=VARSIGN.get(m.args[0])))
            stack.pop()
            continue
        todo = [a for a in m.args if isinstance(a, dag.Node) and a.id not in memo]
        if todo:
            stack.extend(todo)
            continue
        stack.pop()
        a = [memo[x.id] for x in m.args if isinstance(x, dag.Node)]
        if o == "+":
            r = padd(a[0], a[1])
        elif o == "*":
            r = pmul(a[0], a[1])
        elif o == "inv":
            r = pinv(a[0])
        elif o == "log":
            r = plog(a[0])
        elif o == "sqrt":
            r = psqrt(a[0])
        elif o == "exp":
            r = pexp(a[0])
        elif o == "def":
            r = pdef(a[0], m.args[1])
        else:
            raise ValueError(o)
        memo[m.id] = r
    return memo[n.id]


_DEFINED = ("F", "sqrt", "sqrtc")


def iszero(p, budget=None):
    """Exact zero test (see module docstring)."""
    while True:
        if not p:
            return True
        g = -1
        for m in p:
            for gg, _ in m:
                if gg > g and GENS[gg].kind in _DEFINED:
                    g = gg
        if g < 0:
            return False
        G = GENS[g]
        emin = 0
        for m in p:
            for gg, e in m:
                if gg == g and e < emin:
                    emin = e
        byexp = {}
        for m, c in p.items():
            e = 0
            rest = []
            for gg, x in m:
                if gg == g:
                    e = x
                else:
                    rest.append((gg, x))
            byexp.setdefault(e - emin, {})[tuple(rest)] = c
        if G.kind == "F":
            q = G.data
            out = {}
            pw = {0: {(): Q(1)}}
            for e in sorted(byexp):
                if e not in pw:
                    k = max(k for k in pw if k <= e)
                    cur = pw[k]
                    for _ in range(e - k):
                        cur = pmul(cur, q)
                    pw[e] = cur
                out = padd(out, pmul(byexp[e], pw[e]))
            p = out
            continue
        a = G.data if G.kind == "sqrt" else pconst(G.data)
        A, B = {}, {}
        pw = {0: {(): Q(1)}}
        for e in sorted(byexp):
            h = e // 2
            if h not in pw:
                k = max(k for k in pw if k <= h)
                cur = pw[k]
                for _ in range(h - k):
                    cur = pmul(cur, a)
                pw[h] = cur
            t = pmul(byexp[e], pw[h])
            if e % 2:
                B = padd(B, t)
            else:
                A = padd(A, t)
        return iszero(A) and iszero(B)


def maybe_zero(p):
    """cheap numeric pre-filter: False means p is certainly not identically zero
    (it is non-zero at a reference point, beyond rounding)."""
    if not p:
        return True
    for i in (0, 1):
        tot = 0.0
        mag = 0.0
        try:
            for m, c in p.items():
                t = float(c)
                for g, e in m:
                    t *= genval(g)[i] ** e
                tot += t
                mag += abs(t)
        except (OverflowError, ZeroDivisionError):
            return True
        if tot != tot or mag == float("inf"):
            return True
        if abs(tot) > 1e-7 * mag:
            return False
    return True


def clear_F(p):
    """p * M = N with M a product of powers of composite generators F (and their substitution),
    N free of F generators.  Returns (N, sign of M as +1/-1) or None when a needed sign is unknown."""
    sgn = 1
    while True:
        g = -1
        for m in p:
            for gg, _ in m:
                if gg > g and GENS[gg].kind == "F":
                    g = gg
        if g < 0:
            # clear negative exponents of the remaining (free) generators
            mins = {}
            for m in p:
                for gg, e in m:
                    if e < 0 and e < mins.get(gg, 0):
                        mins[gg] = e
            if not mins:
                return p, sgn
            for gg, e in mins.items():
                sg = GENS[gg].sign
                if e % 2:
                    if sg == "-":
                        sgn = -sgn
                    elif sg != "+":
                        return None
                elif sg not in ("+", "-"):
                    return None
            mult = tuple(sorted((gg, -e) for gg, e in mins.items()))
            return {mmul(m, mult): c for m, c in p.items()}, sgn
        G = GENS[g]
        emin = 0
        for m in p:
            for gg, e in m:
                if gg == g and e < emin:
                    emin = e
        if emin % 2:
            if G.sign == "-":
                sgn = -sgn
            elif G.sign != "+":
                return None
        byexp = {}
        for m, c in p.items():
            e = 0
            rest = []
            for gg, x in m:
                if gg == g:
                    e = x
                else:
                    rest.append((gg, x))
            byexp.setdefault(e - emin, {})[tuple(rest)] = c
        out = {}
        pw = {0: {(): Q(1)}}
        for e in sorted(byexp):
            if e not in pw:
                k = max(k for k in pw if k <= e)
                cur = pw[k]
                for _ in range(e - k):
                    cur = pmul(cur, G.data)
                pw[e] = cur
            out = padd(out, pmul(byexp[e], pw[e]))
        p = out
        if len(p) > 20000:
            return None


def equal(n1, n2):
    return iszero(padd(nf(n1), pscale(nf(n2), -1)))


def is_zero_node(n):
    return iszero(nf(n))


def gens_of(p, acc=None):
    """All generators p depends on, transitively (through F / sqrt / log / exp definitions)."""
    acc = set() if acc is None else acc
    stack = [g for m in p for g, _ in m]
    while stack:
        g = stack.pop()
        if g in acc:
            continue
        acc.add(g)
        G = GENS[g]
        if G.kind in ("F", "sqrt", "log", "exp"):
            stack.extend(gg for m in G.data for gg, _ in m)
    return acc


def depends_on_var(n, name):
    """Exact structural dependence of the *fully cleared* normal form on a variable:
    returns False only if no generator reachable from nf(n) is that variable."""
    p = nf(n)
    k = _GKEY.get(("v", name))
    if k is None:
        return False
    return k in gens_of(p)
