"""Mechanical de-cythonisation of gemclus/tree/_utils.pyx, on every run, into a plain-Python module.

What the extraction DROPS (and nothing else): `cimport` lines and `np.import_array()`; `cdef`/`cpdef`
*declarations* without a value; the C types in signatures and typed assignments (np.float64_t, np.int64_t,
Py_ssize_t, bint, int, Split, np.ndarray[...], memoryview suffixes [:], [:, :]); `cdef class` becomes `class`
(declared attributes become ordinary instance attributes); return annotations.  Every executable token is kept.
Consequently the extracted text has Python semantics where Cython had C semantics: unbounded integers instead
of int64 wrap-around, no int -> float64 coercion on assignment to typed variables / memoryviews, no bint
truncation.  Division: Cython 3 compiles `1 / n_leaf` as true division (cdivision is off), as Python does.
"""
import os
import re
import types

CTYPES = r"(?:np\.float64_t|np\.int64_t|Py_ssize_t|bint|int|Split|np\.ndarray\[[^\]]*\])(?:\[[:,\s]*\])?"


def decythonise(src):
    out = []
    lines = src.split("\n")
    i = 0
    while i < len(lines):
        ln = lines[i]
        s = ln.strip()
        ind = ln[:len(ln) - len(ln.lstrip())]
        if s.startswith("cimport") or s == "np.import_array()":
            i += 1
            continue
        m = re.match(r"cdef class (\w+):", s)
        if m:
            out.append(f"{ind}class {m.group(1)}:")
            i += 1
            continue
        if re.match(r"cdef readonly ", s):
            i += 1
            continue
        m = re.match(r"(cdef|cpdef|def)\s+(?:" + CTYPES + r"\s+)?(\w+)\((.*)$", s)
        if m and ((s.startswith("cdef") and "(" in s and "=" not in s.split("(")[0]) or s.startswith("cpdef") or s.startswith("def")):
            hdr = s
            while not re.search(r"\)\s*(->\s*\w+\s*)?:\s*$", hdr):
                i += 1
                hdr += " " + lines[i].strip()
            name = m.group(2)
            params = hdr[hdr.index("(") + 1:hdr.rindex(")")]
            depth, cur, parts = 0, "", []
            for ch in params:
                if ch in "[(":
                    depth += 1
                if ch in "])":
                    depth -= 1
                if ch == "," and depth == 0:
                    parts.append(cur)
                    cur = ""
                else:
                    cur += ch
            parts.append(cur)
            ps = []
            for p in parts:
                p = p.strip()
                if not p:
                    continue
                default = None
                flat = re.sub(r"\[[^\]]*\]", "", p)
                if "=" in flat:
                    default = flat.rsplit("=", 1)[1].strip()
                    p = flat.rsplit("=", 1)[0]
                pname = re.findall(r"[A-Za-z_]\w*", p)[-1]
                ps.append(pname + ("=" + default if default else ""))
            out.append(f"{ind}def {name}({', '.join(ps)}):")
            i += 1
            continue
        if s.startswith("cdef "):
            body = s[5:]
            m2 = re.match(CTYPES + r"\s+(.*)$", body)
            rest = m2.group(1) if m2 else body
            if "=" in rest and not rest.strip().startswith("="):
                out.append(ind + rest)
            i += 1
            continue
        out.append(ln)
        i += 1
    return "\n".join(out)


def pyx_path():
    import gemclus.tree
    return os.path.join(os.path.dirname(gemclus.tree.__file__), "_utils.pyx")


def extracted_source():
    return decythonise(open(pyx_path()).read())


def load(np_proxy=None, name="gemclus_tree_utils_extracted"):
    """compile the extracted source into a fresh module (nothing is written to disk)."""
    src = extracted_source()
    mod = types.ModuleType(name)
    mod.__dict__["__file__"] = pyx_path() + " (de-cythonised in memory)"
    import warnings
    with warnings.catch_warnings():
        warnings.simplefilter("ignore", SyntaxWarning)      # docstrings of the .pyx contain "\s"
        code = compile(src, "_utils.pyx[extracted]", "exec")
    exec(code, mod.__dict__)
    if np_proxy is not None:
        mod.np = np_proxy
    return mod, src
