"""Obligation ledger, evidence files, known findings, VIOLATION lines, replay files."""
import json
import os
import sys
import time

ROOT = os.path.dirname(os.path.dirname(os.path.abspath(__file__)))
OUT = os.environ.get("VERIF_OUT") or ROOT      # evidence / replays directory (scratch runs only)

PROVED, REFUTED, UNDECIDED = "PROVED", "REFUTED", "UNDECIDED"

STD_ASSUMPTIONS = {
    "A1": "A1: P@S results hold for all real-valued inputs at the enumerated shapes only; no induction over n, K, d, h",
    "A2": "A2: machine arithmetic treated as mathematical (reals for floats, unbounded integers)",
    "A3": "A3: a concrete float met by the symbolic run denotes the simplest rational within relative 2^-50 of it",
    "A4": "A4: Python-subset semantics of the VC generator and NumPy indexing axioms; NumPy broadcasting/reductions behave on object arrays as on float arrays",
    "A8": "A8: z3 / the normal-form prover are correct (every z3 'unsat' used as a proof or to prune a region is re-submitted to cvc5 and, "
          "failing that, to the separately built z3 4.8; counts under coverage.solver_cross_check, a disagreement leaves the obligation undecided)",
    "A9": "A9: the specification functions in /verif/specs render the property statement faithfully",
}


def jsonable(x):
    from fractions import Fraction
    import numpy as np
    if isinstance(x, dict):
        return {str(k): jsonable(v) for k, v in x.items()}
    if isinstance(x, (list, tuple, set, frozenset)):
        return [jsonable(v) for v in x]
    if isinstance(x, Fraction):
        return float(x)
    if isinstance(x, np.ndarray):
        return jsonable(x.tolist())
    if isinstance(x, (np.integer,)):
        return int(x)
    if isinstance(x, (np.floating,)):
        return float(x)
    if isinstance(x, (np.bool_,)):
        return bool(x)
    if isinstance(x, (str, int, float, bool)) or x is None:
        return x
    return repr(x)


class Ob:
    """one named obligation. tier: 'P' (counted as proved: P-inf or P@S) or 'B' (bounded, never counted)."""
    __slots__ = ("name", "status", "backend", "tier", "detail", "time", "fn")

    def __init__(self, name, status, backend="", tier="P", detail=None, time_s=0.0, fn=None):
        self.name = name
        self.status = status
        self.backend = backend
        self.tier = tier
        self.detail = detail or {}
        self.time = time_s
        self.fn = fn

    def to_json(self):
        return {"name": self.name, "status": self.status, "backend": self.backend, "tier": self.tier,
                "time_s": round(self.time, 4), "fn": self.fn, "detail": jsonable(self.detail)}


class Ledger:
    def __init__(self, prop, tier, seed):
        self.prop = prop
        self.tier = tier
        self.seed = seed
        self.obs = []
        self.t0 = time.time()
        self.functions = set()
        self.assumptions = []
        self.notes = []
        self.samples = []
        self.extra = {}

    def add(self, ob):
        self.obs.append(ob)
        if ob.fn:
            self.functions.add(ob.fn)

    def extend(self, obs):
        for o in obs:
            self.add(o)

    def assume(self, *texts):
        for t in texts:
            t = STD_ASSUMPTIONS.get(t, t)
            if t not in self.assumptions:
                self.assumptions.append(t)

    # ---- known findings
    @staticmethod
    def load_findings():
        p = os.path.join(ROOT, "known_findings.json")
        if not os.path.exists(p):
            return []
        return json.load(open(p)).get("findings", [])

    def finish(self, level="proof", checker_cmd=None, trusted_base=None, explanation=None):
        """write evidence, print KNOWN-FINDING / VIOLATION lines, return exit code."""
        findings = [f for f in self.load_findings() if f.get("property") == self.prop and f.get("status") == "open"]
        failing = [o for o in self.obs if o.status == REFUTED]
        violations = []
        known_hit = {}
        for o in failing:
            match = None
            for f in findings:
                if _match(f, o):
                    match = f
                    break
            if match is not None:
                known_hit.setdefault(match["id"], (match, []))[1].append(o)
            else:
                violations.append(o)
        for fid, (f, obs) in known_hit.items():
            print(f"KNOWN-FINDING: property={self.prop} {f['what']} [{fid}; {len(obs)} obligation(s), e.g. {obs[0].name}]")
        rdir = os.path.join(OUT, "replays", self.prop)
        for o in violations:
            os.makedirs(rdir, exist_ok=True)
            safe = "".join(ch if ch.isalnum() or ch in "-_.," else "_" for ch in o.name)[:150]
            path = os.path.join(rdir, safe + ".json")
            replayed = bool(o.detail.get("replayed"))
            with open(path, "w") as fh:
                json.dump({"property": self.prop, "obligation": o.name, "function": o.fn, "backend": o.backend,
                           "tier": o.tier, "replayed_on_real_code": replayed, "detail": jsonable(o.detail)}, fh, indent=1)
            tail = "" if replayed else " no-failing-input-found"
            print(f"VIOLATION property={self.prop} replay={os.path.relpath(path, OUT)}{tail}")
        # vacuity guard: every obligation of the committed reference list (expected/<id>.<tier>.json, produced on
        # the unchanged tree) must have been generated again; a missing one is reported, never counted as proved
        exp_path = os.path.join(ROOT, "expected", f"{self.prop}.{self.tier}.json")
        missing = []
        if os.environ.get("VERIF_WRITE_EXPECTED"):
            os.makedirs(os.path.dirname(exp_path), exist_ok=True)
            with open(exp_path, "w") as fh:
                json.dump(sorted({o.name for o in self.obs if o.tier in ("P", "B") and o.backend not in ("timeout", "not-generated")}), fh, indent=0)
        elif os.path.exists(exp_path):
            have = {o.name for o in self.obs}
            missing = [n for n in json.load(open(exp_path)) if n not in have]
            for n in missing:
                self.obs.append(Ob(n, UNDECIDED, "not-generated", "P", {"why": "obligation of the reference list was not generated on this run "
                                                                               "(the code it is anchored in changed shape, or the contract could not be instantiated)"}))
        P = [o for o in self.obs if o.tier == "P"]
        Bt = [o for o in self.obs if o.tier == "B"]
        proved = [o for o in P if o.status == PROVED]
        undec = [o for o in self.obs if o.status == UNDECIDED]
        known_failed = sum(len(v[1]) for v in known_hit.values())
        known_failed_P = sum(1 for v in known_hit.values() for o in v[1] if o.tier == "P")
        by_backend = {}
        for o in proved:
            by_backend[o.backend] = by_backend.get(o.backend, 0) + 1
        cov = {
            # obligations claimed as proved: P-tier obligations minus those matched by an OPEN known finding
            # (reported separately below; they are failed, not discharged)
            "obligations": len(P) - known_failed_P,
            "discharged": len(proved),
            "obligations_generated": len(P),
            "checker_cmd": checker_cmd or f"bin/check {self.prop} --tier {self.tier}",
            "trusted_base": trusted_base or [],
            "functions_under_contract": sorted(self.functions),
            "discharged_by_backend": by_backend,
            "solver_time_s": round(sum(o.time for o in self.obs), 3),
            "undecided": [o.name for o in undec][:50],
            "undecided_count": len(undec),
            "known_finding_obligations": known_failed,
            "missing_expected_obligations": len(missing),
            "bounded_checks": len(Bt),
            "bounded_checks_passed": len([o for o in Bt if o.status == PROVED]),
            "evaluations": len(self.obs),
            "distinct_nontrivial": len({o.name for o in self.obs}),
            "rule": "one evaluation per named obligation (contract clause x shape x structure); all are distinct by name",
            "samples": self.samples[:8] if self.samples else [o.to_json() for o in self.obs[:3]],
            "notes": self.notes,
        }
        from . import xcheck
        xc = xcheck.summarise(self.obs)
        for o in self.obs:
            st = (o.detail or {}).get("stats") or {}
            for k, v in st.items():
                if k == "xcheck_time":
                    xc["path_pruning_time_s"] = round(xc.get("path_pruning_time_s", 0.0) + v, 2)
                elif k in ("xcheck_skipped", "xcheck_disabled"):
                    xc["path pruning: not asked (time budget)"] = xc.get("path pruning: not asked (time budget)", 0) + v
                elif k.startswith("xcheck_"):
                    xc["asked"] += v
                    kk = {"xcheck_agree": "agree (path pruning)", "xcheck_open": "open", "xcheck_disagree": "disagree"}.get(k, k)
                    xc[kk] = xc.get(kk, 0) + v
        xc["enabled"] = xcheck.ENABLED
        xc["solvers"] = "cvc5 (/usr/bin/cvc5), then z3 4.8 (/usr/bin/z3), on the SMT-LIB dump of the assertion stack z3 5.1 found unsat"
        cov["solver_cross_check"] = xc
        if explanation:
            cov["explanation"] = explanation
        cov.update(self.extra)
        ev = {
            "property_id": self.prop,
            "tier": self.tier,
            "seed": int(self.seed),
            "level": level,
            "coverage": jsonable(cov),
            "assumptions": self.assumptions,
            "wall_s": round(time.time() - self.t0, 2),
            "violations": len(violations),
        }
        os.makedirs(os.path.join(OUT, "evidence"), exist_ok=True)
        with open(os.path.join(OUT, "evidence", f"{self.prop}.json"), "w") as fh:
            json.dump(ev, fh, indent=1)
        with open(os.path.join(OUT, "evidence", f"{self.prop}.obligations.json"), "w") as fh:
            json.dump([o.to_json() for o in self.obs], fh, indent=0)
        print(f"[{self.prop}] tier={self.tier} P-obligations={len(P)} discharged={len(proved)} "
              f"undecided={len(undec)} known-finding={known_failed} bounded={len(Bt)} "
              f"violations={len(violations)} wall={ev['wall_s']}s")
        if not self.obs:
            print(f"[{self.prop}] internal error: zero obligations generated", file=sys.stderr)
            return 3
        if violations:
            return 1
        undec_P = [o for o in undec if o.tier == "P"]
        if undec_P:
            # neither held nor violated: an obligation of a proof-level claim was left open (exit 2, no VIOLATION line)
            for o in undec_P[:20]:
                print(f"UNDECIDED property={self.prop} obligation={o.name!r} backend={o.backend}", file=sys.stderr)
            return 2
        return 0


def _match(f, o):
    """a finding matches an obligation by name pattern (fnmatch) and, when given, by function."""
    import re
    pats = f.get("obligations", [])
    # '*' is the only wildcard; everything else is literal (obligation names contain brackets)
    if not any(re.fullmatch(".*".join(re.escape(x) for x in p.split("*")), o.name) for p in pats):
        return False
    fps = f.get("fingerprints") or {}
    fp = fps.get(o.name)
    if fp is not None:
        # residual fingerprint: a further change to the same function changes the residual and is a new violation
        got = o.detail.get("fingerprint")
        if got is None or got != fp:
            return False
    return True
