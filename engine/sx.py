"""SX engine: run the real GemClus numeric functions on exact symbolic reals.

Sx        symbolic scalar stored in NumPy object arrays (wraps a dag.Node)
Ctx       precondition, path condition, fork engine (replay-prefix DFS; decisions by entailment)
explore   enumerate all feasible paths of a function under a precondition
NPProxy   stand-in for the module global `np` of a module under verification (allocators only)
"""
from fractions import Fraction as Q
import itertools
import random
import time

import numpy as np
import z3

from . import dag, nf, smt

S_ALL = frozenset((-1, 0, 1))
RELSET = {"+": frozenset((1,)), "-": frozenset((-1,)), "0": frozenset((0,)),
          "+0": frozenset((0, 1)), "-0": frozenset((-1, 0)), "!0": frozenset((-1, 1))}
SETREL = {v: k for k, v in RELSET.items()}
OPS = {"gt": lambda s: s > 0, "lt": lambda s: s < 0, "ge": lambda s: s >= 0,
       "le": lambda s: s <= 0, "eq": lambda s: s == 0, "ne": lambda s: s != 0}
_PS = {"+": frozenset((1,)), "-": frozenset((-1,)), "0": frozenset((0,)),
       "+0": frozenset((0, 1)), "-0": frozenset((-1, 0)), None: S_ALL}


class PathLimit(Exception):
    pass


class HookError(Exception):
    """Raised when an exception occurred inside a comparison hook (NumPy masks those)."""


class TokenReached(Exception):
    """A non-finite IEEE token (division by an identically zero expression) was compared or output."""


CTX = None


class B:
    """Boolean result of a decided comparison (usable in NumPy object loops)."""
    __slots__ = ("val",)

    def __init__(self, val):
        self.val = bool(val)

    def __bool__(self):
        return self.val

    def __and__(self, o):
        return B(self.val and bool(o))

    __rand__ = __and__

    def __or__(self, o):
        return B(self.val or bool(o))

    __ror__ = __or__

    def __invert__(self):
        return B(not self.val)

    def __mul__(self, o):
        return o if self.val else (Sx(dag.ZERO) if isinstance(o, Sx) else o * 0)

    __rmul__ = __mul__

    def __eq__(self, o):
        return self.val == bool(o)

    def __hash__(self):
        return hash(self.val)

    def __repr__(self):
        return f"B({self.val})"


TOK = dag.mk("tok")


def lift(x):
    if isinstance(x, Sx):
        return x.n
    if isinstance(x, B):
        return dag.ONE if x.val else dag.ZERO
    if isinstance(x, (bool, np.bool_)):
        return dag.ONE if x else dag.ZERO
    if isinstance(x, (int, np.integer)):
        return dag.const(int(x))
    if isinstance(x, (float, np.floating)):
        return dag.const(dag.rat(x))
    if isinstance(x, Q):
        return dag.const(x)
    if isinstance(x, np.ndarray) and x.ndim == 0:
        return lift(x.item())
    if isinstance(x, dag.Node):
        return x
    raise TypeError(f"cannot lift {type(x)} into the symbolic domain")


def _tok(*ns):
    return any(n is TOK for n in ns)


class Sx:
    __slots__ = ("n",)

    def __init__(self, n):
        self.n = n

    # --- arithmetic
    def _b(self, o, f):
        if isinstance(o, np.ndarray) and o.ndim > 0:
            return NotImplemented
        try:
            on = lift(o)
        except TypeError:
            return NotImplemented
        if _tok(self.n, on):
            return Sx(TOK)
        return Sx(f(self.n, on))

    def __add__(self, o):
        return self._b(o, dag.add)

    __radd__ = __add__

    def __sub__(self, o):
        return self._b(o, dag.sub)

    def __rsub__(self, o):
        return self._b(o, lambda a, b: dag.sub(b, a))

    def __mul__(self, o):
        return self._b(o, dag.mul)

    __rmul__ = __mul__

    def __truediv__(self, o):
        return self._b(o, _div)

    def __rtruediv__(self, o):
        return self._b(o, lambda a, b: _div(b, a))

    def __pow__(self, o):
        if isinstance(o, Sx):
            if o.n.op != "c":
                raise TypeError("symbolic exponent")
            o = o.n.args[0]
        if isinstance(o, (float, np.floating)) and float(o) == 0.5:
            return self.sqrt()
        if float(o) != int(o):
            raise TypeError("non-integer power of a symbolic value")
        o = int(o)
        if self.n is TOK:
            return Sx(TOK)
        r = dag.ONE
        for _ in range(abs(o)):
            r = dag.mul(r, self.n)
        return Sx(r if o >= 0 else _div(dag.ONE, r))

    def __neg__(self):
        return Sx(TOK) if self.n is TOK else Sx(dag.neg(self.n))

    def __pos__(self):
        return self

    def __abs__(self):
        return self if CTX.compare(self.n, "ge") else -self

    # --- comparisons
    def _c(self, o, op):
        if isinstance(o, np.ndarray) and o.ndim > 0:
            return NotImplemented
        if isinstance(o, (float, np.floating)) and (o == float("inf") or o == float("-inf")):
            # comparison of a (finite) symbolic real with +-infinity
            return B(OPS[op](-1 if o > 0 else 1))
        try:
            on = lift(o)
        except TypeError:
            return NotImplemented
        return B(CTX.compare(dag.sub(self.n, on), op) if not _tok(self.n, on) else CTX.token_compare())

    def __gt__(self, o):
        return self._c(o, "gt")

    def __lt__(self, o):
        return self._c(o, "lt")

    def __ge__(self, o):
        return self._c(o, "ge")

    def __le__(self, o):
        return self._c(o, "le")

    def __eq__(self, o):
        return self._c(o, "eq")

    def __ne__(self, o):
        return self._c(o, "ne")

    __hash__ = None

    def __bool__(self):
        return bool(CTX.compare(self.n, "ne"))

    # --- functions NumPy calls on object elements
    def log(self):
        if self.n is TOK:
            return Sx(TOK)
        CTX.safety("log", self.n)
        return Sx(dag.atom("log", self.n))

    def __float__(self):
        # only exact constants convert (structures with concrete zeros meet float arrays in the native replay)
        if self.n is not TOK and self.n.op == "c":
            return float(self.n.args[0])
        raise TypeError("float() of a symbolic value")

    def sqrt(self):
        n = self.n
        if n is TOK:
            return Sx(TOK)
        if n.op == "*" and n.args[0] is n.args[1]:
            return abs(Sx(n.args[0]))
        if CTX.safety("sqrt", n) == "zero":
            return Sx(dag.ZERO)
        return Sx(dag.atom("sqrt", n))

    def exp(self):
        return Sx(TOK) if self.n is TOK else Sx(dag.atom("exp", self.n))

    def conjugate(self):
        return self

    conj = conjugate

    @property
    def real(self):
        return self

    @property
    def imag(self):
        return Sx(dag.ZERO)

    # --- the part of the NumPy scalar API the code uses on elements
    def item(self):
        return self

    def copy(self):
        return self

    def squeeze(self, *a, **k):
        return self

    def reshape(self, *shape):
        a = np.empty((), dtype=object)
        a[()] = self
        return a.reshape(*shape)

    shape = ()
    ndim = 0

    def __format__(self, spec):
        # the token stands for the exact value; a non-empty format spec is logged so that a contract can decide whether
        # that rendering of a double is exact (round-trips) or lossy
        if spec:
            FORMAT_LOG.append(spec)
        return f"Sx#{self.n.id}"

    def __str__(self):
        return f"Sx#{self.n.id}"

    def __repr__(self):
        if self.n.op == "c":
            return f"Sx({self.n.args[0]})"
        if self.n.op == "v":
            return f"Sx({self.n.args[0]})"
        return f"Sx#{self.n.id}"


FORMAT_LOG = []


def _div(a, b):
    iv = _safe_inv(b)
    return TOK if iv is TOK else dag.mul(a, iv)


def _safe_inv(b):
    """inverse with the division-safety bookkeeping of C17: a denominator that is identically
    zero yields the IEEE token; one that may be zero under pre and PC is a safety failure."""
    if b is TOK:
        return TOK
    if b.op == "c":
        if b.args[0] == 0:
            CTX.note_token("division by the constant 0")
            return TOK
        return dag.inv(b)
    st = CTX.safety("inv", b)
    if st == "zero":
        return TOK
    return dag.inv(b)


def canon(p):
    """sign-normalised key of a polynomial and the flip flag."""
    lead = p[min(p)]
    if lead == 1:
        return nf.pkey(p), False
    q = {m: c / abs(lead) for m, c in p.items()}
    if lead < 0:
        q = {m: -c for m, c in q.items()}
    return nf.pkey(q), lead < 0


def flipset(S):
    return frozenset(-s for s in S)


class Ctx:
    def __init__(self, z3_timeout_ms=1500, max_paths=20000, boundaries=False, check_safety=True, seed=0):
        self.pre = []                 # (node, relset)
        self.var_range = {}           # name -> (lo, hi) for sampling
        self.z3_timeout_ms = z3_timeout_ms
        self.z3_rlimit = 3000000
        self.deadline = None
        self.max_paths = max_paths
        self.boundaries = boundaries
        self.check_safety = check_safety
        self.rng = random.Random(seed)
        self.zcache = {}              # (pcsig, key, sign) -> bool/None
        self.stats = {"z3_queries": 0, "z3_unknown": 0, "forks": 0, "z3_time": 0.0}
        self.xcheck_budget_s = 20.0
        self.skipped_boundaries = 0
        self._ssmemo = {}
        self.building = True
        self.pool_size = 3000
        self.samplers = []            # callables (RandomState, n) -> {var name: array} overriding the box
        self.pool_env = None
        self._reset_path([])
        global CTX
        CTX = self

    # ---- declarations
    def var(self, name, sign=None, lo=None, hi=None):
        if sign is not None:
            nf.VARSIGN[name] = sign
        if lo is None:
            lo = 0.2 if sign in ("+", "+0") else -1.5
        if hi is None:
            hi = -0.2 if sign in ("-", "-0") else 1.5
        self.var_range[name] = (lo, hi)
        n = dag.var(name)
        if sign is not None:
            self.pre.append((n, RELSET[sign]))
        return Sx(n)

    def assume(self, x, rel):
        """precondition: x rel 0, rel in '+','-','0','+0','-0','!0'."""
        self.pre.append((lift(x), RELSET[rel]))

    def assume_gt(self, a, b):
        self.assume(Sx(dag.sub(lift(a), lift(b))), "+")

    def assume_ge(self, a, b):
        self.assume(Sx(dag.sub(lift(a), lift(b))), "+0")

    # ---- per path
    def _reset_path(self, prefix):
        self.prefix = list(prefix)
        self.frozen = False
        self.trace = []
        self.pc = []
        self.facts = {}
        self.pending = []
        self.boundary = False
        self.safety_log = []
        self.tokens = []
        self.hook_exc = None
        self.unsure = 0
        self.solver = None
        self.zmap = None
        self._nside = 0
        self.pcsig = ()
        self._ssmemo = {}
        self.nodefacts = {}
        self.alive = None if self.pool_env is None else self.pool_alive0.copy()
        for node, S in self.pre:
            self._add_fact(node, S)

    def _add_fact(self, node, S):
        self.nodefacts[node.id] = self.nodefacts.get(node.id, S_ALL) & S
        p = nf.nf(node)
        if not p:
            return
        key, flip = canon(p)
        S0 = S
        if flip:
            S = flipset(S)
        cur = self.facts.get(key, S_ALL) & S
        self.facts[key] = cur
        self._derived_fact(p, S0)

    def _derived_fact(self, p, S):
        """p = c * m0 * q: when c * m0 has a strict known sign, the fact transfers to q."""
        if len(p) < 2:
            return
        c, m0, q = nf.normalise(p)
        if not m0 and c == 1:
            return
        sm = nf.smul("+" if c > 0 else "-", nf.msign(m0))
        if sm not in ("+", "-"):
            return
        if sm == "-":
            S = flipset(S)
        key, flip = canon(q)
        if flip:
            S = flipset(S)
        self.facts[key] = self.facts.get(key, S_ALL) & S

    def _zterm(self, node):
        """z3 term t and sign factor sg with sign(node) == sg * sign(t): the numerator polynomial
        of the normal form when all denominators have a known sign, else the DAG abstraction."""
        r = self._ztcache.get(node.id)
        if r is None:
            r = None
            try:
                c = nf.clear_F(nf.nf(node))
                if c is not None and len(c[0]) <= 4000:
                    r = (self.pmap.poly(c[0]), c[1])
            except (ValueError, ZeroDivisionError):
                r = None
            if r is None:
                r = (self.zmap.term(node), 1)
            self._ztcache[node.id] = r
        return r

    def _zrel(self, node, S):
        t, sg = self._zterm(node)
        if sg < 0:
            S = flipset(S)
        return smt.REL[SETREL[S]](t)

    def _solver(self):
        if self.solver is None:
            self.solver = z3.Solver()
            # the resource limit is the (deterministic) budget; the wall-clock limit is only a backstop ten times wider, so that a
            # verdict does not flip when the 16 cores are busy
            self.solver.set("timeout", 10 * self.z3_timeout_ms)
            self.solver.set("rlimit", self.z3_rlimit)       # deterministic budget: nlsat does not always honour the wall-clock timeout
            self.zmap = smt.Z3Map()
            self.pmap = smt.PolyMap()
            self._ztcache = {}
            self._nside = 0
            self._npside = 0
            for node, S in self.pre:
                self.solver.add(self._zrel(node, S))
            for node, S in self.pc:
                self.solver.add(self._zrel(node, S))
        return self.solver

    def _flush_side(self):
        side = self.zmap.side
        while self._nside < len(side):
            self.solver.add(side[self._nside])
            self._nside += 1
        side = self.pmap.side
        while self._npside < len(side):
            self.solver.add(side[self._npside])
            self._npside += 1

    def _feasible(self, node, key, s, s_norm):
        ck = (self.pcsig, key, s_norm)
        r = self.zcache.get(ck, "?")
        if r != "?":
            return r
        sol = self._solver()
        t, sg = self._zterm(node)
        self._flush_side()
        sol.push()
        sol.add({1: t > 0, -1: t < 0, 0: t == 0}[s * sg])
        t0 = time.time()
        res = sol.check()
        self.stats["z3_time"] += time.time() - t0
        self.stats["z3_queries"] += 1
        if res == z3.unsat:
            # an infeasibility verdict prunes a region: second opinion of an independent solver (assumption A8);
            # a disagreement keeps the region (explored as 'unsure'), it never prunes and never alarms
            from . import xcheck
            if self.stats.get("xcheck_time", 0.0) < self.xcheck_budget_s:
                t1 = time.time()
                xc = xcheck.second_opinion(sol, timeout_s=2)
                self.stats["xcheck_time"] = self.stats.get("xcheck_time", 0.0) + time.time() - t1
            else:
                xc = "skipped"          # per-contract time budget of the second opinion exhausted (reported, z3 5.1 stands alone)
            self.stats["xcheck_" + xc.split(":")[0].lower()] = self.stats.get("xcheck_" + xc.split(":")[0].lower(), 0) + 1
            if xc.startswith("DISAGREE"):
                res = z3.unknown
        sol.pop()
        if res == z3.unknown:
            # second opinion: fresh non-incremental nlsat solver with a longer budget
            s2 = z3.SolverFor("QF_NRA")
            s2.set("timeout", 40 * self.z3_timeout_ms)
            s2.set("rlimit", 4 * self.z3_rlimit)
            for a in sol.assertions():
                s2.add(a)
            s2.add({1: t > 0, -1: t < 0, 0: t == 0}[s * sg])
            t0 = time.time()
            res = s2.check()
            self.stats["z3_time"] += time.time() - t0
            self.stats["z3_queries"] += 1
        if res == z3.sat:
            r = True
        elif res == z3.unsat:
            r = False
        else:
            r = None
            self.stats["z3_unknown"] += 1
        self.zcache[ck] = r
        return r

    # ---- sample pool: a sign seen at a pool point of pre and PC is feasible for certain
    def _pool_init(self):
        n = self.pool_size
        rs = np.random.RandomState(self.rng.randrange(2 ** 31))
        self.pool_env = {nm: rs.uniform(lo, hi, size=n) for nm, (lo, hi) in sorted(self.var_range.items())}
        for f in self.samplers:
            self.pool_env.update(f(rs, n))
        self.pool_memo = {}
        alive = np.ones(n, dtype=bool)
        for node, S in self.pre:
            alive &= self._mask(node, S)
        self.pool_alive0 = alive

    def _vals(self, node):
        v = dag.fev_vec(node, self.pool_env, self.pool_memo)
        if np.ndim(v) == 0:
            v = np.full(self.pool_size, float(v))
        return v

    def _mask(self, node, S):
        v = self._vals(node)
        tol = 1e-12
        with np.errstate(all="ignore"):
            m = np.zeros(len(v), dtype=bool)
            if 1 in S:
                m |= v > tol
            if -1 in S:
                m |= v < -tol
            if 0 in S:
                m |= np.abs(v) <= tol
            m &= np.isfinite(v)
        return m

    def _pool_has(self, node, s):
        if self.pool_env is None:
            self._pool_init()
            self.alive = self.pool_alive0.copy()
            for n2, S2 in self.pc:
                self.alive &= self._mask(n2, S2)
        if not self.alive.any():
            return False
        v = self._vals(node)[self.alive]
        with np.errstate(all="ignore"):
            scale = 1e-9 * (1.0 + np.nanmax(np.abs(v[np.isfinite(v)]))) if np.isfinite(v).any() else 1.0
            return bool(np.any(v > scale)) if s > 0 else bool(np.any(v < -scale))

    def signs(self, node, use_z3=True):
        """possible signs of node under pre and PC (superset of the truth)."""
        if node.op == "c":
            c = node.args[0]
            return frozenset(((c > 0) - (c < 0),))
        p = nf.nf(node)
        if not p or (nf.maybe_zero(p) and nf.iszero(p)):
            return frozenset((0,))
        S = _PS[nf.poly_sign(p)]
        if len(S) > 1 and len(p) == 1:
            S = S & self._mono_signs(p)
        if len(S) > 1:
            S = S & self._struct_signs(node)
        key, flip = canon(p)
        f = self.facts.get(key)
        if f is not None:
            S = S & (flipset(f) if flip else f)
        if len(S) <= 1 or not use_z3:
            return S
        out = set()
        for s in (1, -1):
            if s not in S:
                continue
            if self._pool_has(node, s):
                out.add(s)
                continue
            r = self._feasible(node, key, s, -s if flip else s)
            if r is None:
                self.unsure += 1
            if r is not False:
                out.add(s)
        if 0 in S:
            if self.boundaries or not out:
                r = self._feasible(node, key, 0, 0)
                if r is None:
                    self.unsure += 1
                if r is not False:
                    out.add(0)
            # else: interior semantics -- d is not identically zero and has a feasible strict
            # sign, so {d == 0} is a measure-zero boundary, covered by continuity (lemma L1)
        S = frozenset(out)
        if S:
            self.facts[key] = flipset(S) if flip else S
            if len(S) == 1 and self.nodefacts.get(node.id) != S:
                self.nodefacts[node.id] = S
                self._ssmemo = {}
        return S

    def _struct_signs(self, node):
        """structural sign analysis on the DAG (squares, sums of non-negatives, sqrt, exp)."""
        memo = self._ssmemo
        r = memo.get(node.id)
        if r is not None:
            return r
        nfct = self.nodefacts.get(node.id)
        if nfct is not None and len(nfct) == 1:
            memo[node.id] = nfct
            return nfct
        o = node.op
        P, N0 = frozenset((1,)), frozenset((0, 1))
        if o == "c":
            c = node.args[0]
            r = frozenset(((c > 0) - (c < 0),))
        elif o == "*":
            a, b = node.args
            if a is b:
                r = N0
            else:
                sa, sb = self._struct_signs(a), self._struct_signs(b)
                r = frozenset(x * y for x in sa for y in sb)
        elif o == "+":
            sa, sb = self._struct_signs(node.args[0]), self._struct_signs(node.args[1])
            if sa <= N0 and sb <= N0:
                r = P if (sa == P or sb == P) else N0
            elif sa <= frozenset((-1, 0)) and sb <= frozenset((-1, 0)):
                r = frozenset((-1,)) if (sa == frozenset((-1,)) or sb == frozenset((-1,))) else frozenset((-1, 0))
            else:
                r = S_ALL
        elif o == "sqrt":
            r = N0
        elif o == "exp":
            r = P
        elif o == "inv":
            r = self._struct_signs(node.args[0]) - {0} or S_ALL
        elif o == "def":
            r = self._struct_signs(node.args[0])
            if node.args[1] in RELSET:
                r = r & RELSET[node.args[1]]
        elif o == "v":
            r = RELSET.get(nf.VARSIGN.get(node.args[0]), S_ALL)
        else:
            r = S_ALL
        if nfct is not None:
            r = (r & nfct) or r
        memo[node.id] = r
        return r

    def _mono_signs(self, p):
        """sign set of a single-term polynomial using the path facts on sqrt radicands and
        on composite generators (a fact x > 0 makes sqrt(x) > 0)."""
        (m, c), = p.items()
        sg = 1 if c > 0 else -1
        strict = True
        for g, e in m:
            G = nf.GENS[g]
            s = G.sign
            if s not in ("+", "-") and G.kind in ("sqrt", "F") and G.data:
                key, flip = canon(G.data)
                f = self.facts.get(key)
                if f is not None:
                    f = flipset(f) if flip else f
                    if f == frozenset((1,)):
                        s = "+"
                    elif f == frozenset((-1,)) and G.kind == "F":
                        s = "-"
            if e % 2 == 0:
                if s not in ("+", "-"):
                    strict = False
                continue
            if s == "+":
                continue
            if s == "-":
                sg = -sg
                continue
            if s == "+0" and e > 0:
                strict = False
                continue
            if s == "-0" and e > 0:
                strict = False
                sg = -sg
                continue
            return S_ALL
        return frozenset((sg,)) if strict else frozenset((sg, 0))

    def _is_identically_zero(self, node):
        p = nf.nf(node)
        return (not p) or nf.iszero(p)

    def compare(self, d, op):
        try:
            return self._compare(d, op)
        except (PathLimit, HookError, TokenReached):
            raise
        except Exception as e:           # NumPy would mask this
            self.hook_exc = e
            raise

    def _compare(self, d, op):
        if self.deadline is not None and time.time() > self.deadline:
            raise PathLimit("exploration time budget exhausted")
        S = self.signs(d)
        if not S:
            # infeasible path (should not happen: forks are checked); treat as vacuous
            raise PathLimit("infeasible path condition")
        f = OPS[op]
        ST = frozenset(s for s in S if f(s))
        SF = S - ST
        if not SF:
            return True
        if not ST:
            return False
        # genuine fork
        if not self.boundaries:
            # a branch that forces d == 0 for a not identically zero d is a measure-zero boundary
            if ST == frozenset((0,)):
                self.skipped_boundaries += 1
                self._commit(d, SF)
                return False
            if SF == frozenset((0,)):
                self.skipped_boundaries += 1
                self._commit(d, ST)
                return True
            # interior of each region only: the closure is covered by continuity (lemma L1)
            ST, SF = ST - {0}, SF - {0}
        if getattr(self, "frozen", False):
            raise RuntimeError("a comparison forked after the path was closed")
        if self.building:
            raise RuntimeError("a comparison forked while the contract inputs were being built "
                               "(preconditions must be stated with ctx.assume, not decided)")
        i = len(self.trace)
        if i < len(self.prefix):
            val = self.prefix[i]
        else:
            val = True
            self.pending.append(self.trace + [False])
            self.stats["forks"] += 1
        self.trace.append(val)
        self._commit(d, ST if val else SF)
        return val

    def _commit(self, d, S):
        self.pc.append((d, S))
        self.nodefacts[d.id] = S
        self._ssmemo = {}
        p = nf.nf(d)
        key, flip = canon(p)
        self.facts[key] = flipset(S) if flip else S
        self._derived_fact(p, S)
        if S == frozenset((0,)):
            self.boundary = True
        self.pcsig = self.pcsig + ((key, flipset(S) if flip else S),)
        if self.solver is not None:
            self.solver.add(self._zrel(d, S))
        if self.pool_env is not None and self.alive is not None:
            self.alive &= self._mask(d, S)

    def token_compare(self):
        self.tokens.append("comparison with a non-finite value")
        raise TokenReached("comparison with a non-finite IEEE value")

    def note_token(self, why):
        self.tokens.append(why)

    def safety(self, kind, node):
        """record a safety obligation; returns 'ok', 'zero' (identically zero) or 'maybe'."""
        if node.op == "c":
            c = node.args[0]
            ok = (c != 0) if kind == "inv" else (c > 0 if kind == "log" else c >= 0)
            if not ok:
                self.safety_log.append((kind, node, "const", False))
            return "ok" if ok else ("zero" if c == 0 else "maybe")
        S = self.signs(node)
        if kind == "inv":
            if S == frozenset((0,)):
                self.note_token("division by an identically zero expression")
                return "zero"
            ok = 0 not in S
        elif kind == "sqrt" and S == frozenset((0,)):
            return "zero"
        elif kind == "log":
            ok = S <= frozenset((1,))
        else:
            ok = S <= frozenset((0, 1))
        self.safety_log.append((kind, node, SETREL.get(S, str(sorted(S))), ok))
        return "ok" if ok else "maybe"

    # ---- witness of pre and PC
    def witness(self):
        if self.pool_env is not None and self.alive is not None and self.alive.any():
            i = int(np.flatnonzero(self.alive)[0])
            return {nm: Q(float(a[i])) for nm, a in self.pool_env.items()}
        if self.unsure:
            return None          # a path entered on an undecided feasibility query: do not insist
        sol = self._solver()
        self._flush_side()
        r = sol.check()
        if r != z3.sat:
            return None
        m = sol.model()
        names = set(self.zmap.names) | set(self.pmap.names) | set(self.var_range)
        return {nm: smt.model_value(m, nm) for nm in names}

    def pre_holds_at(self, env):
        """does the precondition (not the path condition) hold numerically at env?"""
        memo = {}
        try:
            for node, S in self.pre:
                v = dag.fev(node, env, memo)
                if v != v or ((v > 0) - (v < 0)) not in S:
                    return False
        except (ZeroDivisionError, ValueError, OverflowError, KeyError):
            return False
        return True

    def holds_at(self, env, tol=0.0):
        """do pre and PC hold numerically (true functions) at env?"""
        memo = {}
        for node, S in self.pre + self.pc:
            v = dag.fev(node, env, memo)
            if v != v:
                return False
            s = (v > tol) - (v < -tol)
            if s not in S:
                return False
        return True

    def sample(self, tries=400):
        """random float point of pre and PC (rejection sampling in the declared box)."""
        for _ in range(tries):
            env = {nm: self.rng.uniform(lo, hi) for nm, (lo, hi) in self.var_range.items()}
            if self.samplers:
                rs = np.random.RandomState(self.rng.randrange(2 ** 31))
                for f in self.samplers:
                    env.update({k: float(v[0]) for k, v in f(rs, 1).items()})
            try:
                if self.holds_at(env):
                    return env
            except (ZeroDivisionError, ValueError, OverflowError):
                continue
        return None


class PathResult:
    __slots__ = ("trace", "out", "pc", "boundary", "safety", "tokens", "witness", "exc", "unsure",
                 "facts", "pcsig", "tb")


def explore(ctx, fun, want_witness=True, budget_s=None):
    """Enumerate the feasible paths of fun() under ctx.pre. fun must be re-runnable."""
    global CTX
    ctx.building = False
    ctx.deadline = (time.time() + budget_s) if budget_s else None
    work = [[]]
    paths = []
    while work:
        prefix = work.pop()
        ctx._reset_path(prefix)
        CTX = ctx
        res = PathResult()
        res.exc = None
        res.tb = None
        try:
            out = fun()
            if ctx.hook_exc is not None:
                raise HookError(repr(ctx.hook_exc))
        except PathLimit as e:
            out = None
            res.exc = e
            if "budget" in str(e):
                raise
        except TokenReached as e:
            out = None
            res.exc = e
        except Exception as e:
            import traceback
            out = None
            res.exc = ctx.hook_exc if ctx.hook_exc is not None else e
            res.tb = traceback.format_exc(limit=12)
        res.trace = list(ctx.trace)
        res.out = out
        res.pc = list(ctx.pc)
        res.boundary = ctx.boundary
        res.safety = list(ctx.safety_log)
        res.tokens = list(ctx.tokens)
        res.unsure = ctx.unsure
        res.facts = dict(ctx.facts)
        res.pcsig = ctx.pcsig
        res.witness = ctx.witness() if want_witness else None
        paths.append(res)
        work.extend(ctx.pending)
        if len(paths) + len(work) > ctx.max_paths:
            raise PathLimit(f"more than {ctx.max_paths} paths")
    return paths


def activate(ctx, res):
    """Re-install the final state of a finished path (for evaluating contracts on it)."""
    global CTX
    ctx._reset_path(res.trace)
    ctx.pc = list(res.pc)
    ctx.facts = dict(res.facts)
    ctx.pcsig = res.pcsig
    ctx.trace = list(res.trace)
    ctx.frozen = True
    CTX = ctx


# ---------------------------------------------------------------- arrays
NATIVE = False      # True while a contract is replayed on float64 inputs (engine/runner.py generic_native)


class FloatCtx:
    """stand-in for Ctx while a contract's build() is re-run on one concrete point: variables are floats of that point,
    assumptions are not recorded (the point already satisfies pre and PC)."""
    concrete = True

    def __init__(self, env):
        self.env = env
        self.samplers = []
        self.var_range = {}
        self.pre = []

    def var(self, name, sign=None, lo=None, hi=None):
        return float(self.env[name])

    def __getattr__(self, k):
        if k.startswith("assume") or k in ("note", "fact"):
            return lambda *a, **kw: None
        raise AttributeError(k)


def sym_array(ctx, name, shape, sign=None, lo=None, hi=None):
    if getattr(ctx, "concrete", False):
        A = np.empty(shape, dtype=float)
        for idx in np.ndindex(*shape):
            A[idx] = ctx.var(name + "_" + "_".join(map(str, idx)), sign, lo, hi)
        return A
    A = np.empty(shape, dtype=object)
    for idx in np.ndindex(*shape):
        A[idx] = ctx.var(name + "_" + "_".join(map(str, idx)), sign, lo, hi)
    return A


def const_array(vals):
    vals = np.asarray(vals, dtype=object)
    A = np.empty(vals.shape, dtype=object)
    for idx in np.ndindex(*vals.shape):
        A[idx] = Sx(lift(vals[idx]))
    return A


def sym_symmetric(ctx, name, n, sign=None, lo=None, hi=None):
    A = np.empty((n, n), dtype=object)
    for i in range(n):
        for j in range(i, n):
            A[i, j] = A[j, i] = ctx.var(f"{name}_{i}_{j}", sign, lo, hi)
    return A


def nodes(A):
    A = np.asarray(A, dtype=object)
    out = np.empty(A.shape, dtype=object)
    for idx in np.ndindex(*A.shape):
        out[idx] = lift(A[idx])
    return out


def to_float(A, env):
    A = np.asarray(A, dtype=object)
    out = np.empty(A.shape, dtype=float)
    memo = {}
    for idx in np.ndindex(*A.shape):
        out[idx] = dag.fev(lift(A[idx]), env, memo)
    return out


# ---------------------------------------------------------------- numpy proxy and stubs
class NPProxy:
    """Module-global `np` stand-in: forwards everything to NumPy except float allocators,
    which return object arrays holding the exact constants (assumed contract: allocation only)."""

    def __init__(self):
        self.__dict__["_np"] = np

    def __getattr__(self, k):
        return getattr(np, k)

    @staticmethod
    def _obj(shape, val):
        a = np.empty(shape, dtype=object)
        a.fill(Sx(dag.const(val)))
        return a

    def _alloc(self, real, val, shape, dtype=None, **kw):
        if dtype is None or dtype in (float, np.float64):
            return self._obj(shape, val)
        return real(shape, dtype=dtype, **kw)

    def zeros(self, shape, dtype=None, **kw):
        return self._alloc(np.zeros, 0, shape, dtype, **kw)

    def empty(self, shape, dtype=None, **kw):
        return self._alloc(np.zeros, 0, shape, dtype, **kw)

    def ones(self, shape, dtype=None, **kw):
        return self._alloc(np.ones, 1, shape, dtype, **kw)

    @staticmethod
    def _norm(a):
        # object arrays may hold plain Python numbers (np.maximum(x, 0) returns the int 0): lift them
        if isinstance(a, Sx):
            return a
        a = np.asarray(a)
        if a.dtype != object:
            return a
        out = np.empty(a.shape, dtype=object)
        for idx in np.ndindex(*a.shape):
            v = a[idx]
            out[idx] = v if isinstance(v, Sx) else Sx(lift(v))
        return out

    def sqrt(self, a, *args, **kw):
        return np.sqrt(self._norm(a), *args, **kw)

    def log(self, a, *args, **kw):
        return np.log(self._norm(a), *args, **kw)

    def exp(self, a, *args, **kw):
        return np.exp(self._norm(a), *args, **kw)

    def isclose(self, a, b, rtol=1e-05, atol=1e-08, equal_nan=False):
        """NumPy's definition on exact reals: |a - b| <= atol + rtol * |b| (elementwise; the comparison forks like any other)"""
        if not (isinstance(a, Sx) or isinstance(b, Sx) or getattr(np.asarray(a), "dtype", None) == object or getattr(np.asarray(b), "dtype", None) == object):
            return np.isclose(a, b, rtol=rtol, atol=atol, equal_nan=equal_nan)
        from fractions import Fraction
        rt, at = Sx(dag.const(Fraction(str(rtol)))), Sx(dag.const(Fraction(str(atol))))
        one = lambda x, y: bool(abs(x - y) <= at + rt * abs(y))
        if isinstance(a, Sx) and isinstance(b, Sx):
            return one(a, b)
        A, B = np.broadcast_arrays(self._norm(a), self._norm(b))
        out = np.empty(A.shape, dtype=bool)
        for idx in np.ndindex(*A.shape):
            out[idx] = one(A[idx] if isinstance(A[idx], Sx) else Sx(lift(A[idx])), B[idx] if isinstance(B[idx], Sx) else Sx(lift(B[idx])))
        return out if out.shape else bool(out)

    def allclose(self, a, b, rtol=1e-05, atol=1e-08, equal_nan=False):
        return bool(np.all(self.isclose(a, b, rtol=rtol, atol=atol, equal_nan=equal_nan)))

    def zeros_like(self, a, dtype=None, **kw):
        a = np.asarray(a)
        if dtype is None and a.dtype in (object, np.float64):
            return self._obj(a.shape, 0)
        return np.zeros_like(a, dtype=dtype, **kw)


def softmax_stub(H, copy=True):
    """contract of sklearn.utils.extmath.softmax: y_k = exp(h_k) / sum_j exp(h_j), row-wise."""
    H = np.asarray(H, dtype=object)
    E = np.empty(H.shape, dtype=object)
    for idx in np.ndindex(*H.shape):
        h = H[idx]
        E[idx] = h.exp() if isinstance(h, Sx) else Sx(dag.atom("exp", lift(h)))
    return E / E.sum(1, keepdims=True)


class patched:
    """context manager: temporarily replace module attributes (np proxy, stubs)."""

    def __init__(self, *triples):
        self.triples = triples
        self.saved = []

    def __enter__(self):
        for mod, name, val in self.triples:
            self.saved.append((mod, name, getattr(mod, name, None), hasattr(mod, name)))
            setattr(mod, name, val)
        return self

    def __exit__(self, *a):
        for mod, name, old, had in reversed(self.saved):
            if had:
                setattr(mod, name, old)
            else:
                delattr(mod, name)
        return False
