"""Ghost random generator for C20: a RandomState stand-in whose sampling methods have *contracts* instead of
implementations.  It records every call and returns arrays of symbolic draws (engine.sx.Sx) tagged with their law:

  normal(loc, scale, size)              -> loc + scale * xi,   xi fresh independent N(0,1) symbols
  multivariate_normal(mean, cov, size)  -> fresh symbols z[c, i, :] with recorded law N(mean, cov), one vector per row
  chisquare(df, size)                   -> fresh positive symbols with recorded law chi2(df)
  choice(K, p=..., size=(n,))           -> the label vector chosen by the contract (all label vectors are enumerated by it)
  permutation(n)                        -> the permutation chosen by the contract
Assumed: NumPy's samplers follow these laws (contract on NumPy)."""
import numpy as np

from . import sx, dag


class GhostRandomState(np.random.RandomState):
    def __init__(self, ctx, labels=None, perm=None):
        super().__init__(0)
        self.ctx = ctx
        self.labels = labels
        self.perm = perm
        self.calls = []
        self.law = {}       # symbol name -> (kind, call index, position, params)

    def _sym(self, name, sign=None):
        return self.ctx.var(name, sign, lo=(0.2 if sign == "+" else -1.5), hi=1.5)

    def normal(self, loc=0.0, scale=1.0, size=None):
        c = len(self.calls)
        shape = (size,) if isinstance(size, (int, np.integer)) else tuple(size) if size is not None else ()
        loc_b = np.broadcast_to(np.asarray(loc, dtype=object), shape) if shape else loc
        sc_b = np.broadcast_to(np.asarray(scale, dtype=object), shape) if shape else scale
        out = np.empty(shape, dtype=object)
        for idx in np.ndindex(*shape):
            nm = f"xi{c}_" + "_".join(map(str, idx))
            xi = self._sym(nm)
            self.law[nm] = ("std-normal", c, idx)
            out[idx] = loc_b[idx] + sc_b[idx] * xi
        self.calls.append(("normal", loc, scale, shape, out))
        return out

    def multivariate_normal(self, mean, cov, size=None, **kw):
        c = len(self.calls)
        mean = np.asarray(mean, dtype=float)
        cov = np.asarray(cov, dtype=float)
        shape = (size,) if isinstance(size, (int, np.integer)) else tuple(size)
        d = len(mean)
        out = np.empty(shape + (d,), dtype=object)
        for idx in np.ndindex(*shape):
            for j in range(d):
                nm = f"z{c}_" + "_".join(map(str, idx)) + f"_{j}"
                out[idx + (j,)] = self._sym(nm)
                self.law[nm] = ("mvn", c, idx, j)
        self.calls.append(("multivariate_normal", mean, cov, shape, out))
        return out

    def chisquare(self, df, size=None):
        c = len(self.calls)
        shape = (size,) if isinstance(size, (int, np.integer)) else tuple(size)
        out = np.empty(shape, dtype=object)
        for idx in np.ndindex(*shape):
            nm = f"u{c}_" + "_".join(map(str, idx))
            out[idx] = self._sym(nm, "+")
            self.law[nm] = ("chi2", c, idx)
        self.calls.append(("chisquare", df, None, shape, out))
        return out

    def choice(self, a, size=None, replace=True, p=None):
        self.calls.append(("choice", a, None if p is None else np.array(p, dtype=float), size, None))
        lab = np.array(self.labels, dtype=np.int64)
        n = size[0] if isinstance(size, tuple) else size
        assert len(lab) == n, "contract label vector has the wrong length"
        return lab

    def permutation(self, n):
        self.calls.append(("permutation", n, None, None, None))
        return np.array(self.perm if self.perm is not None else list(range(n)), dtype=np.int64)
