"""Task runner (process pool) and the generic SX contract harness."""
import importlib
import multiprocessing as mp
import os
import signal
import sys
import time
import traceback

from .report import Ob, PROVED, REFUTED, UNDECIDED


class TaskTimeout(Exception):
    pass


def _alarm(signum, frame):
    raise TaskTimeout()


def _worker(task):
    modname, func, args, timeout, label = task
    t0 = time.time()
    try:
        signal.signal(signal.SIGALRM, _alarm)
        signal.alarm(int(timeout))
        mod = importlib.import_module(modname)
        obs = getattr(mod, func)(*args)
        signal.alarm(0)
        return label, [o.to_json() for o in obs], time.time() - t0, None
    except TaskTimeout:
        return label, [Ob(f"{label}:task", UNDECIDED, "timeout", detail={"timeout_s": timeout}).to_json()], time.time() - t0, "timeout"
    except Exception:
        signal.alarm(0)
        return label, [], time.time() - t0, traceback.format_exc()


def ob_from_json(j):
    return Ob(j["name"], j["status"], j["backend"], j["tier"], j["detail"], j["time_s"], j["fn"])


def run_tasks(tasks, procs=None, verbose=False):
    """tasks: list of (module, function, args, timeout_s, label). Returns (obs, errors)."""
    procs = procs or min(16, os.cpu_count() or 4)
    obs, errors = [], []
    if not tasks:
        return obs, errors
    ctx = mp.get_context("fork")
    with ctx.Pool(processes=min(procs, len(tasks)), maxtasksperchild=1) as pool:
        for label, js, dt, err in pool.imap_unordered(_worker, tasks, chunksize=1):
            if verbose:
                st = {}
                for j in js:
                    st[j["status"]] = st.get(j["status"], 0) + 1
                print(f"  task {label}: {dt:.1f}s {st} {'ERROR' if err and err != 'timeout' else ''}", flush=True)
            if err and err != "timeout":
                errors.append((label, err))
            obs.extend(ob_from_json(j) for j in js)
    return obs, errors


# ------------------------------------------------------------------ SX contract harness
class SxContract:
    """Subclass and define: fn (qualified name of the real function), label,
    build(ctx) -> inputs, body(inputs) -> out, ensures(inputs, out) -> iterable of (name, Claim),
    optionally native(env, inputs) -> {obligation name: (passes, detail)} replaying on the real code,
    patches() -> list of (module, attr, value) installed while body runs."""
    fn = "?"
    label = "?"
    max_paths = 20000
    boundaries = False
    smt_timeout_ms = 20000
    budget_s = 420          # wall-clock budget of the path exploration; exceeding it is UNDECIDED, never a violation
    safety = True           # emit the safety obligation (denominators, log/sqrt domains, tokens)

    def patches(self):
        return []

    float_replay = False    # opt-in: the clauses of ensures() are meaningful on float64 values too (no identity tests on symbols)

    def native(self, env, inputs):
        """default replay on the real code: the contract itself is re-run on float64 inputs built from the point (see
        generic_native) -- only for contracts that declare float_replay (validated on the unchanged tree by the size ladder)"""
        return generic_native(self, env) if self.float_replay else None

    tie_variants = False    # opt-in (piecewise-constant functions whose boundaries are part of the contract): see native_variants

    def native_variants(self, env):
        """float inputs derived from one sampled point (e.g. rescaled affinities) for the degraded mode.
        With tie_variants, every point is followed by its *boundary* neighbours: one variable set equal to another
        (a cut point on a data value, two equal data values) -- random points never sit on the boundaries where <
        and <= differ.  The caller keeps only variants that satisfy the precondition."""
        yield env
        if self.tie_variants:
            names = sorted(env)
            for a in names:
                for b in names:
                    if a != b and env[a] != env[b]:
                        e = dict(env)
                        e[a] = env[b]
                        yield e


def _real_code_frame(tb):
    import gemclus
    root = os.path.dirname(os.path.abspath(gemclus.__file__))
    while tb is not None:
        if os.path.abspath(tb.tb_frame.f_code.co_filename).startswith(root):
            return True
        tb = tb.tb_next
    return False


def generic_native(c, env, rtol=1e-6, atol=1e-9):
    """Replay of a contract on the real, unpatched code at one concrete point: build() is re-run with float variables
    (float64 arrays instead of symbol arrays), body() calls the real functions with only the non-numeric patches kept
    (validation no-ops, recorders -- the NumPy proxy and the softmax stub are dropped, so real NumPy / scikit-learn run),
    and every clause of ensures() is evaluated numerically.  Returns {clause: (holds, info)} or None when the contract
    cannot be replayed this way.  An exception raised *inside GemClus code* propagates (the caller records it as the
    failing behaviour); an exception of the harness itself yields None."""
    from . import sx, dag
    import copy
    import numpy as np
    c2 = copy.copy(c)
    try:
        inputs = c2.build(sx.FloatCtx(env))
        keep = []
        for mod, name, val in c2.patches():
            if isinstance(val, sx.NPProxy) or val is sx.softmax_stub:
                continue
            keep.append((mod, name, val))
    except Exception:
        return None
    old = sx.NATIVE
    sx.NATIVE = True
    try:
        with sx.patched(*keep), np.errstate(all="ignore"):
            out = c2.body(inputs)
            clauses = list(c2.ensures(inputs, out))
    except Exception as e:
        if _real_code_frame(e.__traceback__):
            raise
        return None
    finally:
        sx.NATIVE = old
    res = {}
    for name, claim in clauses:
        try:
            if claim.kind == "holds":
                res[name] = (bool(claim.a), {"note": claim.note})
            elif claim.kind == "eq":
                a, b = dag.fev(claim.a, {}), dag.fev(claim.b, {})
                ok = (a == a and b == b) and abs(a - b) <= atol + rtol * (abs(a) + abs(b))
                res[name] = (bool(ok), {"code": a, "spec": b})
            elif claim.kind == "rel":
                v = dag.fev(claim.a, {})
                want = sx.RELSET[claim.b]
                sg = 0 if abs(v) <= 1e-12 else (1 if v > 0 else -1)
                res[name] = (bool(v == v and (sg in want or sg == 0)), {"value": v, "required": claim.b})
        except Exception:
            continue
    return res or None


def run_sx(contract, seed=0):
    import warnings
    import numpy as np
    with warnings.catch_warnings(), np.errstate(all="ignore"):
        warnings.simplefilter("ignore")
        return _run_sx(contract, seed)


def _run_sx(contract, seed=0):
    from . import sx, prove, dag
    c = contract
    t_start = time.time()
    thorough = os.environ.get("VERIF_TIER_EFFECTIVE") == "thorough"
    ctx = sx.Ctx(max_paths=c.max_paths * (10 if thorough else 1), boundaries=c.boundaries, seed=seed)
    inputs = c.build(ctx)

    def fun():
        with sx.patched(*c.patches()):
            out = c.body(inputs)
        # the contract clauses are evaluated inside the exploration: comparisons they make
        # (abs, max, case splits of the specification) fork like those of the code
        return out, list(c.ensures(inputs, out))

    obs = []
    try:
        # wall-clock budget of one exploration: generous in the thorough tier so that the verdict does not depend on machine load
        paths = sx.explore(ctx, fun, budget_s=c.budget_s * (6 if os.environ.get("VERIF_TIER_EFFECTIVE") == "thorough" else 1))
    except sx.PathLimit as e:
        return [Ob(f"{c.label}:paths", UNDECIDED, "path-limit", detail={"why": str(e)}, fn=c.fn)]
    t_explore = time.time() - t_start
    agg = {}     # name -> [status, backend, detail, time, npaths]
    order = []
    n_exc = 0
    safety_bad = []
    n_unwitnessed = 0
    for pi, pa in enumerate(paths):
        if isinstance(pa.exc, sx.PathLimit):
            continue                      # proven infeasible prefix: vacuous
        if pa.witness is None:
            n_unwitnessed += 1
        if pa.exc is not None:
            n_exc += 1
            name = f"{c.label}:no-exception"
            det = {"exception": repr(pa.exc), "traceback": pa.tb, "env": pa.witness, "trace": pa.trace}
            st = REFUTED if pa.witness is not None else UNDECIDED
            _agg(agg, order, name, st, "sx-run", det, 0.0)
            continue
        _agg(agg, order, f"{c.label}:no-exception", PROVED, "sx-run", {}, 0.0)
        if c.safety:
            bad = [(k, sx.SETREL.get(s, s) if not isinstance(s, str) else s) for k, n_, s, ok in pa.safety if not ok]
            if pa.tokens and _has_token(pa.out[0]):
                bad.append(("token", "; ".join(pa.tokens[:3])))
            if bad:
                _agg(agg, order, f"{c.label}:safety", REFUTED if pa.witness is not None else UNDECIDED, "sign",
                     {"unsafe": bad[:5], "env": pa.witness}, 0.0)
            else:
                _agg(agg, order, f"{c.label}:safety", PROVED, "sign", {"checked": len(pa.safety)}, 0.0)
        sx.activate(ctx, pa)
        claims = pa.out[1]
        for name, claim in claims:
            if claim.smooth_only and pa.boundary:
                continue
            t0 = time.time()
            try:
                st, be, det = prove.discharge(ctx, pa, claim, smt_timeout_ms=c.smt_timeout_ms)
            except (ZeroDivisionError, ValueError) as e:
                st, be, det = UNDECIDED, "nf-error", {"error": repr(e)}
            det["path"] = pi
            _agg(agg, order, f"{c.label}:{name}", st, be, det, time.time() - t0)
    for name in order:
        st, be, det, tm, npaths = agg[name]
        det = dict(det)
        det["paths"] = npaths
        if st == REFUTED and det.get("env") is not None and "replayed" not in det:
            short = name[len(c.label) + 1:]
            envf = {k: float(v) for k, v in det["env"].items()}
            if name.endswith(":no-exception"):
                # the symbolic run raised.  Repeat natively: if the real code raises too, that input is
                # the failing input; otherwise the symbolic layer lacks an operation the code uses and
                # the contract is *degraded* to a numeric comparison on the real code (never a violation
                # by itself, never counted as discharged)
                st, be, det = _degrade(c, ctx, inputs, envf, det)
            else:
                try:
                    r = c.native(envf, inputs)
                except Exception as e:
                    r = None
                    det["native_error"] = repr(e)
                if r is not None:
                    hit = r.get(short)
                    if hit is None:
                        hit = r.get("*")
                    if hit is not None:
                        det["replayed"] = (not hit[0])
                        det["native"] = hit[1]
        obs.append(Ob(name, st, be, "P", det, tm, c.fn))
    obs.append(Ob(f"{c.label}:paths-explored", PROVED if paths else UNDECIDED, "dfs", "I",
                  {"paths": len(paths), "explore_s": round(t_explore, 3), "unwitnessed": n_unwitnessed,
                   "skipped_boundary_forks": ctx.skipped_boundaries, "stats": ctx.stats}, 0.0, c.fn))
    return obs


def _degrade(c, ctx, inputs, envf, det):
    det = dict(det)
    try:
        r = c.native(envf, inputs)
    except Exception:
        det["replayed"] = True
        det["native_exception"] = traceback.format_exc(limit=6)
        return REFUTED, "native-run", det
    if r is None:
        det["degraded"] = "symbolic run raised; the contract has no native replay"
        return UNDECIDED, "degraded", det
    envs = [envf]
    for _ in range(40):
        e = ctx.sample(tries=50)
        if e is not None:
            envs.append(e)
    tried = 0
    for i0, e0 in enumerate(envs):
        for iv, e in enumerate(c.native_variants(e0)):
            if iv > 0 and c.tie_variants and (i0 > 3 or not ctx.pre_holds_at(e)):
                continue          # boundary variants: first few points only, and only inside the precondition
            tried += 1
            try:
                r = c.native(e, inputs)
            except Exception:
                det.update(replayed=True, native_exception=traceback.format_exc(limit=6), env=e)
                return REFUTED, "native-run", det
            bad = {k: v for k, v in (r or {}).items() if not v[0]}
            if bad:
                k = sorted(bad)[0]
                det.update(replayed=True, native=bad[k][1], failed_clause=k, env=e)
                return REFUTED, "native-numeric", det
    det["degraded"] = (f"the symbolic run raised ({det.get('exception')}) but the real code does not on the same input: "
                       f"contract compared numerically on the real code at {tried} points, all consistent")
    return UNDECIDED, "degraded", det


def _has_token(out):
    from . import sx
    import numpy as np
    if out is None:
        return False
    if isinstance(out, sx.Sx):
        return out.n is sx.TOK
    if isinstance(out, np.ndarray):
        return any(_has_token(x) for x in out.flat) if out.dtype == object else False
    if isinstance(out, (tuple, list)):
        return any(_has_token(x) for x in out)
    if isinstance(out, dict):
        return any(_has_token(x) for x in out.values())
    return False


_RANK = {REFUTED: 3, UNDECIDED: 2, PROVED: 1}


def _agg(agg, order, name, st, be, det, tm):
    cur = agg.get(name)
    if cur is None:
        agg[name] = [st, be, det, tm, 1]
        order.append(name)
        return
    cur[3] += tm
    cur[4] += 1
    if _RANK[st] > _RANK[cur[0]]:
        cur[0], cur[1], cur[2] = st, be, det
    elif st == cur[0] == PROVED and be not in cur[1]:
        cur[1] = cur[1] + "+" + be
