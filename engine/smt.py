"""DAG -> z3 terms. inv/sqrt/exp/log become constrained constants (side constraints):
  inv: r*a == 1     sqrt: r >= 0 and r*r == a     exp: r > 0     log: free
Any formula valid under this abstraction is valid for the real functions.
"""
import z3

from . import dag


class Z3Map:
    def __init__(self):
        self.memo = {}
        self.side = []        # side constraints in creation order
        self.names = set()

    def term(self, n):
        memo = self.memo
        stack = [n]
        while stack:
            m = stack[-1]
            if m.id in memo:
                stack.pop()
                continue
            o = m.op
            if o == "c":
                c = m.args[0]
                memo[m.id] = z3.RealVal(str(c))
                stack.pop()
                continue
            if o == "v":
                memo[m.id] = z3.Real(m.args[0])
                self.names.add(m.args[0])
                stack.pop()
                continue
            todo = [a for a in m.args if isinstance(a, dag.Node) and a.id not in memo]
            if todo:
                stack.extend(todo)
                continue
            stack.pop()
            a = [memo[x.id] for x in m.args if isinstance(x, dag.Node)]
            if o == "+":
                r = a[0] + a[1]
            elif o == "*":
                r = a[0] * a[1]
            elif o == "inv":
                r = z3.Real(f"inv!{m.id}")
                self.side.append(r * a[0] == 1)
            elif o == "sqrt":
                r = z3.Real(f"sqrt!{m.id}")
                self.side.append(z3.And(r >= 0, r * r == a[0]))
            elif o == "exp":
                r = z3.Real(f"exp!{m.id}")
                self.side.append(r > 0)
            elif o == "log":
                r = z3.Real(f"log!{m.id}")
            elif o == "def":
                r = a[0]
            else:
                raise ValueError(o)
            memo[m.id] = r
        return memo[n.id]


REL = {
    "+": lambda t: t > 0, "-": lambda t: t < 0, "0": lambda t: t == 0,
    "+0": lambda t: t >= 0, "-0": lambda t: t <= 0, "!0": lambda t: t != 0,
}


def model_value(m, name):
    v = m.eval(z3.Real(name), model_completion=True)
    from fractions import Fraction as Q
    if z3.is_rational_value(v):
        return Q(v.numerator_as_long(), v.denominator_as_long())
    if z3.is_algebraic_value(v):
        a = v.approx(30)
        return Q(a.numerator_as_long(), a.denominator_as_long())
    return Q(0)


class PolyMap:
    """NF polynomial (F generators cleared) -> z3 term; sqrt generators become constrained constants."""

    def __init__(self):
        self.gterm = {}
        self.side = []
        self.names = set()

    def gen(self, g):
        from . import nf
        t = self.gterm.get(g)
        if t is not None:
            return t
        G = nf.GENS[g]
        if G.kind == "v":
            t = z3.Real(G.data)
            self.names.add(G.data)
            if G.sign in REL:
                self.side.append(REL[G.sign](t))
        elif G.kind == "sqrt":
            t = z3.Real(f"sqrtg!{g}")
            r = nf.clear_F(G.data)
            self.side.append(t >= 0)
            if r is not None:
                N, sg = r
                # s^2 * M = N  with M of known sign: only usable when M == 1 (no F inside)
                if N == G.data:
                    self.side.append(t * t == self.poly(N))
            if G.sign == "+":
                self.side.append(t > 0)
        elif G.kind == "sqrtc":
            t = z3.Real(f"sqrtc!{g}")
            self.side.append(z3.And(t > 0, t * t == G.data))
        elif G.kind == "exp":
            t = z3.Real(f"expg!{g}")
            self.side.append(t > 0)
        elif G.kind == "logc":
            t = z3.Real(f"logc!{g}")
            self.side.append(t > 0)
        else:
            t = z3.Real(f"{G.kind}g!{g}")
        self.gterm[g] = t
        return t

    def poly(self, p):
        terms = []
        for m, c in p.items():
            t = z3.RealVal(str(c))
            for g, e in m:
                x = self.gen(g)
                if e < 0:
                    raise ValueError("negative exponent after clearing")
                for _ in range(e):
                    t = t * x
            terms.append(t)
        return z3.Sum(terms) if terms else z3.RealVal(0)
