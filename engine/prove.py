"""Discharging obligations produced on one explored path.

Status values: PROVED, REFUTED (with a numeric witness), UNDECIDED.
Back ends for identities: NF (normal form), then z3 on the DAG abstraction, then the numeric
refuter (mpmath, 50 digits, true log/sqrt/exp) which can only refute.
"""
import time

import z3

from . import dag, nf, smt, sx, xcheck

PROVED, REFUTED, UNDECIDED = "PROVED", "REFUTED", "UNDECIDED"


class Claim:
    """kind: 'eq' (lhs == rhs), 'rel' (expr rel 0), 'holds' (concrete bool), 'indep' (expr, var)"""
    __slots__ = ("kind", "a", "b", "smooth_only", "note")

    def __init__(self, kind, a, b=None, smooth_only=False, note=None):
        self.kind = kind
        self.a = a
        self.b = b
        self.smooth_only = smooth_only
        self.note = note


def eq(a, b, smooth_only=False):
    return Claim("eq", sx.lift(a), sx.lift(b), smooth_only)


def rel(a, r, smooth_only=False):
    return Claim("rel", sx.lift(a), r, smooth_only)


def holds(cond, note=None):
    return Claim("holds", bool(cond), None, False, note)


def indep(a, varname):
    return Claim("indep", sx.lift(a), varname)


def fingerprint(d):
    """residual of a failed identity at a canonical probe point (variable values derived from their names):
    identifies *which* wrong expression the code computes, independently of seeds and witnesses."""
    import zlib
    names = dag.variables(d)
    env = {nm: 0.5 + (zlib.crc32(nm.encode()) % 1000) / 1000.0 for nm in names}
    try:
        v = dag.fev(d, env)
        return "%.6g" % v if v == v else "nan"
    except Exception:
        return "error"


def _points(ctx, path, n_extra=6):
    pts = []
    if path.witness is not None:
        pts.append(dict(path.witness))
        pts.extend(_around_witness(ctx, path, n_extra))
    for _ in range(n_extra):
        e = ctx.sample(tries=60)
        if e is not None:
            pts.append(e)
    return pts


def _around_witness(ctx, path, n):
    """generic points of a region that rejection sampling in the declared box cannot reach (e.g. a pre-activation above 100):
    the solver's witness is usually degenerate (most variables 0), so the variables the path condition constrains are kept
    near their witness values and all the others are drawn at random; only points of pre and PC are kept."""
    w = {k: float(v) for k, v in path.witness.items()}
    pinned = set()
    for node, _S in path.pc:
        pinned |= set(dag.variables(node))
    out = []
    for t in range(40 * n):
        if len(out) >= n:
            break
        scale = 0.3 if t < 20 * n else 0.02
        env = {}
        for k, v in w.items():
            lo, hi = ctx.var_range.get(k, (-1.5, 1.5))
            if k in pinned:
                env[k] = v + ctx.rng.gauss(0.0, scale * (abs(v) + 0.05))
            else:
                env[k] = ctx.rng.uniform(lo, hi)
        try:
            if ctx.holds_at(env):
                out.append(env)
        except (ZeroDivisionError, ValueError, OverflowError, KeyError):
            continue
    return out


def _numeric_refute(ctx, path, d, relset=None):
    """search a point of pre and PC where d != 0 (or violates relset)."""
    import mpmath
    for env in _points(ctx, path):
        try:
            if not ctx.holds_at({k: float(v) for k, v in env.items()}):
                continue
            v = dag.mpev(d, env)
        except (ZeroDivisionError, ValueError, KeyError):
            continue
        if mpmath.isnan(v):
            continue
        if relset is None:
            if abs(v) > mpmath.mpf(10) ** -25:
                return env, v
        else:
            s = (v > mpmath.mpf(10) ** -30) - (v < -mpmath.mpf(10) ** -30)
            if s not in relset:
                return env, v
    return None, None


def _z3_check(ctx, path, extra, timeout_ms):
    zm = smt.Z3Map()
    s = z3.Solver()
    s.set("timeout", 5 * timeout_ms)        # backstop only: the resource limit below is the deterministic budget (load-independent verdicts)
    s.set("rlimit", 40000000)
    for node, S in ctx.pre + path.pc:
        s.add(smt.REL[sx.SETREL[S]](zm.term(node)))
    s.add(extra(zm))
    for c in zm.side:
        s.add(c)
    t0 = time.time()
    r = s.check()
    dt = time.time() - t0
    model = None
    if r == z3.sat:
        m = s.model()
        model = {nm: smt.model_value(m, nm) for nm in set(zm.names) | set(ctx.var_range)}
    if r == z3.unsat:
        # second opinion of an independent solver on the same assertion stack (assumption A8)
        model = xcheck.second_opinion(s)
    return r, model, dt


def discharge(ctx, path, claim, smt_timeout_ms=20000, use_smt=True):
    """returns (status, backend, detail dict)"""
    t0 = time.time()
    if claim.kind == "holds":
        return (PROVED if claim.a else REFUTED), "eval", {"note": claim.note, "env": path.witness}
    if claim.kind == "indep":
        d = dag.diff(claim.a, claim.b, {})
        claim = Claim("eq", d, dag.ZERO)
    if claim.kind == "eq":
        if claim.a is sx.TOK or claim.b is sx.TOK:
            return REFUTED, "token", {"note": "a non-finite value reaches the result", "env": path.witness}
        d = dag.sub(claim.a, claim.b)
        p = nf.nf(d)
        if not p or (nf.maybe_zero(p) and nf.iszero(p)):
            return PROVED, "nf", {"t": time.time() - t0}
        env, v = _numeric_refute(ctx, path, d)
        if env is not None:
            return REFUTED, "numeric", {"env": env, "residual": float(v), "t": time.time() - t0, "fingerprint": fingerprint(d)}
        if use_smt:
            r, model, dt = _z3_check(ctx, path, lambda zm: zm.term(d) != 0, smt_timeout_ms)
            if r == z3.unsat:
                if model.startswith("DISAGREE"):
                    return UNDECIDED, "solver-disagreement", {"t": time.time() - t0, "xcheck": model}
                return PROVED, "z3", {"t": time.time() - t0, "xcheck": model}
            if r == z3.sat:
                try:
                    if ctx.holds_at({k: float(x) for k, x in model.items()}):
                        v = dag.mpev(d, model)
                        if abs(v) > 1e-25:
                            return REFUTED, "z3-model", {"env": model, "residual": float(v), "t": time.time() - t0}
                except Exception:
                    pass
        return UNDECIDED, "none", {"t": time.time() - t0, "size": dag.size(d)}
    if claim.kind == "rel":
        if claim.a is sx.TOK:
            return REFUTED, "token", {"note": "a non-finite value reaches the result", "env": path.witness}
        want = sx.RELSET[claim.b]
        sx.activate(ctx, path)
        S = ctx.signs(claim.a, use_z3=False)
        if S <= want:
            return PROVED, "sign", {"t": time.time() - t0}
        env, v = _numeric_refute(ctx, path, claim.a, want)
        if env is not None:
            return REFUTED, "numeric", {"env": env, "residual": float(v), "t": time.time() - t0}
        if use_smt:
            bad = [s for s in (-1, 0, 1) if s not in want]

            def extra(zm):
                t = zm.term(claim.a)
                return z3.Or([{1: t > 0, -1: t < 0, 0: t == 0}[s] for s in bad])
            r, model, dt = _z3_check(ctx, path, extra, smt_timeout_ms)
            if r == z3.unsat:
                if model.startswith("DISAGREE"):
                    return UNDECIDED, "solver-disagreement", {"t": time.time() - t0, "xcheck": model}
                return PROVED, "z3", {"t": time.time() - t0, "xcheck": model}
            if r == z3.sat:
                try:
                    if ctx.holds_at({k: float(x) for k, x in model.items()}):
                        v = dag.mpev(claim.a, model)
                        s = (v > 1e-30) - (v < -1e-30)
                        if s not in want:
                            return REFUTED, "z3-model", {"env": model, "residual": float(v)}
                except Exception:
                    pass
        return UNDECIDED, "none", {"t": time.time() - t0}
    raise ValueError(claim.kind)
