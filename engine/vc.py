"""VC engine: loop-cutting verification-condition generation over the real AST (integers, slices of a
sequence, opaque gathers) discharged by z3 (QF_LIA/NIA).  Used for the batching loops of C10 / C07.

Python semantics assumed by the encoding (assumption A4): unbounded integers; `len(X)` is a symbolic
n >= 1 (n >= 0 where stated); a Python slice seq[lo:hi] with 0 <= lo of a sequence of length L denotes
positions [min(lo,L), min(hi,L)); NumPy indexing axioms X[idx][a] = X[idx[a]] and
(A[r][:, c])[a,b] = A[r[a], c[b]] (represented structurally by `gather` / `colgather` terms);
random_state.permutation(n) is a permutation of 0..n-1 (contract on NumPy); no exceptions other than
explicit raise.  Values: z3 Int/Bool terms, Slice(base, lo, hi), Opaque(tag, *args), Python constants.
"""
import ast
import inspect
import textwrap
import time

import z3


class Slice:
    """positions [lo, hi) of the sequence `base` (a name: 'perm' or 'range')"""

    def __init__(self, base, lo, hi, length):
        self.base, self.lo, self.hi, self.length = base, lo, hi, length

    def __repr__(self):
        return f"{self.base}[{self.lo}:{self.hi}]"


class Opaque:
    def __init__(self, tag, *a):
        self.tag, self.a = tag, a

    def __repr__(self):
        return f"{self.tag}{self.a}"

    def __eq__(self, o):
        return isinstance(o, Opaque) and self.tag == o.tag and len(self.a) == len(o.a) and all(
            _same(x, y) for x, y in zip(self.a, o.a))

    def __hash__(self):
        return hash(self.tag)


def _same(x, y):
    if isinstance(x, z3.ExprRef) and isinstance(y, z3.ExprRef):
        return z3.eq(x, y)
    if isinstance(x, Slice) and isinstance(y, Slice):
        return x is y or (x.base == y.base and z3.eq(z3.simplify(x.lo - y.lo), z3.IntVal(0)) and z3.eq(z3.simplify(x.hi - y.hi), z3.IntVal(0)))
    return x is y or x == y


def zmin(a, b):
    return z3.If(a <= b, a, b)


class VCError(Exception):
    pass


class SliceVal:
    """value of slice(lo, hi)"""
    def __init__(self, lo, hi):
        self.lo, self.hi = lo, hi


class _Val(ast.expr):
    """an already evaluated value used where an expression is expected (slice bounds of a slice object)"""
    _fields = ()

    def __init__(self, v):
        super().__init__()
        self.v = v


def _SliceNode(lo, hi):
    return ast.Slice(lower=_Val(lo), upper=_Val(hi), step=None)


class _Sub:
    """a Subscript node with its slice replaced (same position: slice ordinals are keyed by position)"""
    def __init__(self, e, sl):
        self.value, self.slice, self.lineno, self.col_offset = e.value, sl, e.lineno, e.col_offset


class VC:
    """Subclass per target function: override call(), on_yield(), invariant(), after()."""

    def __init__(self, func, timeout_ms=20000):
        src = textwrap.dedent(inspect.getsource(func))
        self.fn = ast.parse(src).body[0]
        self.globals_ = getattr(func, "__globals__", {})
        qn = getattr(func, "__qualname__", "").split(".")
        self.cls_ = self.globals_.get(qn[0]) if len(qn) > 1 else None
        self.obligations = []          # (name, status, model/None, seconds)
        self.pre = []
        self.timeout_ms = timeout_ms
        self.loop_ord = 0

    # ---- proving
    def prove(self, name, assm, goal):
        if isinstance(goal, bool):
            goal = z3.BoolVal(goal)
        s = z3.Solver()
        s.set("timeout", self.timeout_ms)
        s.add(*self.pre)
        s.add(*assm)
        s.add(z3.Not(goal))
        t0 = time.time()
        r = s.check()
        dt = time.time() - t0
        model = None
        if r == z3.sat:
            m = s.model()
            model = {str(d): str(m[d]) for d in m.decls()}
        status = "PROVED" if r == z3.unsat else ("REFUTED" if r == z3.sat else "UNDECIDED")
        if r == z3.unsat:
            from . import xcheck
            xc = xcheck.second_opinion(s)
            model = {"xcheck": xc}
            if xc.startswith("DISAGREE"):
                status = "UNDECIDED"
        self.obligations.append((name, status, model, dt))
        return r == z3.unsat

    def vacuity(self, name, assm):
        """the assumptions reaching this point are satisfiable (a cover)"""
        s = z3.Solver()
        s.set("timeout", self.timeout_ms)
        s.add(*self.pre)
        s.add(*assm)
        r = s.check()
        self.obligations.append((name, "PROVED" if r == z3.sat else ("REFUTED" if r == z3.unsat else "UNDECIDED"), None, 0.0))

    # ---- hooks
    def call(self, fname, node, args, kwargs, st):
        raise VCError(f"needs contract: call to {fname}")

    def attribute(self, src, st):
        raise VCError(f"needs contract: attribute {src}")

    def on_yield(self, value, st):
        pass

    def invariant(self, st, ordinal):
        raise VCError("loop without invariant")

    def variant(self, st, ordinal):
        return None

    def havoc(self, st, ordinal, names):
        for nm in names:
            st.env[nm] = z3.FreshInt(nm)

    # ---- evaluation
    def _slice_no(self, e):
        """ordinal of a slice expression in order of first evaluation (names must not depend on local variable names)"""
        ids = self.__dict__.setdefault("_slice_ids", {})
        return ids.setdefault((e.lineno, e.col_offset), len(ids) + 1)

    def ev(self, e, st):
        if isinstance(e, _Val):
            return e.v
        if isinstance(e, _Sub):
            e2 = ast.Subscript(value=e.value, slice=e.slice, ctx=ast.Load())
            e2.lineno, e2.col_offset = e.lineno, e.col_offset
            return self.ev(e2, st)
        if isinstance(e, ast.Name):
            if e.id not in st.env:
                raise VCError(f"unbound name {e.id}")
            return st.env[e.id]
        if isinstance(e, ast.Constant):
            if isinstance(e.value, bool) or e.value is None:
                return e.value
            if isinstance(e.value, int):
                return z3.IntVal(e.value)
            return e.value
        if isinstance(e, ast.Call):
            f = ast.unparse(e.func)
            args = [self.ev(a, st) for a in e.args]
            kw = {k.arg: self.ev(k.value, st) for k in e.keywords}
            if f == "slice" and len(args) == 2 and not kw:
                return SliceVal(args[0], args[1])         # slice(a, b) used as an index is the index a:b
            helper = self._helper(f)
            if helper is not None:
                return self._inline(helper, args, kw, st)
            return self.call(f, e, args, kw, st)
        if isinstance(e, ast.IfExp):
            c = self.ev(e.test, st)
            a, b = self.ev(e.body, st), self.ev(e.orelse, st)
            if c is True:
                return a
            if c is False:
                return b
            if isinstance(a, z3.ExprRef) and isinstance(b, z3.ExprRef):
                return z3.If(c, a, b)
            return ("ite", c, a, b)
        if isinstance(e, ast.Compare) and len(e.ops) == 1:
            op = e.ops[0]
            src_l = ast.unparse(e.left)
            r = self.ev(e.comparators[0], st)
            if isinstance(op, (ast.Is, ast.IsNot)) and r is None:
                flag = self.is_none(src_l, e.left, st)
                return flag if isinstance(op, ast.Is) else (z3.Not(flag) if isinstance(flag, z3.ExprRef) else (not flag))
            l = self.ev(e.left, st)
            return {ast.Lt: lambda: l < r, ast.LtE: lambda: l <= r, ast.Gt: lambda: l > r, ast.GtE: lambda: l >= r,
                    ast.Eq: lambda: l == r, ast.NotEq: lambda: l != r}[type(op)]()
        if isinstance(e, ast.BoolOp):
            vals = [self.ev(v, st) for v in e.values]
            return z3.And(*vals) if isinstance(e.op, ast.And) else z3.Or(*vals)
        if isinstance(e, ast.UnaryOp) and isinstance(e.op, ast.Not):
            return z3.Not(self.ev(e.operand, st))
        if isinstance(e, ast.Attribute):
            return self.attribute(ast.unparse(e), st)
        if isinstance(e, ast.BinOp):
            l, r = self.ev(e.left, st), self.ev(e.right, st)
            if isinstance(l, z3.ExprRef) and isinstance(r, z3.ExprRef):
                if isinstance(e.op, ast.Add):
                    return l + r
                if isinstance(e.op, ast.Sub):
                    return l - r
                if isinstance(e.op, ast.Mult):
                    return l * r
            return self.binop(type(e.op).__name__, l, r, st)
        if isinstance(e, ast.Subscript):
            base = self.ev(e.value, st)
            sl = e.slice
            if isinstance(sl, ast.Name) and isinstance(st.env.get(sl.id), SliceVal):
                sv = st.env[sl.id]
                sl = _SliceNode(sv.lo, sv.hi)
            elif isinstance(sl, ast.Tuple) and any(isinstance(x, ast.Name) and isinstance(st.env.get(x.id), SliceVal) for x in sl.elts):
                sl = ast.Tuple(elts=[_SliceNode(st.env[x.id].lo, st.env[x.id].hi) if isinstance(x, ast.Name) and isinstance(st.env.get(x.id), SliceVal) else x
                                     for x in sl.elts], ctx=ast.Load())
            e = _Sub(e, sl)
            if isinstance(e.slice, ast.Slice):
                lo = self.ev(e.slice.lower, st) if e.slice.lower is not None else z3.IntVal(0)
                if isinstance(base, Slice):
                    L = base.hi - base.lo
                    hi = self.ev(e.slice.upper, st) if e.slice.upper is not None else L
                    self.prove(f"slice {self._slice_no(e)} lower bound >= 0", st.assm, lo >= 0)
                    return Slice(base.base, base.lo + zmin(lo, L), base.lo + zmin(hi, L), base.length)
                # slicing an opaque array X[j:j+b]: positions of range(len)
                L = self.length_of(base, st)
                hi = self.ev(e.slice.upper, st) if e.slice.upper is not None else L
                self.prove(f"slice {self._slice_no(e)} lower bound >= 0", st.assm, lo >= 0)
                return Opaque("gather", base, Slice("range", zmin(lo, L), zmin(hi, L), L))
            if isinstance(e.slice, ast.Tuple):
                elts = e.slice.elts
                if (len(elts) == 2 and all(isinstance(x, ast.Slice) for x in elts) and not (elts[0].lower is None and elts[0].upper is None)):
                    # A[a:b, c:d] is A[a:b][:, c:d]
                    rows = _Sub(e, elts[0])
                    inner = self.ev(rows, st)
                    L = self.length_of(inner, st, axis=1)
                    lo = self.ev(elts[1].lower, st) if elts[1].lower is not None else z3.IntVal(0)
                    hi = self.ev(elts[1].upper, st) if elts[1].upper is not None else L
                    return Opaque("colgather", inner, Slice("range", zmin(lo, L), zmin(hi, L), L))
                if len(elts) == 2 and isinstance(elts[0], ast.Slice) and elts[0].lower is None and elts[0].upper is None:
                    if isinstance(elts[1], ast.Slice):
                        L = self.length_of(base, st, axis=1)
                        lo = self.ev(elts[1].lower, st) if elts[1].lower is not None else z3.IntVal(0)
                        hi = self.ev(elts[1].upper, st) if elts[1].upper is not None else L
                        return Opaque("colgather", base, Slice("range", zmin(lo, L), zmin(hi, L), L))
                    return Opaque("colgather", base, self.ev(elts[1], st))
                raise VCError("unsupported subscript " + ast.unparse(e))
            idx = self.ev(e.slice, st)
            return Opaque("gather", base, idx)
        if isinstance(e, ast.Tuple):
            return tuple(self.ev(x, st) for x in e.elts)
        raise VCError("unsupported expression " + ast.dump(e)[:80])

    # ---- helpers introduced after the contracts were written (extract-method refactorings) are seen through
    def _helper(self, f):
        """the AST of a GemClus function / method called as `self.m`, `cls.m`, `Class.m` or `m` whose name did not exist when
        the contracts were written (contracts/known_api.json), else None"""
        from .fx import _known_api
        name = f.split(".")[-1]
        if name in _known_api() or not name.isidentifier():
            return None
        obj = None
        owner = f.rsplit(".", 1)[0] if "." in f else None
        if owner in ("self", "cls") or (owner and owner == getattr(self.cls_, "__name__", None)):
            for k in getattr(self.cls_, "__mro__", ()):
                if name in k.__dict__:
                    obj = k.__dict__[name]
                    break
        elif owner is None:
            obj = self.globals_.get(name)
        if isinstance(obj, (staticmethod, classmethod)):
            skip = 0 if isinstance(obj, staticmethod) else 1
            obj = obj.__func__
        else:
            skip = 1 if owner in ("self", "cls") else 0
        import types
        if not isinstance(obj, types.FunctionType) or not (getattr(obj, "__module__", "") or "").startswith("gemclus"):
            return None
        try:
            node = ast.parse(textwrap.dedent(inspect.getsource(obj))).body[0]
        except (OSError, TypeError, SyntaxError):
            return None
        if any(isinstance(x, (ast.Yield, ast.YieldFrom, ast.While, ast.For)) for x in ast.walk(node)):
            return None
        return node, skip

    def _inline(self, helper, args, kw, st):
        node, skip = helper
        params = [a.arg for a in node.args.args][skip:]
        inner = st.copy()
        inner.env = dict(st.env)
        for pn, v in zip(params, args):
            inner.env[pn] = v
        inner.env.update(kw)
        return self._ret_value(node.body, inner)

    def _ret_value(self, stmts, st):
        for i, s_ in enumerate(stmts):
            if isinstance(s_, ast.Expr) and isinstance(s_.value, ast.Constant):
                continue
            if isinstance(s_, ast.Return):
                return self.ev(s_.value, st) if s_.value is not None else None
            if isinstance(s_, ast.If) and any(isinstance(x, ast.Return) for x in ast.walk(s_)):
                c = self.ev(s_.test, st)
                if c is True:
                    return self._ret_value(list(s_.body) + list(stmts[i + 1:]), st)
                if c is False:
                    return self._ret_value(list(s_.orelse) + list(stmts[i + 1:]), st)
                a, b = st.copy(), st.copy()
                a.assm.append(c)
                b.assm.append(z3.Not(c))
                va = self._ret_value(list(s_.body) + list(stmts[i + 1:]), a)
                vb = self._ret_value(list(s_.orelse) + list(stmts[i + 1:]), b)
                if isinstance(va, z3.ExprRef) and isinstance(vb, z3.ExprRef):
                    return z3.If(c, va, vb)
                return va if va is vb else ("ite", c, va, vb)
            self.run([s_], st)
        return None

    def is_none(self, src, node, st):
        raise VCError(f"needs contract: {src} is None")

    def length_of(self, v, st, axis=0):
        raise VCError(f"needs contract: length of {v}")

    # ---- statements
    class State:
        def __init__(self):
            self.env = {}
            self.assm = []
            self.ghost = {}

        def copy(self):
            s = VC.State()
            s.env = dict(self.env)
            s.assm = list(self.assm)
            s.ghost = dict(self.ghost)
            return s

    def run(self, stmts, st):
        for s in stmts:
            if isinstance(s, ast.Expr) and isinstance(s.value, ast.Constant):
                continue
            if (isinstance(s, ast.Assign) and len(s.targets) == 1 and isinstance(s.targets[0], ast.Name) and isinstance(s.value, ast.BinOp)
                    and isinstance(s.value.left, ast.Name) and s.value.left.id == s.targets[0].id and s.targets[0].id in st.env
                    and isinstance(s.value.op, (ast.Add, ast.Sub, ast.Mult, ast.Div))):
                # `x = x + v` is the same statement as `x += v` (for the scalars and fresh accumulators of the verified subset)
                s = ast.copy_location(ast.AugAssign(target=s.targets[0], op=s.value.op, value=s.value.right), s)
            if isinstance(s, ast.Assign):
                v = self.ev(s.value, st)
                tgt = s.targets[0]
                if isinstance(tgt, ast.Name):
                    st.env[tgt.id] = v
                elif isinstance(tgt, ast.Tuple):
                    for t, x in zip(tgt.elts, v):
                        st.env[t.id] = x
                else:
                    raise VCError("unsupported assignment target")
            elif isinstance(s, ast.AugAssign):
                cur = st.env[s.target.id]
                v = self.ev(s.value, st)
                if isinstance(cur, z3.ExprRef) and isinstance(v, z3.ExprRef) and isinstance(s.op, ast.Add):
                    st.env[s.target.id] = cur + v
                else:
                    st.env[s.target.id] = self.augassign(s.target.id, type(s.op).__name__, cur, v, st)
            elif isinstance(s, ast.If):
                c = self.ev(s.test, st)
                if c is True:
                    self.run(s.body, st)
                elif c is False:
                    self.run(s.orelse, st)
                else:
                    a, b = st.copy(), st.copy()
                    a.assm.append(c)
                    b.assm.append(z3.Not(c))
                    self.run(s.body, a)
                    self.run(s.orelse, b)
                    # merge: variables assigned on either side
                    for k in set(a.env) | set(b.env):
                        va, vb = a.env.get(k), b.env.get(k)
                        if va is vb or (k in st.env and va is st.env[k] and vb is st.env[k]):
                            st.env[k] = va
                        elif isinstance(va, z3.ExprRef) and isinstance(vb, z3.ExprRef):
                            st.env[k] = z3.If(c, va, vb)
                        else:
                            st.env[k] = ("ite", c, va, vb)
                    st.ghost = a.ghost if a.ghost == b.ghost else st.ghost
            elif isinstance(s, ast.While):
                self.loop_ord += 1
                o = self.loop_ord
                for k, g in self.invariant(st, o):
                    self.prove(f"loop{o} invariant holds on entry: {k}", st.assm, g)
                assigned = sorted({n.id for n in ast.walk(s) if isinstance(n, ast.Name) and isinstance(n.ctx, ast.Store)})
                self.havoc(st, o, [a for a in assigned if isinstance(st.env.get(a), z3.ExprRef)])
                head = [g for _, g in self.invariant(st, o)]
                guard = self.ev(s.test, st)
                body = st.copy()
                body.assm = st.assm + head + [guard]
                self.vacuity(f"loop{o} body reachable (cover)", body.assm)
                v0 = self.variant(body, o)
                self.run(s.body, body)
                for k, g in self.invariant(body, o):
                    self.prove(f"loop{o} invariant preserved: {k}", body.assm, g)
                v1 = self.variant(body, o)
                if v0 is not None:
                    self.prove(f"loop{o} variant decreases and is bounded", body.assm, z3.And(v1 < v0, v0 >= 0))
                st.assm = st.assm + head + [z3.Not(guard)]
            elif isinstance(s, ast.Expr) and isinstance(s.value, ast.Yield):
                self.on_yield(self.ev(s.value.value, st), st)
            elif isinstance(s, ast.Expr) and isinstance(s.value, ast.Call):
                self.ev(s.value, st)
            elif isinstance(s, ast.Return):
                st.env["__return__"] = self.ev(s.value, st) if s.value is not None else None
            elif isinstance(s, ast.AnnAssign):
                if s.value is not None and isinstance(s.target, ast.Name):
                    st.env[s.target.id] = self.ev(s.value, st)
            elif isinstance(s, ast.Assert):
                # an assert must not be able to fire: proved when its test is within the subset, skipped otherwise
                # (a test outside the subset -- shapes, isinstance -- is left to the bounded native replays)
                try:
                    c = self.ev(s.test, st)
                except VCError:
                    c = None
                if isinstance(c, z3.ExprRef):
                    self._assert_no = getattr(self, "_assert_no", 0) + 1
                    self.prove(f"assert {self._assert_no} cannot fire", st.assm, c)
            elif isinstance(s, ast.Pass):
                pass
            else:
                raise VCError("unsupported statement " + type(s).__name__)

    def augassign(self, name, op, cur, v, st):
        return Opaque("aug:" + op, cur, v)

    def binop(self, op, l, r, st):
        return Opaque("binop:" + op, l, r)
