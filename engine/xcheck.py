"""Second opinion on SMT verdicts (assumption A8): every `unsat` that z3 5.1 (Python API) returns for a proof
obligation is re-submitted, as the SMT-LIB text of the very same assertion stack, to independent solver binaries:
cvc5 (/usr/bin/cvc5) first, then the older, separately built z3 4.8 (/usr/bin/z3) when cvc5 answers unknown.

  verdict  'agree:<solver>'      the other solver also says unsat
           'open'                no other solver decided within its budget (z3 5.1 stands alone; counted and reported)
           'DISAGREE:<solver>'   another solver found the negated obligation satisfiable -> the obligation must not be
                                 counted as proved (callers turn it into UNDECIDED, backend 'solver-disagreement')

Never turns anything into a violation. Disabled with VERIF_NO_XCHECK=1 (debugging only; the evidence then says so).
"""
import os
import shutil
import subprocess
import tempfile

CVC5 = shutil.which("cvc5") or "/usr/bin/cvc5"
Z3OLD = "/usr/bin/z3"
CVC5_BUDGET_S = 2
ENABLED = not os.environ.get("VERIF_NO_XCHECK")
_STREAK = [0]
STATS = {"asked": 0, "agree:cvc5": 0, "agree:z3-4.8": 0, "open": 0, "disagree": 0}


def _run(cmd, timeout_s):
    try:
        p = subprocess.run(cmd, capture_output=True, text=True, timeout=timeout_s + 5)
    except subprocess.TimeoutExpired:
        return "timeout"
    out = (p.stdout or "").strip().split("\n")
    for line in out:
        line = line.strip()
        if line in ("sat", "unsat", "unknown"):
            return line
    return "error"


def smt2_text(solver):
    txt = solver.to_smt2()
    if "(set-logic" not in txt:
        txt = "(set-logic ALL)\n" + txt
    return txt


def second_opinion(solver, timeout_s=10):
    """solver: a z3.Solver whose current assertion stack z3 has just found unsat."""
    if not ENABLED:
        return "disabled"
    STATS["asked"] += 1
    txt = smt2_text(solver)
    fd, path = tempfile.mkstemp(suffix=".smt2", prefix="xchk_")
    try:
        with os.fdopen(fd, "w") as fh:
            fh.write(txt)
        verdicts = []
        if os.path.exists(CVC5) and _STREAK[0] < 3:
            # (after three undecided answers in a row in this process -- one contract task -- cvc5 is not asked again)
            # cvc5 decides the linear integer / real obligations in milliseconds and mostly gives up on the non-linear ones:
            # a short budget first, the separately built z3 4.8 after it
            r = _run([CVC5, f"--tlimit={int(min(timeout_s, CVC5_BUDGET_S) * 1000)}", path], min(timeout_s, CVC5_BUDGET_S))
            verdicts.append(("cvc5", r))
            _STREAK[0] = 0 if r in ("sat", "unsat") else _STREAK[0] + 1
            if r == "unsat":
                STATS["agree:cvc5"] += 1
                return "agree:cvc5"
            if r == "sat":
                STATS["disagree"] += 1
                return "DISAGREE:cvc5"
        if os.path.exists(Z3OLD):
            r = _run([Z3OLD, f"-T:{int(timeout_s)}", path], timeout_s)
            verdicts.append(("z3-4.8", r))
            if r == "unsat":
                STATS["agree:z3-4.8"] += 1
                return "agree:z3-4.8"
            if r == "sat":
                STATS["disagree"] += 1
                return "DISAGREE:z3-4.8"
        STATS["open"] += 1
        return "open"
    finally:
        try:
            os.unlink(path)
        except OSError:
            pass


def summarise(obs):
    """evidence counters from the 'xcheck' detail of obligations (works across the process pool)."""
    c = {"asked": 0, "agree:cvc5": 0, "agree:z3-4.8": 0, "open": 0, "disagree": 0}
    for o in obs:
        x = (o.detail or {}).get("xcheck")
        for v in (x if isinstance(x, list) else [x] if x else []):
            c["asked"] += 1
            if v.startswith("agree:"):
                c[v] = c.get(v, 0) + 1
            elif v.startswith("DISAGREE"):
                c["disagree"] += 1
            elif v == "open":
                c["open"] += 1
    return c
