"""Contracts for the invariances and bounds of the GEMINI scores (property C13), on the real evaluate().

perm-rows   evaluate(S P, S A S^T) == evaluate(P, A), gradient rows permuted        (adjacent transpositions S)
perm-cols   evaluate(P C, A) == evaluate(P, A), gradient columns permuted            (adjacent transpositions C)
            -- adjacent transpositions generate the symmetric groups (lemma L8)
indep       all rows of P equal (one symbolic simplex vector)  =>  score == 0 (1/2 for chi-square)
empty       an extra all-zero column (empty cluster) gets exactly zero gradient
onehot      on one-hot rows (closed simplex) every denominator / log / sqrt argument stays in its
            domain and no non-finite value reaches the score or the gradient
"""
import numpy as np

from .common import *  # noqa
from .gemini_eval import EmdStub, CLASSES
from specs import gemini as spec
import gemclus.gemini._fdivergences as FD
import gemclus.gemini._geomdistances as GD
from gemclus import gemini as G


class CachedEmd(EmdStub):
    """emd2 contract + determinism: equal arguments give the same cost and potentials; swapping the
    two marginals swaps the potentials (symmetric cost matrix)."""

    def emd2(self, a, b, M, log=False, **kw):
        self.options += sorted(kw)
        ka = tuple(nf.pkey(nf.nf(sx.lift(x))) for x in a)
        kb = tuple(nf.pkey(nf.nf(sx.lift(x))) for x in b)
        self.cache = getattr(self, "cache", {})
        if ka == kb and (ka, kb) not in self.cache:
            # identical marginals: W = 0 for a metric cost (zero self-distance); potentials u, -u
            n = len(a)
            u = np.array([self.ctx.var(f"emd{len(self.cache)}_s{j}") for j in range(n)], dtype=object)
            self.cache[(ka, kb)] = (sx.Sx(dag.ZERO), u, -u)
        if (ka, kb) in self.cache:
            c, u, v = self.cache[(ka, kb)]
        elif (kb, ka) in self.cache:
            c, v, u = self.cache[(kb, ka)]
        else:
            r = super().emd2(a, b, M, log=True)
            c, u, v = r[0], r[1]["u"], r[1]["v"]
            self.cache[(ka, kb)] = (c, u, v)
        return (c, {"u": u, "v": v}) if log else c


class Invariance(SxContract):
    def __init__(self, cls, ovo, n, K, what):
        self.cls, self.ovo, self.n, self.K, self.what = cls, ovo, n, K, what
        self.fn = f"gemclus.gemini.{cls}.evaluate"
        self.label = f"{cls}.evaluate[{'ovo' if ovo else 'ova'},n={n},K={K},{what}]"
        self.needA = cls in ("MMDGEMINI", "WassersteinGEMINI")

    def patches(self):
        p = np_patches(FD, GD)
        if self.cls == "WassersteinGEMINI":
            p.append((GD, "ot", self.stub))
        return p

    def build(self, ctx):
        n, K = self.n, self.K
        self.stub = CachedEmd(ctx)
        eps = symbolic_eps(ctx, K + 1)
        if self.what == "indep":
            row = simplex_reduced(ctx, 1, K, eps=eps, name="q")
            P = np.vstack([row] * n)
        elif self.what in ("onehot", "duplicates"):
            P = np.empty((n, K), dtype=object)
            for i in range(n):
                for k in range(K):
                    P[i, k] = sx.Sx(dag.const(1 if k == (i % K if self.what == "onehot" else (i // 2) % K) else 0))
        elif self.what in ("empty", "empty2", "empty-perm"):
            extra = 2 if self.what == "empty2" else 1      # one / two empty clusters (two are identical: zero distance)
            P0 = simplex_reduced(ctx, n, K, eps=eps)
            P = np.empty((n, K + extra), dtype=object)
            P[:, :K] = P0
            P[:, K:] = sx.Sx(dag.ZERO)
        else:
            P = simplex_reduced(ctx, n, K, eps=eps)
        A = sx.sym_symmetric(ctx, "a", n, lo=-1.0, hi=2.0) if self.needA else None
        if self.what == "duplicates" and A is not None:
            # samples 2i and 2i+1 are identical: equal rows / columns of the affinity
            for i in range(0, n - 1, 2):
                A[i + 1, :] = A[i, :]
                A[:, i + 1] = A[:, i]
                A[i + 1, i + 1] = A[i, i]
                A[i, i + 1] = A[i + 1, i] = A[i, i]
        self.g = getattr(G, self.cls)(ovo=self.ovo)
        self.g.epsilon = eps
        return {"P": P, "A": A}

    def _eval(self, P, A, fresh=False):
        # fresh: P is already a new array (the result of an indexing expression) and is handed in as NumPy produced it --
        # P[:, perm] is column-major, which is how a relabelled prediction matrix reaches evaluate in practice
        self.stub.calls = []
        return self.g.evaluate(P if fresh else P.copy(), None if A is None else A.copy(), return_grad=True)

    def body(self, inp):
        P, A = inp["P"], inp["A"]
        out = {"base": self._eval(P, A), "perm": []}
        n, K = P.shape
        if self.what == "perm-rows":
            for i in range(n - 1):
                idx = list(range(n))
                idx[i], idx[i + 1] = idx[i + 1], idx[i]
                out["perm"].append((idx, self._eval(P[idx], None if A is None else A[idx][:, idx], fresh=True)))
        if self.what in ("perm-cols", "empty-perm"):      # empty-perm: relabelling when one of the clusters is empty
            for k in range(K - 1):
                idx = list(range(K))
                idx[k], idx[k + 1] = idx[k + 1], idx[k]
                out["perm"].append((idx, self._eval(P[:, idx], A, fresh=True)))
        return out

    def ensures(self, inp, out):
        s0, g0 = out["base"]
        P = inp["P"]
        n, K = P.shape
        if self.cls == "WassersteinGEMINI":
            yield ("ot.emd2 is called with the library's default solver options (precondition of its assumed optimality contract: no iteration cap, "
                   "no alternative solver)"), prove.holds(not self.stub.options, f"options passed: {sorted(set(self.stub.options))}")
        if self.what == "perm-rows":
            for idx, (s, g) in out["perm"]:
                yield f"score invariant under row swap {idx}", prove.eq(s, s0)
                for i in range(n):
                    for k in range(K):
                        yield f"grad equivariant under row swap {idx} [{i},{k}]", prove.eq(g[i, k], g0[idx[i], k], smooth_only=True)
        elif self.what in ("perm-cols", "empty-perm"):
            for idx, (s, g) in out["perm"]:
                yield f"score invariant under cluster swap {idx}", prove.eq(s, s0)
                for i in range(n):
                    for k in range(K):
                        yield f"grad equivariant under cluster swap {idx} [{i},{k}]", prove.eq(g[i, k], g0[i, idx[k]], smooth_only=True)
        elif self.what == "indep":
            want = dag.const(Q(1, 2)) if self.cls == "ChiSquareGEMINI" else dag.ZERO
            yield "score at independence", prove.eq(s0, want)
        elif self.what in ("empty", "empty2"):
            yield "grad shape", prove.holds(getattr(g0, "shape", None) == P.shape)
            fin = not (sx.lift(s0) is sx.TOK or any(sx.lift(x) is sx.TOK for x in np.asarray(g0, dtype=object).flat))
            yield "score and gradient finite (no non-finite value reaches them)", prove.holds(fin)
            if fin:
                for i in range(n):
                    for k in range(self.K, K):
                        yield f"empty cluster gradient [{i},{k}] == 0", prove.eq(g0[i, k], 0)
        elif self.what in ("onehot", "duplicates"):
            yield "grad shape", prove.holds(getattr(g0, "shape", None) == P.shape, f"{getattr(g0, 'shape', None)} vs {P.shape}")
            fin = not (sx.lift(s0) is sx.TOK or any(sx.lift(x) is sx.TOK for x in np.asarray(g0, dtype=object).flat))
            yield "score and gradient finite (no non-finite value reaches them)", prove.holds(fin)

    def native(self, env, inp):
        """float replay of the shape / finiteness clauses on the real evaluate"""
        P = sx.to_float(inp["P"], env)
        A = None if inp["A"] is None else sx.to_float(inp["A"], env)
        g = getattr(G, self.cls)(ovo=self.ovo)
        s, gr = g.evaluate(P, A, return_grad=True)
        ok = np.shape(gr) == P.shape and bool(np.isfinite(s)) and bool(np.all(np.isfinite(gr)))
        det = {"P": P.tolist(), "grad_shape": list(np.shape(gr)), "score": float(s)}
        return {"grad shape": (np.shape(gr) == P.shape, det), "*": (ok, det)}


from fractions import Fraction as Q  # noqa: E402


def task(cls, ovo, n, K, what, seed=0):
    return run_sx(Invariance(cls, ovo, n, K, what), seed=seed)


# ------------------------------------------------------------------ B tier: interval-free numerics at eps = 1e-12
def bounded():
    """log K for balanced hard partitions, score unchanged by an empty cluster, bounds -- native float64,
    labelled B (statements hold up to O(eps log 1/eps), not as identities)."""
    obs = []
    rs = np.random.RandomState(0)
    for name in G.AVAILABLE_GEMINIS:
        if name.startswith("wasserstein"):
            aff = lambda X: np.abs(X[:, None, 0] - X[None, :, 0])
        else:
            aff = lambda X: X @ X.T
        from gemclus.gemini._utils import _str_to_gemini
        g = _str_to_gemini(name)
        for K in (2, 3, 4):
            n = 2 * K
            X = rs.normal(size=(n, 2))
            A = aff(X)
            P = np.zeros((n, K))
            P[np.arange(n), np.arange(n) % K] = 1.0
            s, gr = g(P, A, return_grad=True)
            ok = bool(np.isfinite(s) and np.all(np.isfinite(gr)) and s >= -1e-9)
            det = {"score": float(s)}
            if name in ("mi", "kl_ova"):
                ok = ok and abs(float(s) - np.log(K)) < 1e-9
                det["logK"] = float(np.log(K))
            if name.startswith("tv") or name.startswith("hellinger"):
                ok = ok and float(s) <= 1 + 1e-9
            Pe = np.hstack([P, np.zeros((n, 1))])
            se, ge = g(Pe, A, return_grad=True)
            ok = ok and abs(float(se) - float(s)) < 1e-8 * (1 + abs(float(s))) and bool(np.all(ge[:, -1] == 0))
            det["score_with_empty_cluster"] = float(se)
            Ps = rs.dirichlet(np.ones(K), size=n)
            ss = float(g(Ps, A))
            ok = ok and ss >= -1e-9
            obs.append(Ob(f"bounds[{name},K={K}]: finite, >=0, logK / <=1, empty cluster leaves the score (rel 1e-8)",
                          PROVED if ok else REFUTED, "native-float64", "B", {**det, "replayed": True},
                          fn="gemclus.gemini.evaluate"))
    return obs
