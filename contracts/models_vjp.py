"""Contracts on _infer / _compute_grads of every gradient-trained model family (property C03, part 1-2).

requires  X arbitrary real (n x d), parameters theta arbitrary real, upstream matrix G arbitrary real
          (n x K), forward state retained by _infer(X) on the same X
ensures   len(result) == len(_get_weights()), shapes equal, and for every parameter entry
              result[j][idx] == - d/d theta_j[idx]  sum_ik G[i,k] * _infer(X)[i,k]   (+ penalty gradient)
          i.e. the direction handed to the optimiser is the negative gradient (the optimiser minimises),
          entry by entry -- no parameter receives another parameter's gradient or other samples' rows.
All ReLU activation patterns / Douglas cut orderings at the shape are explored by the fork engine.
"""
import numpy as np

from .common import *  # noqa
import gemclus.linear._linear_geminis as LG
import gemclus.mlp._mlp_geminis as MG
import gemclus.sparse._mlp_sparse as SM
import gemclus.sparse._linear_sparse as SL
import gemclus.nonparametric._categorical_models as CM
import gemclus.tree.douglas as DG

MODS = (LG, MG, SM, SL, CM, DG)


def std_patches():
    p = np_patches(*MODS)
    for m in MODS:
        if hasattr(m, "softmax"):
            p.append((m, "softmax", sx.softmax_stub))
    return p


class VJP(SxContract):
    """family in linear | mlp | sparse_mlp | sparse_linear | categorical | douglas | kernel_rim"""
    max_paths = 5000

    def __init__(self, family, shape, variant=""):
        self.family, self.shape, self.variant = family, shape, variant
        self.label = f"{family}._compute_grads[{','.join(f'{k}={v}' for k, v in shape.items())}{',' + variant if variant else ''}]"
        self.fn = {"linear": "gemclus.linear._linear_geminis.LinearModel._compute_grads",
                   "mlp": "gemclus.mlp._mlp_geminis.MLPModel._compute_grads",
                   "sparse_mlp": "gemclus.sparse._mlp_sparse.SparseMLPModel._compute_grads",
                   "sparse_linear": "gemclus.linear._linear_geminis.LinearModel._compute_grads",
                   "categorical": "gemclus.nonparametric._categorical_models.CategoricalModel._compute_grads",
                   "douglas": "gemclus.tree.douglas.Douglas._compute_grads",
                   "kernel_rim": "gemclus.linear._linear_geminis.KernelRIM._compute_grads"}[family]

    def patches(self):
        return std_patches()

    def build(self, ctx):
        s = self.shape
        n, d, K = s.get("n", len(s.get("idx", ()))), s.get("d", 1), s["K"]
        f = self.family
        self.penalty = None
        X = sx.sym_array(ctx, "x", (n, d))
        G = sx.sym_array(ctx, "g", (n, K))
        if f in ("linear", "sparse_linear"):
            cls = LG.LinearModel if f == "linear" else SL.SparseLinearModel
            m = cls(n_clusters=K)
            m.W_ = sx.sym_array(ctx, "w", (d, K))
            m.b_ = sx.sym_array(ctx, "b", (1, K))
        elif f == "kernel_rim":
            # X is a batch of rows of the (symmetric) training kernel; W_ has one row per training sample
            N = s["N"]
            Kt = sx.sym_symmetric(ctx, "k", N)
            idx = list(s["idx"])
            X = Kt[idx]
            n = len(idx)
            G = sx.sym_array(ctx, "g", (n, K))
            m = LG.KernelRIM(n_clusters=K)
            m.reg = ctx.var("reg", "+", lo=0.05, hi=1.0)
            m._training_kernel = Kt          # state KernelRIM.fit retains before training starts
            m.W_ = sx.sym_array(ctx, "w", (N, K))
            m.b_ = sx.sym_array(ctx, "b", (1, K))
            # documented penalty: kernel-weighted l2  reg * tr(W^T K_train W)
            pen = dag.ZERO
            for a in range(N):
                for b in range(N):
                    for k in range(K):
                        pen = dag.add(pen, dag.mul(dag.mul(m.W_[a, k].n, Kt[a, b].n), m.W_[b, k].n))
            self.penalty = dag.mul(m.reg.n, pen)
        elif f == "mlp":
            h = s["h"]
            m = MG.MLPModel(n_clusters=K, n_hidden_dim=h)
            m.W1_ = sx.sym_array(ctx, "u", (d, h))
            m.b1_ = sx.sym_array(ctx, "c", (1, h))
            m.W2_ = sx.sym_array(ctx, "v", (h, K))
            m.b2_ = sx.sym_array(ctx, "e", (1, K))
        elif f == "sparse_mlp":
            h = s["h"]
            m = SM.SparseMLPModel(n_clusters=K, n_hidden_dim=h)
            m.W1_ = sx.sym_array(ctx, "u", (d, h))
            m.b1_ = sx.sym_array(ctx, "c", (1, h))
            m.W2_ = sx.sym_array(ctx, "v", (h, K))
            m.b2_ = sx.sym_array(ctx, "e", (1, K))
            m.W_skip_ = sx.sym_array(ctx, "s", (d, K))
            if self.variant == "eliminated0":
                # feature 0 was eliminated by the proximal step: its skip and first-layer rows are exact zeros -- the direction handed to
                # the optimiser for these rows is still the derivative (they may come back); single sample, so that the derivative
                # w.r.t. a row entry is x[0,0] times the derivative w.r.t. the bias entering the same unit
                m.W_skip_[0, :] = sx.Sx(dag.ZERO)
                m.W1_[0, :] = sx.Sx(dag.ZERO)
        elif f == "categorical":
            m = CM.CategoricalModel(n_clusters=K)
            m.logits_ = sx.sym_array(ctx, "l", (n, K))
        elif f == "douglas":
            nc = s["cuts"]
            m = DG.Douglas(n_clusters=K, n_cuts=nc)
            m.temperature = ctx.var("T", "+", lo=0.05, hi=1.5)
            m.cut_points_list_ = [(j, sx.sym_array(ctx, f"cut{j}", (nc,))) for j in range(d)]
            m.leaf_scores_ = sx.sym_array(ctx, "ls", ((nc + 1) ** d, K))
        else:
            raise ValueError(f)
        self.model = m
        return {"X": X, "G": G}

    def _lay(self, a):
        # variant "column-major": data, predictions and incoming gradient handed in Fortran order (check_array keeps the caller's
        # layout; an in-place shortcut through a transposed view only shows with such inputs)
        return np.asfortranarray(a.copy()) if self.variant == "column-major" else a.copy()

    def body(self, inp):
        m = self.model
        y = m._infer(self._lay(inp["X"]))
        grads = m._compute_grads(self._lay(inp["X"]), self._lay(y) if self.variant == "column-major" else y, self._lay(inp["G"]))
        return {"y": y, "grads": grads, "weights": m._get_weights()}

    def ensures(self, inp, out):
        G, y, grads, W = inp["G"], out["y"], out["grads"], out["weights"]
        yield "len(grads)==len(weights)", prove.holds(len(grads) == len(W), f"{len(grads)} vs {len(W)}")
        if len(grads) != len(W):
            return
        obj = dag.ZERO
        for i in range(G.shape[0]):
            for k in range(G.shape[1]):
                obj = dag.add(obj, dag.mul(G[i, k].n, sx.lift(y[i, k])))
        if self.penalty is not None:
            obj = dag.sub(obj, self.penalty)          # maximise GEMINI minus penalty
        for j, (w, g) in enumerate(zip(W, grads)):
            ok = getattr(g, "shape", None) == w.shape
            yield f"grads[{j}].shape", prove.holds(ok, f"{getattr(g, 'shape', None)} vs {w.shape}")
            if not ok:
                continue
            for idx in np.ndindex(*w.shape):
                if self.variant == "eliminated0" and w[idx].n.op != "v":
                    # an exactly-zero row entry: W1_[0,a] enters unit a like b1_[0,a] scaled by x[0,0]; W_skip_[0,k] like b2_[0,k]
                    bias = self.model.b1_ if w is self.model.W1_ else self.model.b2_
                    lhs = dag.mul(sx.lift(inp["X"][0, 0]), dag.diff(obj, bias[0, idx[1]].n.args[0], {}))
                    yield f"direction[{j}]{list(idx)} of the eliminated feature == -x[0,0] * d/d bias", prove.eq(dag.neg(lhs), g[idx], smooth_only=True)
                    continue
                name = w[idx].n.args[0]
                lhs = dag.diff(obj, name, {})
                yield f"direction[{j}]{list(idx)}==-d/d{name}", prove.eq(dag.neg(lhs), g[idx], smooth_only=True)

    def native(self, env, inp):
        """float replay of the real code: central differences of sum G*_infer(X) w.r.t. each parameter."""
        import copy
        m = self.model
        X = sx.to_float(inp["X"], env)
        G = sx.to_float(inp["G"], env)
        mf = copy.copy(m)
        names = [a for a in ("W_", "b_", "W1_", "b1_", "W2_", "b2_", "W_skip_", "logits_", "leaf_scores_") if hasattr(m, a)]
        for a in names:
            setattr(mf, a, sx.to_float(getattr(m, a), env))
        if hasattr(m, "_training_kernel"):
            mf._training_kernel = sx.to_float(m._training_kernel, env)
        if hasattr(m, "cut_points_list_"):
            mf.cut_points_list_ = [(j, sx.to_float(c, env)) for j, c in m.cut_points_list_]
            mf.temperature = float(env["T"])
        if self.family == "kernel_rim":
            mf.reg = float(env["reg"])
        pen = (lambda: float(dag.fev(self.penalty, self._env(mf, env)))) if self.penalty is not None else (lambda: 0.0)
        y = mf._infer(self._lay(X))
        grads = mf._compute_grads(self._lay(X), self._lay(y) if self.variant == "column-major" else y, self._lay(G))
        W = mf._get_weights()
        res = {}
        h = 1e-6

        def objective():
            return float((G * mf._infer(X.copy(), retain=False)).sum()) - pen()
        for j, (w, g) in enumerate(zip(W, grads)):
            g = np.asarray(g, dtype=float)
            if g.shape != w.shape:
                res[f"grads[{j}].shape"] = (False, {"got": list(g.shape), "want": list(w.shape)})
                continue
            for idx in np.ndindex(*w.shape):
                old = w[idx]
                w[idx] = old + h
                fp = objective()
                w[idx] = old - h
                fm = objective()
                w[idx] = old
                fd = (fp - fm) / (2 * h)
                nm = f"direction[{j}]{list(idx)}"
                ok = abs(-fd - g[idx]) <= 1e-5 * (1 + abs(fd) + abs(g[idx]))
                for key in (k for k in [nm]):
                    res[key] = (ok, {"param": j, "index": list(idx), "minus_finite_difference": -fd, "code": float(g[idx]),
                                     "X": X.tolist(), "G": G.tolist(),
                                     "weights": [np.asarray(x).tolist() for x in W]})
        # names in ensures carry the variable name suffix: map by prefix
        return _PrefixDict(res)

    def _env(self, mf, env):
        e = dict(env)
        W = mf._get_weights()
        for idx in np.ndindex(*W[0].shape):
            e["w_" + "_".join(map(str, idx))] = float(W[0][idx])
        return e


class _PrefixDict(dict):
    def get(self, k, default=None):
        if k in self:
            return dict.get(self, k)
        for kk in self:
            if k.startswith(kk + "=="):
                return dict.get(self, kk)
        return default


def task(family, shape, variant="", seed=0):
    return run_sx(VJP(family, dict(shape), variant), seed=seed)


class _RecOptimiser:
    learning_rate = 1.0

    def __init__(self):
        self.calls = []

    def update_params(self, params, grads):
        self.calls.append((params, [np.array(g, dtype=object, copy=True) for g in grads]))
        self.seen = [np.array(p, dtype=object, copy=True) for p in params]      # the parameters as the optimiser finds them


class RIMUpdate(SxContract):
    """RIM._update_weights(weights, gradients): the direction reaching the optimiser is
    gradients + d/dW [reg * ||W||^2] on the weight matrix and unchanged on the bias (documented l2 penalty)."""
    float_replay = True
    fn = "gemclus.linear._linear_geminis.RIM._update_weights"

    def __init__(self, d, K, solver="adam"):
        self.d, self.K, self.solver = d, K, solver
        self.label = f"RIM._update_weights[d={d},K={K}" + ("" if solver == "adam" else f",solver={solver}") + "]"

    def patches(self):
        return std_patches()

    def build(self, ctx):
        m = LG.RIM(n_clusters=self.K, solver=self.solver)
        m.reg = ctx.var("reg", "+", lo=0.05, hi=1.0)
        self.lr = ctx.var("lr", "+", lo=0.001, hi=0.5)
        m.W_ = sx.sym_array(ctx, "w", (self.d, self.K))
        m.b_ = sx.sym_array(ctx, "b", (1, self.K))
        self.model = m
        return {"gW": sx.sym_array(ctx, "gw", (self.d, self.K)), "gb": sx.sym_array(ctx, "gb", (1, self.K))}

    def body(self, inp):
        m = self.model
        m.optimiser_ = _RecOptimiser()
        m.optimiser_.learning_rate = self.lr
        weights = m._get_weights()
        before = [np.array(w, dtype=object, copy=True) for w in weights]
        m._update_weights(weights, [inp["gW"].copy(), inp["gb"].copy()])
        return {"calls": m.optimiser_.calls, "weights": weights, "before": before, "seen": getattr(m.optimiser_, "seen", None)}

    def ensures(self, inp, out):
        calls = out["calls"]
        yield "one optimiser step", prove.holds(len(calls) == 1)
        if len(calls) != 1:
            return
        params, grads = calls[0]
        yield "optimiser receives the model's weight list", prove.holds(params is out["weights"])
        m = self.model
        pen = dag.ZERO
        for idx in np.ndindex(*m.W_.shape):
            pen = dag.add(pen, dag.mul(m.W_[idx].n, m.W_[idx].n))
        pen = dag.mul(m.reg.n, pen)
        for idx in np.ndindex(*m.W_.shape):
            want = dag.add(inp["gW"][idx].n, dag.diff(pen, m.W_[idx].n.args[0], {}))
            yield f"direction[0]{list(idx)}==grad+d penalty", prove.eq(grads[0][idx], want)
        for idx in np.ndindex(*m.b_.shape):
            yield f"direction[1]{list(idx)} unchanged", prove.eq(grads[1][idx], inp["gb"][idx])
        # the parameters move only through the optimiser: they reach it with the values they had on entry
        for j, (b0, b1) in enumerate(zip(out["before"], out["seen"] or [])):
            for idx in np.ndindex(*b0.shape):
                yield f"parameter[{j}]{list(idx)} untouched before the optimiser step", prove.eq(b1[idx], b0[idx])


def task_rim(d, K, seed=0, solver="adam"):
    return run_sx(RIMUpdate(d, K, solver), seed=seed)
