"""Ob wrappers around the bounded run-time harness (contracts/rt_fits.py)."""
from .common import *  # noqa
from . import rt_fits as R


def lattice_obligations(seed, tier):
    res = R.lattice(seed, tier)
    obs = []
    for name, (nfit, fails) in res.items():
        obs.append(Ob(f"{name}: {nfit} valid configurations (GEMINIs x solvers x batch sizes 1..n+1/None x OvA/OvO x kernels/metrics x groups x cuts x tree limits) fit "
                      "without raising and yield a coherent model (labels range, probability rows, predict = argmax = labels_, score = GEMINI(predict_proba), n_iter_, optimiser)",
                      PROVED if not fails and nfit > 0 else REFUTED, "native", "B", {"fits": nfit, "failing": fails[:3], "replayed": True}, fn=f"{name}.fit"))
    return obs


def degenerate_obligations(seed, tier):
    res = R.degenerate(seed, tier)
    obs = []
    for name, (nfit, fails) in res.items():
        obs.append(Ob(f"{name}: {nfit} fits on degenerate / badly scaled legal inputs (x30, x1000, constant or duplicated columns, duplicated samples, identical samples, "
                      "n_clusters in {1, n}, one-sample batches) complete with finite parameters, probabilities and scores",
                      PROVED if not fails and nfit > 0 else REFUTED, "native", "B", {"fits": nfit, "failing": fails[:3], "replayed": True}, fn=f"{name}.fit"))
    return obs


def int_data_obligations(seed):
    obs = []
    for name, (ok, det) in R.int_data(seed).items():
        obs.append(Ob(f"{name}: integer-typed data gives the same fitted model as its float copy", PROVED if ok else REFUTED, "native", "B",
                      dict(det, replayed=not ok), fn=f"{name}.fit"))
    return obs


def offset_data_obligations(seed):
    obs = []
    for name, fails in R.offset_data(seed).items():
        obs.append(Ob(f"{name}: data of large range (two groups 1e5 apart) still yields a coherent model", PROVED if not fails else REFUTED, "native", "B",
                      {"failing": fails[:2], "replayed": bool(fails)}, fn=f"{name}.fit"))
    return obs


def mlcl_degenerate_obligations(seed):
    obs = []
    for name, fails in R.mlcl_degenerate(seed).items():
        obs.append(Ob(f"{name} + must-link / cannot-link on duplicated or saturated pairs: finite parameters, probabilities and scores", PROVED if not fails else REFUTED,
                      "native", "B", {"failing": fails[:2], "replayed": bool(fails)}, fn="gemclus.mlcl.add_mlcl_constraint"))
    return obs


def ladder_obligations(seed, tier):
    obs = []
    for name, (nfit, fails) in R.ladder(seed, tier).items():
        obs.append(Ob(f"size ladder: {name}: {nfit} fits at larger / awkward sizes (41 samples in batches of 20, 90 in batches of 25, 300 samples whole and in batches of 128, "
                      "12 features) yield a coherent model and take exactly max_iter * ceil(n / batch_size) optimiser steps",
                      PROVED if not fails and nfit > 0 else REFUTED, "native", "B", {"fits": nfit, "failing": fails[:3], "replayed": True}, fn=f"{name}.fit"))
    return obs
