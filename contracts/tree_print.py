"""Contract on gemclus.tree.kauri.print_kauri_tree (property C19).

For every array-encoded tree with <= L leaves (built with the real Tree API), every assignment of features,
symbolic thresholds (printed as tokens) and symbolic query points: the printed text, read back by an independent
reader of its grammar
    <indent>Node <id> / <indent> Cluster: <c> / <indent>|=<name> <= <t> ... / <indent>|=<name> > <t> ...
(indent = "| " * depth) and applied to a point, yields the cluster Tree.predict assigns to it; the printed name
of a node is feature_names[feature] (or X[:, feature]); name lists too short for the features used are rejected;
unfitted and foreign objects are refused.
"""
import contextlib
import io
import itertools
import re

import numpy as np

from .common import *  # noqa
from gemclus.tree import kauri as KA
from .tree_predict import split_sequences, build_tree


def fitted_model(tree):
    m = KA.Kauri()
    m.tree_ = tree
    m.labels_ = np.zeros(1, dtype=int)
    m.leaves_ = np.zeros(1, dtype=int)
    m.n_features_in_ = 3
    return m


class PrintedTree:
    """independent reader of the printed grammar"""

    def __init__(self, text):
        self.lines = [l for l in text.split("\n") if l.strip() != ""]
        self.pos = 0
        self.root = self.node(0)
        if self.pos != len(self.lines):
            raise ValueError("trailing text")

    def _depth(self, line):
        d = 0
        while line.startswith("| "):
            line = line[2:]
            d += 1
        return d, line

    def node(self, depth):
        d, rest = self._depth(self.lines[self.pos])
        m = re.fullmatch(r"Node (\d+)", rest)
        if not m or d != depth:
            raise ValueError(f"expected 'Node' at depth {depth}: {self.lines[self.pos]!r}")
        self.pos += 1
        d, rest = self._depth(self.lines[self.pos])
        if d != depth:
            raise ValueError("bad indentation")
        m = re.fullmatch(r"\s*Cluster: (-?\d+)", rest)
        if m:
            self.pos += 1
            return ("leaf", int(m.group(1)))
        m = re.fullmatch(r"\|=(.*) <= (\S+)", rest)
        if not m:
            raise ValueError(f"expected a rule: {rest!r}")
        name, thr = m.group(1), m.group(2)
        self.pos += 1
        left = self.node(depth + 1)
        d, rest = self._depth(self.lines[self.pos])
        m2 = re.fullmatch(r"\|=(.*) > (\S+)", rest)
        if not m2 or d != depth or m2.group(1) != name or m2.group(2) != thr:
            raise ValueError(f"expected the complementary rule of {name} <= {thr}: {rest!r}")
        self.pos += 1
        right = self.node(depth + 1)
        return ("rule", name, thr, left, right)

    def apply(self, x, name2feature, token2thr):
        n = self.root
        while n[0] == "rule":
            f = name2feature[n[1]]
            n = n[3] if x[f] <= token2thr[n[2]] else n[4]
        return n[1]


class PrintFaithful(SxContract):
    fn = "gemclus.tree.kauri.print_kauri_tree"
    boundaries = True       # <= versus <: points ON a threshold / cut are part of the contract, not a measure-zero set
    safety = False

    def __init__(self, seq, feats, d, names):
        self.seq, self.feats, self.d, self.names = seq, feats, d, names
        self.label = f"print_kauri_tree[splits={list(seq)},features={list(feats)},names={names}]"

    def build(self, ctx):
        thr = [ctx.var(f"t{j}", lo=-1, hi=1) for j in range(len(self.seq))]
        self.thr = thr
        self.tree = build_tree(self.seq, self.feats, thr)
        self.model = fitted_model(self.tree)
        return {"x": sx.sym_array(ctx, "x", (1, self.d), lo=-1.5, hi=1.5)}

    def body(self, inp):
        buf = io.StringIO()
        del sx.FORMAT_LOG[:]
        with contextlib.redirect_stdout(buf):
            KA.print_kauri_tree(self.model, self.names)
        text = buf.getvalue()
        specs = sorted(set(sx.FORMAT_LOG))
        pt = PrintedTree(text)
        tok = {format(t, ""): t for t in self.thr}
        if self.names is None:
            n2f = {f"X[:, {i}]": i for i in range(self.d)}
        else:
            n2f = {nm: i for i, nm in enumerate(self.names)}
        got = pt.apply(inp["x"][0], n2f, tok)
        want = int(self.tree.predict(inp["x"])[0])
        return {"text": text, "read": got, "predict": want, "names_used": sorted({n[1] for n in _rules(pt.root)}), "specs": specs}

    def ensures(self, inp, out):
        yield "printed rules, read back and applied to a point, give the cluster predict assigns", prove.holds(
            out["read"] == out["predict"], f"read {out['read']} predict {out['predict']}\n{out['text']}")
        lossy = [(sp, v) for sp in out["specs"] for v in AWKWARD if float(format(v, sp)) != v]
        yield "thresholds are printed in a form that reads back to the same double (no lossy number format)", prove.holds(
            not lossy, f"format spec {lossy[0][0]!r} prints {lossy[0][1]!r} as {format(lossy[0][1], lossy[0][0])}" if lossy else "")
        used = sorted(set(self.feats))
        want = sorted((self.names[f] if self.names is not None else f"X[:, {f}]") for f in used)
        yield "printed names are those of the features the tree uses", prove.holds(out["names_used"] == want, f"{out['names_used']} vs {want}")


# doubles whose shortest exact decimal form needs 17 significant digits, tiny / huge magnitudes, negative zero-ish values
AWKWARD = [0.1 + 0.2, 7 / 3, 1 / 3, 2 / 3, 1e-7 / 3, 123456.789e3 / 7, -0.1 - 0.2, 5e-324, 1.7976931348623157e308, 0.1, 1e16 + 2.0, 2.5e-5 / 3]


def _native(self, env, inp):
    """float replay on the real printer: thresholds / point from the witness, then the point moved onto every threshold and
    awkward doubles used as thresholds; the text is read back with float() and compared with Tree.predict"""
    x0 = sx.to_float(inp["x"], env)[0]
    thr0 = [float(dag.fev(sx.lift(t), env)) for t in self.thr]
    bad = None
    trials = [thr0] + [[AWKWARD[(j + s_) % len(AWKWARD)] for j in range(len(thr0))] for s_ in range(3)]
    for thr in trials:
        tree = build_tree(self.seq, self.feats, thr)
        model = fitted_model(tree)
        buf = io.StringIO()
        with contextlib.redirect_stdout(buf):
            KA.print_kauri_tree(model, self.names)          # an exception here is a violation with this input (caught by the caller)
        pt = PrintedTree(buf.getvalue())
        n2f = {f"X[:, {i}]": i for i in range(self.d)} if self.names is None else {nm: i for i, nm in enumerate(self.names)}
        points = [x0] + [np.where(np.arange(self.d) == self.feats[j], thr[j], x0) for j in range(len(thr))]
        for x in points:
            node = pt.root
            while node[0] == "rule":
                node = node[3] if x[n2f[node[1]]] <= float(node[2]) else node[4]
            want = int(tree.predict(np.asarray(x, dtype=float)[None, :])[0])
            if node[1] != want and bad is None:
                bad = {"thresholds": thr, "x": [float(v) for v in x], "read back": node[1], "predict": want, "text": buf.getvalue()[:400]}
    ok = bad is None
    return {"*": (ok, bad or {"trials": len(trials)})}


PrintFaithful.native = _native


def _rules(n):
    if n[0] == "rule":
        yield n
        yield from _rules(n[3])
        yield from _rules(n[4])


def task(tier, seed=0):
    obs = []
    L = 3 if tier == "quick" else 4
    d = 3
    for seq in split_sequences(L):
        k = len(seq)
        for feats in itertools.product(range(d), repeat=k):
            if k >= 2 and tier == "quick" and feats[0] == 2:
                continue
            if k == 3 and feats[0] != 0:
                continue
            # user names are arbitrary strings: characters special to str.format / %-formatting / regular expressions included
            for names in (None, ["alpha", "beta", "gamma"], ["$x_{1}$", "100%s {0}", "r.*(x)\\d"]):
                obs.extend(o for o in run_sx(PrintFaithful(seq, feats, d, names), seed=seed) if "paths-explored" not in o.name)
    return obs


def rejection_table():
    """TB: too few names, unfitted and foreign objects (complete small enumeration on the real function)."""
    obs = []
    fn = PrintFaithful.fn

    def runs(model, names):
        buf = io.StringIO()
        try:
            with contextlib.redirect_stdout(buf):
                KA.print_kauri_tree(model, names)
            return None
        except Exception as e:
            return e
    for seq in split_sequences(3):
        for feats in itertools.product(range(3), repeat=len(seq)):
            if not seq:
                continue
            t = build_tree(seq, feats, [0.5 * j for j in range(len(seq))])
            m = fitted_model(t)
            need = max(feats) + 1
            for ln in range(0, 4):
                names = [f"n{i}" for i in range(ln)]
                e = runs(m, names)
                ok = (e is None) if ln >= need else (e is not None)
                obs.append(Ob(f"print_kauri_tree[splits={list(seq)},features={list(feats)},{ln} names]: "
                              + ("accepted" if ln >= need else "rejected (fewer names than the largest used feature index + 1)"),
                              PROVED if ok else REFUTED, "enumeration", "P", {"exception": repr(e), "replayed": True}, fn=fn))
    # one name per input feature is the documented, in-domain argument -- however many splits re-use the same few features
    for seq in split_sequences(4):
        if len(seq) < 3:
            continue
        for feats in ([0] * len(seq), [j % 2 for j in range(len(seq))]):
            t = build_tree(seq, feats, [0.25 * j for j in range(len(seq))])
            m = fitted_model(t)
            m.n_features_in_ = 2
            e = runs(m, ["first", "second"])
            obs.append(Ob(f"print_kauri_tree[splits={list(seq)},features={list(feats)},one name per input feature (2 names, {len(seq)} split nodes)]: accepted",
                          PROVED if e is None else REFUTED, "enumeration", "P", {"exception": repr(e), "replayed": True}, fn=fn))
    # deep trees (any depth is in scope): a chain of 14 splits and a mixed tree of depth 12, printed completely and read back
    rs = np.random.RandomState(0)
    for tag, seq in (("chain of 14 right-child splits (depth 14)", [0] + [2 * j for j in range(1, 14)]),
                     ("chain of 12 left-child splits with side branches (depth 12)", [0] + [2 * j - 1 for j in range(1, 12)] + [2, 4])):
        feats = [j % 3 for j in range(len(seq))]
        thr = [float(v) for v in np.round(rs.normal(size=len(seq)), 3)]
        bad = None
        try:
            t = build_tree(seq, feats, thr)
            buf = io.StringIO()
            with contextlib.redirect_stdout(buf):
                KA.print_kauri_tree(fitted_model(t), ["a", "b", "c"])
            pt = PrintedTree(buf.getvalue())
            pts = rs.normal(size=(200, 3)) * 1.5
            want = t.predict(pts)
            for x, w in zip(pts, want):
                node = pt.root
                while node[0] == "rule":
                    node = node[3] if x[{"a": 0, "b": 1, "c": 2}[node[1]]] <= float(node[2]) else node[4]
                if node[1] != int(w) and bad is None:
                    bad = {"x": x.tolist(), "read back": node[1], "predict": int(w)}
        except Exception as e:
            bad = {"exception": repr(e)[:200], "depth": max(KA.Tree.get_depth(t)) if False else None}
        obs.append(Ob(f"print_kauri_tree[{tag}]: the whole tree is printed; read back on 200 points it gives the cluster predict assigns",
                      PROVED if bad is None else REFUTED, "enumeration", "P", dict(bad or {}, replayed=bad is not None), fn=fn))
    from sklearn.exceptions import NotFittedError
    # a fit that raises on its input leaves no printable / predicting model behind
    for tag, Xbad in (("NaN data", np.array([[0., 1.], [np.nan, 2.], [1., 1.]])), ("1-D data", np.arange(5.)), ("text data", np.array([["a", "b"], ["c", "d"]]))):
        m = KA.Kauri()
        try:
            m.fit(Xbad)
            raised = False
        except Exception:
            raised = True
        e1 = runs(m, None)
        try:
            m.predict(np.zeros((2, 2)))
            e2 = None
        except Exception as ex:
            e2 = ex
        obs.append(Ob(f"print_kauri_tree[Kauri after a fit that raised on {tag}] is refused, and predict raises",
                      PROVED if raised and e1 is not None and e2 is not None else REFUTED, "enumeration", "P",
                      {"fit raised": raised, "print": repr(e1)[:80], "predict": repr(e2)[:80], "replayed": True}, fn=fn))
    e = runs(KA.Kauri(), None)
    obs.append(Ob("print_kauri_tree[unfitted Kauri] raises NotFittedError", PROVED if isinstance(e, NotFittedError) else REFUTED, "enumeration", "P",
                  {"exception": repr(e), "replayed": True}, fn=fn))
    for foreign in (object(), "tree", 3, None, KA.Tree()):
        e = runs(foreign, None)
        obs.append(Ob(f"print_kauri_tree[{type(foreign).__name__}] is refused (ValueError / TypeError family)",
                      PROVED if isinstance(e, (ValueError, TypeError)) else REFUTED, "enumeration", "P", {"exception": repr(e), "replayed": True}, fn=fn))
    return obs


def native_end_to_end(seed=0):
    """B: real fits, printed and read back, against the MODEL's own predict (not only Tree.predict): the printed feature of
    every rule must be a column of the data the user passes to predict.  Data sets include constant columns in front of /
    between the informative ones, duplicated columns and integer-valued tables; names include characters that are special to
    str.format, %-formatting and regular expressions."""
    import warnings
    fn = "gemclus.tree.kauri.print_kauri_tree"
    rs = np.random.RandomState(1000 + seed)
    obs = []

    def blobs(n, d, k):
        c = rs.normal(scale=4.0, size=(k, d))
        return np.vstack([c[i] + rs.normal(size=(n // k, d)) for i in range(k)])

    base = blobs(60, 3, 3)
    cases = {
        "plain blobs": base,
        "constant first column": np.hstack([np.ones((60, 1)), base]),
        "all-zero column in the middle": np.hstack([base[:, :1], np.zeros((60, 1)), base[:, 1:]]),
        "two constant columns then data": np.hstack([np.full((60, 1), 7.0), np.zeros((60, 1)), base[:, :2]]),
        "duplicated column": np.hstack([base[:, :1], base[:, :1], base[:, 1:]]),
        "integer-valued table": np.round(base).astype(float),
        # a two-valued (indicator) column that separates the clusters: a split on it is still the rule `x <= threshold`
        "informative 0/1 indicator column": np.column_stack([(np.arange(60) % 2 == 0).astype(float) * 5.0, 0.01 * base[:, 0], 0.01 * base[:, 1]]),
    }
    awkward = ["$x_{1}$", "{a, b}", "100%s", "r.*(x)", "{0}", "name with spaces", "x\\d", "{{k}}"]
    for tag, X in cases.items():
        d = X.shape[1]
        for names in (None, [awkward[(j + len(tag)) % len(awkward)] + str(j) for j in range(d)]):
            bad = None
            try:
                with warnings.catch_warnings():
                    warnings.simplefilter("ignore")
                    m = KA.Kauri(max_clusters=3, max_depth=4, kernel="linear", random_state=seed).fit(X)
                buf = io.StringIO()
                with contextlib.redirect_stdout(buf):
                    KA.print_kauri_tree(m, names)
                pt = PrintedTree(buf.getvalue())
                shown = names if names is not None else [f"X[:, {j}]" for j in range(d)]
                n2f = {nm: j for j, nm in enumerate(shown)}
                Q_ = np.vstack([X, X[rs.permutation(len(X))[:40]] + rs.normal(scale=2.0, size=(40, d))])
                if tag == "plain blobs":      # one large query set: predict must agree with the printed rules row by row, whatever the batch size
                    Q_ = np.vstack([Q_, X[rs.randint(0, len(X), size=1400)] + rs.normal(scale=1.5, size=(1400, d))])
                want = m.predict(Q_)
                for x, w in zip(Q_, want):
                    node = pt.root
                    while node[0] == "rule":
                        if node[1] not in n2f:
                            raise ValueError(f"printed feature {node[1]!r} is not one of the names / columns")
                        node = node[3] if x[n2f[node[1]]] <= float(node[2]) else node[4]
                    if node[1] != int(w):
                        bad = {"x": x.tolist(), "read back": node[1], "predict": int(w), "text": buf.getvalue()[:400]}
                        break
            except Exception as e:
                bad = {"exception": repr(e)[:300]}
            obs.append(Ob(f"print_kauri_tree[real fit on {tag}, {'user names' if names else 'default names'}]: printed rules over the user's columns, "
                          f"read back, give model.predict on the training rows and 40 perturbed rows",
                          PROVED if bad is None else REFUTED, "native", "B", dict(bad or {}, replayed=bad is not None), fn=fn))
    return obs
