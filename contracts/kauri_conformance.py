"""Conformance of the de-cythonised source with the compiled extension (assumption A7): both are run on the
same random tree states and must return identical Splits.  Skipped (recorded as an assumption) if the .so is
older than the .pyx: no Cython is installed in this sandbox, so the extension cannot be rebuilt here."""
import glob
import os

import numpy as np

from .common import *  # noqa
from engine import decython


def obligations(seed, trials=150):
    fn = "gemclus/tree/_utils.pyx (extraction)"
    pyx = decython.pyx_path()
    sos = glob.glob(os.path.join(os.path.dirname(pyx), "_utils*.so"))
    try:
        mod, src = decython.load()
    except SyntaxError as e:
        return [Ob("extraction: de-cythonised _utils.pyx is valid Python", REFUTED, "extract", "P", {"error": repr(e)}, fn=fn)]
    obs = [Ob("extraction: de-cythonised _utils.pyx is valid Python and defines Split, gemini_objective, compute_all_splits, find_best_split",
              PROVED if all(hasattr(mod, k) for k in ("Split", "gemini_objective", "compute_all_splits", "find_best_split")) else REFUTED,
              "extract", "P", {"lines": len(src.split(chr(10)))}, fn=fn)]
    if not sos:
        obs.append(Ob("conformance: compiled extension present", UNDECIDED, "native", "B", {"why": "no _utils*.so next to the .pyx"}, fn=fn))
        return obs
    stale = os.path.getmtime(sos[0]) < os.path.getmtime(pyx)
    from gemclus.tree import _utils as SO
    rs = np.random.RandomState(seed)
    agree = tot = 0
    first_diff = None
    for _ in range(trials):
        n = int(rs.randint(4, 9))
        d = 2
        X = np.round(rs.normal(size=(n, d)), 1)
        A = rs.normal(size=(n, n))
        Kn = A @ A.T if rs.rand() < 0.7 else A + A.T
        nleaves = int(rs.randint(1, min(n - 1, 4) + 1))
        leaf_of = rs.randint(0, nleaves, size=n)
        leaf_of[:nleaves] = np.arange(nleaves)
        ncl = int(rs.randint(1, nleaves + 1))
        cl_of = rs.randint(0, ncl, size=nleaves)
        cl_of[:ncl] = np.arange(ncl)
        Kmax = ncl + int(rs.randint(0, 3))
        Z = np.zeros((n, n), dtype=np.int64)
        Z[leaf_of, np.arange(n)] = 1
        Y = np.zeros((Kmax, n), dtype=np.int64)
        Y[cl_of, np.arange(nleaves)] = 1
        leaves = np.array([j for j in range(nleaves) if Z[j].sum() >= 2], dtype=np.int64)
        if len(leaves) == 0:
            continue
        ml = int(rs.randint(1, 3))
        args = (Kn, X, leaves, Y, Z, ncl, Kmax, nleaves, ml, np.arange(d, dtype=np.intp))
        a, b = SO.find_best_split(*args), mod.find_best_split(*args)
        tot += 1
        same = (abs(a.gain - b.gain) <= 1e-9 * (1 + abs(a.gain)) and (a.leaf, a.left_target, a.right_target, a.feature) ==
                (b.leaf, b.left_target, b.right_target, b.feature) and a.threshold == b.threshold)
        agree += same
        if not same and first_diff is None:
            first_diff = {"compiled": [a.gain, a.leaf, a.left_target, a.right_target, a.feature, a.threshold],
                          "extracted": [float(b.gain), b.leaf, b.left_target, b.right_target, b.feature, float(b.threshold)]}
        yp = rs.randint(0, 3, size=n).astype(np.int64)
        if abs(SO.gemini_objective(yp, Kn) - mod.gemini_objective(yp, Kn)) > 1e-9 * (1 + abs(SO.gemini_objective(yp, Kn))):
            agree -= 1
    if agree != tot:
        # the extension was built from an older .pyx (or the .pyx was edited): the running code is the OLD build;
        # recorded, never a violation by itself
        obs.append(Ob("conformance: extracted source agrees with the compiled extension on random tree states", UNDECIDED, "native", "B",
                      {"agree": agree, "of": tot, "so_older_than_pyx": stale, "first_difference": first_diff,
                       "note": "extension not rebuilt: no Cython in the sandbox; the contracts speak about the .pyx source"}, fn=fn))
    else:
        obs.append(Ob("conformance: extracted source agrees with the compiled extension on random tree states", PROVED, "native", "B",
                      {"agree": agree, "of": tot}, fn=fn))
    return obs
