"""Contracts for C10 (and the validation-score part of C07): batches partition the data and stay aligned
with the affinity matrix.  VC engine (loop invariants, z3) on the real AST of
  DiscriminativeModel._batchify, sparse._base_sparse.compute_val_score
FX (term mode) for CategoricalModel._batchify and mlcl.decorate_batch.disguise_batch.

Contract of _batchify (requires n = len(X) >= 1, batch_size None or >= 1, perm a permutation of 0..n-1):
  ghost t = number of pairs yielded, cov = length of the covered prefix of perm
  loop invariant   j >= 0, b >= 1, cov == min(j, n), j == t*b, t == 0 or (t-1)*b < n
  on each yield    part == perm[cov : min(cov+b, n)], 1 <= len(part) <= b,
                   X_batch is X[part], affinity_batch is None iff A is None else A[part][:, part]
  ensures          cov == n (parts are disjoint, cover every sample once, in order), (t-1)*b < n <= t*b
"""
import ast

import numpy as np
import z3

from .common import *  # noqa
from engine import vc as V
from engine import fx


class BatchifyVC(V.VC):
    def __init__(self, func):
        super().__init__(func)
        self.n = z3.Int("n")
        self.bs_param = z3.Int("self_batch_size")
        self.bs_none = z3.Bool("batch_size_is_None")
        self.aff_none = z3.Bool("affinity_is_None")
        self.pre = [self.n >= 1, z3.Or(self.bs_none, self.bs_param >= 1)]

    def call(self, f, node, args, kw, st):
        if f == "len" and isinstance(args[0], V.Opaque) and args[0].tag == "X":
            return self.n
        if f == "check_random_state":
            return V.Opaque("rng", args[0])
        if f.endswith(".permutation"):
            recv = st.env.get(f.split(".")[0])
            self.prove("permutation drawn from check_random_state(random_state), of len(X) elements", st.assm,
                       z3.And(z3.BoolVal(isinstance(recv, V.Opaque) and recv.tag == "rng"), args[0] == self.n))
            return V.Slice("perm", z3.IntVal(0), self.n, self.n)
        raise V.VCError(f"needs contract: {f}")

    def attribute(self, src, st):
        if src == "self.batch_size":
            return self.bs_param
        raise V.VCError(f"needs contract: {src}")

    def is_none(self, src, node, st):
        if src == "self.batch_size":
            return self.bs_none
        # the affinity matrix is recognised by what the expression denotes, not by how the variable is called
        v = st.env.get(node.id) if isinstance(node, ast.Name) else None
        if v is self.bs_param:                   # a local alias of self.batch_size
            return self.bs_none
        if src == "affinity_matrix" or (isinstance(v, V.Opaque) and v.tag == "A"):
            return self.aff_none
        raise V.VCError(f"needs contract: {src} is None")

    def names(self):
        """loop counter and step variables, read off the real while loop:  while <c> < len(X): ... <c> += <b>"""
        import ast
        if not hasattr(self, "_names"):
            w = [n for n in ast.walk(self.fn) if isinstance(n, ast.While)]
            c = w[0].test.left.id if w and isinstance(w[0].test, ast.Compare) and isinstance(w[0].test.left, ast.Name) else "j"
            aug = [n for n in ast.walk(w[0]) if isinstance(n, ast.AugAssign) and getattr(n.target, "id", None) == c] if w else []
            b = aug[0].value.id if aug and isinstance(aug[0].value, ast.Name) else "batch_size"
            self._names = (c, b)
        return self._names

    def invariant(self, st, o):
        c, bn = self.names()
        j, b, t, cov = st.env[c], st.env[bn], st.ghost["t"], st.ghost["cov"]
        return [("j >= 0", j >= 0), ("batch_size >= 1", b >= 1), ("cov == min(j, n)", cov == V.zmin(j, self.n)),
                ("j == t*batch_size", j == t * b), ("t == 0 or (t-1)*batch_size < n", z3.Or(t == 0, (t - 1) * b < self.n))]

    def variant(self, st, o):
        c, bn = self.names()
        return self.n - st.env[c] + st.env[bn]

    def havoc(self, st, o, names):
        super().havoc(st, o, names)
        st.ghost["t"] = z3.FreshInt("t")
        st.ghost["cov"] = z3.FreshInt("cov")

    def on_yield(self, value, st):
        xb, ab = value
        b = st.env[self.names()[1]]
        ok_x = isinstance(xb, V.Opaque) and xb.tag == "gather" and isinstance(xb.a[0], V.Opaque) and xb.a[0].tag == "X" \
            and isinstance(xb.a[1], V.Slice) and xb.a[1].base == "perm"
        self.prove("yield: X_batch is X[part] with part a slice of the permutation", st.assm, ok_x)
        if not ok_x:
            return
        part = xb.a[1]
        self.prove("yield: part starts where coverage ended", st.assm, part.lo == st.ghost["cov"])
        self.prove("yield: part non-empty", st.assm, part.hi > part.lo)
        self.prove("yield: len(part) <= batch_size", st.assm, part.hi - part.lo <= b)
        self.prove("yield: part within the permutation", st.assm, z3.And(part.lo >= 0, part.hi <= self.n))
        self.prove("yield: part ends at min(cov + batch_size, n)", st.assm, part.hi == V.zmin(st.ghost["cov"] + b, self.n))
        def is_block(a1):
            return (isinstance(a1, V.Opaque) and a1.tag == "colgather" and isinstance(a1.a[0], V.Opaque) and a1.a[0].tag == "gather"
                    and isinstance(a1.a[0].a[0], V.Opaque) and a1.a[0].a[0].tag == "A"
                    and V._same(a1.a[0].a[1], part) and V._same(a1.a[1], part))
        okblock = False
        cond = None
        if isinstance(ab, tuple) and ab and ab[0] == "ite":
            _, cond, a1, a2 = ab
            okblock = is_block(a1) and a2 is None
            goal = z3.And(z3.BoolVal(bool(okblock)), cond == z3.Not(self.aff_none))
        elif ab is None:
            # one `yield` per branch of `if affinity_matrix is None`: on this branch the path condition must say that A is None
            goal = self.aff_none
        elif is_block(ab):
            goal = z3.Not(self.aff_none)
        else:
            goal = z3.BoolVal(False)
        self.prove("yield: affinity block is A[part][:, part], None iff A is None", st.assm, goal)
        st.ghost["cov"] = part.hi
        st.ghost["t"] = st.ghost["t"] + 1

    def go(self):
        st = V.VC.State()
        st.env.update(X=V.Opaque("X"), affinity_matrix=V.Opaque("A"), random_state=V.Opaque("seed"))
        st.ghost.update(t=z3.IntVal(0), cov=z3.IntVal(0))
        self.run(self.fn.body, st)
        b = st.env[self.names()[1]]
        self.prove("exit: every position of the permutation covered exactly once, in order (cov == n)", st.assm, st.ghost["cov"] == self.n)
        self.prove("exit: number of batches t is ceil(n / batch_size)", st.assm,
                   z3.And((st.ghost["t"] - 1) * b < self.n, self.n <= st.ghost["t"] * b))
        self.prove("batch_size is len(X) when self.batch_size is None, else self.batch_size", st.assm,
                   b == z3.If(self.bs_none, self.n, self.bs_param))
        return self.obligations


class ValScoreVC(V.VC):
    """compute_val_score(clf, X, y, batch_size, gemini_objective): contiguous disjoint covering blocks [j, j+b),
    affinity block y[j:j+b][:, j:j+b] (or the affinity of the block when y is None), result = size-weighted mean."""

    def __init__(self, func):
        super().__init__(func)
        self.n = z3.Int("n")
        self.b = z3.Int("batch_size")
        self.y_none = z3.Bool("y_is_None")
        self.dynamic = z3.Bool("clf_dynamic")
        self.pre = [self.n >= 1, self.b >= 1]
        self.acc = []

    def call(self, f, node, args, kw, st):
        if f == "len":
            return self.length_of(args[0], st)
        return V.Opaque("call:" + f, *args)

    def attribute(self, src, st):
        if src == "clf.dynamic":
            return self.dynamic
        return V.Opaque("attr:" + src)

    def is_none(self, src, node, st):
        if src == "y":
            return self.y_none
        # any other tested name (an optional parameter with default None): a free Boolean -- both cases are explored, and the
        # contract below must hold in both (a caller-supplied value that replaces what the function derives from the model is
        # outside the contract unless it denotes the same thing)
        import re
        if re.fullmatch(r"[A-Za-z_][A-Za-z_0-9]*", src):
            return z3.Bool(f"{src}_is_None")
        raise V.VCError(f"needs contract: {src} is None")

    def length_of(self, v, st, axis=0):
        if isinstance(v, V.Opaque) and v.tag in ("X", "y"):
            return self.n
        if isinstance(v, V.Opaque) and v.tag == "gather" and isinstance(v.a[1], V.Slice):
            if axis == 0:
                return v.a[1].hi - v.a[1].lo
            return self.n      # y[rows] still has n columns
        raise V.VCError(f"needs contract: length of {v}")

    def invariant(self, st, o):
        j, t, cov, ws = st.env[self.counter()], st.ghost["t"], st.ghost["cov"], st.ghost["wsum"]
        return [("j >= 0", j >= 0), ("j == t*batch_size", j == t * self.b), ("cov == min(j, n)", cov == V.zmin(j, self.n)),
                ("sum of block weights == samples covered", ws == cov)]

    def variant(self, st, o):
        return self.n - st.env[self.counter()] + self.b

    def havoc(self, st, o, names):
        super().havoc(st, o, names)
        for g in ("t", "cov", "wsum"):
            st.ghost[g] = z3.FreshInt(g)
        if self.acc_name() in st.env:
            st.env[self.acc_name()] = V.Opaque("acc")      # the accumulated score is not an integer of the arithmetic subset

    def counter(self):
        import ast
        w = [n for n in ast.walk(self.fn) if isinstance(n, ast.While)]
        return w[0].test.left.id if w and isinstance(w[0].test, ast.Compare) and isinstance(w[0].test.left, ast.Name) else "j"

    def acc_name(self):
        """the accumulator: the loop variable that a block score (a call of the objective) is added to"""
        import ast
        for w in [n for n in ast.walk(self.fn) if isinstance(n, ast.While)]:
            for n in ast.walk(w):
                tgt = None
                if isinstance(n, ast.AugAssign) and isinstance(n.op, ast.Add) and isinstance(n.target, ast.Name):
                    tgt, val = n.target.id, n.value
                elif (isinstance(n, ast.Assign) and len(n.targets) == 1 and isinstance(n.targets[0], ast.Name) and isinstance(n.value, ast.BinOp)
                      and isinstance(n.value.op, ast.Add) and any(isinstance(x, ast.Name) and x.id == n.targets[0].id for x in (n.value.left, n.value.right))):
                    tgt, val = n.targets[0].id, n.value
                if tgt is not None and any(isinstance(c, ast.Call) for c in ast.walk(val)):
                    return tgt
        return "validation_gemini"

    def binop(self, op, l, r, st):
        # `return acc / len(X), penalty` is the same as `acc /= len(X); return acc, penalty`
        if op == "Div" and isinstance(l, V.Opaque) and l.tag == "acc":
            return self.augassign("validation_gemini", "Div", l, r, st)
        return super().binop(op, l, r, st)

    def augassign(self, name, op, cur, v, st):
        # the accumulator is recognised by what is added to it (a block score times a weight) / by what is divided (the
        # accumulated term), not by its name nor by the spelling `+=` / `/=`
        if op == "Add" and isinstance(v, V.Opaque) and v.tag == "binop:Mult" and any(
                isinstance(x, V.Opaque) and x.tag == "call:gemini_objective" for x in v.a):
            name = "validation_gemini"
            if not (isinstance(v.a[0], V.Opaque) and v.a[0].tag == "call:gemini_objective"):
                v = V.Opaque("binop:Mult", v.a[1], v.a[0])          # weight * score == score * weight
        if op == "Div" and isinstance(cur, V.Opaque) and cur.tag == "acc":
            name = "validation_gemini"
        if name == "validation_gemini" and op == "Add":
            # v must be gemini_objective(y_pred, affinity) * len(X_batch)
            ok = isinstance(v, V.Opaque) and v.tag == "binop:Mult"
            score, w = (v.a if ok else (None, None))
            # the block, its predictions and its affinity are read off the accumulated term itself (not by local names)
            yp = score.a[0] if isinstance(score, V.Opaque) and score.tag == "call:gemini_objective" and len(score.a) == 2 else None
            aff = score.a[1] if yp is not None else None
            xb = yp.a[0] if isinstance(yp, V.Opaque) and yp.tag == "call:clf.predict_proba" and len(yp.a) == 1 else None
            part = xb.a[1] if isinstance(xb, V.Opaque) and xb.tag == "gather" else None
            okx = part is not None and isinstance(xb.a[0], V.Opaque) and xb.a[0].tag == "X" and part.base == "range"
            self.prove("block: X_batch is X[j : j+batch_size]", st.assm, okx)
            if okx:
                self.prove("block: starts where coverage ended", st.assm, part.lo == st.ghost["cov"])
                self.prove("block: non-empty", st.assm, part.hi > part.lo)
                self.prove("block: ends at min(cov + batch_size, n)", st.assm, part.hi == V.zmin(st.ghost["cov"] + self.b, self.n))
            okw = isinstance(w, z3.ExprRef)
            self.prove("accumulate: weight of the block score is the number of samples in the block", st.assm,
                       (w == part.hi - part.lo) if (okw and part is not None) else False)
            oks = yp is not None
            okyp = xb is not None
            self.prove("accumulate: block score is gemini_objective(clf.predict_proba(X_batch), affinity)", st.assm, bool(oks and okyp))
            okaff = False
            cond = None
            if isinstance(aff, tuple) and aff[0] == "ite":
                _, cond, a1, a2 = aff
                ok1 = (isinstance(a1, V.Opaque) and a1.tag == "colgather" and isinstance(a1.a[0], V.Opaque) and a1.a[0].tag == "gather"
                       and isinstance(a1.a[0].a[0], V.Opaque) and a1.a[0].a[0].tag == "y" and part is not None
                       and V._same(a1.a[0].a[1], part) and V._same(a1.a[1], part))
                ok2 = (isinstance(a2, V.Opaque) and a2.tag == "call:gemini_objective.compute_affinity" and len(a2.a) == 1
                       and isinstance(a2.a[0], V.Opaque) and a2.a[0].tag == "colgather" and a2.a[0].a[0] is xb)
                okaff = ok1 and ok2
                if not okaff and cond is not None and z3.is_true(z3.simplify(cond == self.y_none)):
                    # `if y is None: <computed> else: <given>`: the same conditional with the test the other way round
                    cond, a1, a2 = z3.Not(cond), a2, a1
                    ok1 = (isinstance(a1, V.Opaque) and a1.tag == "colgather" and isinstance(a1.a[0], V.Opaque) and a1.a[0].tag == "gather"
                           and isinstance(a1.a[0].a[0], V.Opaque) and a1.a[0].a[0].tag == "y" and part is not None
                           and V._same(a1.a[0].a[1], part) and V._same(a1.a[1], part))
                    ok2 = (isinstance(a2, V.Opaque) and a2.tag == "call:gemini_objective.compute_affinity" and len(a2.a) == 1
                           and isinstance(a2.a[0], V.Opaque) and a2.a[0].tag == "colgather" and a2.a[0].a[0] is xb)
                    okaff = ok1 and ok2
            self.prove("block: affinity is y[j:j+b][:, j:j+b] when y is given, else compute_affinity of the block", st.assm,
                       z3.And(z3.BoolVal(bool(okaff)), cond == z3.Not(self.y_none)) if cond is not None else False)
            # the columns the computed affinity is taken over: the model's CURRENT selection (asked of the model in this very
            # call) in dynamic mode without a given affinity, every column otherwise -- on every path, whatever optional
            # arguments the function has
            okcols, ccond = False, None
            if okaff:
                cols = a2.a[0].a[1]
                if isinstance(cols, tuple) and cols[0] == "ite":
                    _, ccond, c1, c2 = cols
                    is_sel = lambda c_: isinstance(c_, V.Opaque) and c_.tag == "call:clf.get_selection" and not c_.a
                    is_all = lambda c_: isinstance(c_, V.Opaque) and c_.tag in ("call:np.arange", "call:numpy.arange", "call:range") and len(c_.a) == 1
                    if is_sel(c2) and is_all(c1):
                        ccond, c1, c2 = z3.Not(ccond), c2, c1
                    okcols = is_sel(c1) and is_all(c2)
                elif isinstance(cols, V.Opaque) and cols.tag in ("call:np.arange", "call:numpy.arange", "call:range"):
                    okcols, ccond = True, z3.BoolVal(False)
            self.prove("block: a computed affinity is taken over the model's current selection (clf.get_selection(), asked in this call) in dynamic mode, over all columns otherwise",
                       st.assm + ([z3.Not(cond)] if cond is not None else []),
                       z3.And(z3.BoolVal(bool(okcols)), ccond == z3.And(self.dynamic, self.y_none)) if ccond is not None else False)
            if part is not None:
                st.ghost["cov"] = part.hi
                st.ghost["t"] = st.ghost["t"] + 1
                if okw:
                    st.ghost["wsum"] = st.ghost["wsum"] + w
            self.acc.append(v)
            return V.Opaque("acc")
        if name == "validation_gemini" and op == "Div":
            self.prove("result: accumulated sum divided by len(X)", st.assm, (v == self.n) if isinstance(v, z3.ExprRef) else False)
            return V.Opaque("mean", cur)
        return V.Opaque("aug:" + op, cur, v)

    def go(self):
        st = V.VC.State()
        st.env.update(clf=V.Opaque("clf"), X=V.Opaque("X"), y=V.Opaque("y"), batch_size=self.b, gemini_objective=V.Opaque("gemini"))
        st.ghost.update(t=z3.IntVal(0), cov=z3.IntVal(0), wsum=z3.IntVal(0))
        self.run(self.fn.body, st)
        self.prove("exit: blocks cover every sample exactly once (cov == n)", st.assm, st.ghost["cov"] == self.n)
        self.prove("exit: block weights sum to n (size-weighted mean)", st.assm, st.ghost["wsum"] == self.n)
        ret = st.env.get("__return__")
        ok = isinstance(ret, tuple) and len(ret) == 2 and isinstance(ret[0], V.Opaque) and ret[0].tag == "mean"
        self.prove("returns (mean validation score, penalty * alpha)", st.assm, bool(ok))
        return self.obligations


def native_batchify(n, b, aff_none=False):
    """replay of a counter-model on the real generator."""
    from gemclus.linear import LinearModel
    m = LinearModel(batch_size=b)
    X = np.arange(n, dtype=float).reshape(-1, 1)
    A = None if aff_none else (np.arange(n)[:, None] * 1000 + np.arange(n)[None, :]).astype(float)
    seen = []
    ok = True
    nb = 0
    for Xb, Ab in m._batchify(X, A, np.random.RandomState(3)):
        ids = Xb[:, 0].astype(int).tolist()
        nb += 1
        ok = ok and 1 <= len(ids) <= (b or n)
        if A is not None:
            want = np.asarray(ids)[:, None] * 1000.0 + np.asarray(ids)[None, :]
            ok = ok and Ab.shape == (len(ids), len(ids)) and bool(np.array_equal(Ab, want))
        else:
            ok = ok and Ab is None
        seen += ids
    ok = ok and sorted(seen) == list(range(n)) and nb == -(-n // (b or n))
    return ok, {"n": n, "batch_size": b, "batches": nb, "seen": seen[:50]}


def native_val_score(n, b, y_given=True):
    """replay on the real compute_val_score with recording stubs: result must be the size-weighted mean of
    the block scores over contiguous blocks, each scored with its own affinity block."""
    from gemclus.sparse._base_sparse import compute_val_score
    X = np.arange(n, dtype=float).reshape(-1, 1)
    y = (np.arange(n)[:, None] * 1000 + np.arange(n)[None, :]).astype(float) if y_given else None
    ok = [True]

    class Clf:
        alpha, dynamic = 0.5, False

        def _group_lasso_penalty(self):
            return 3.0

        def predict_proba(self, Xb):
            return Xb

        def get_selection(self):
            return np.array([0])

    class Gem:
        def compute_affinity(self, Xb, y=None):
            ids = Xb[:, 0].astype(int)
            return (ids[:, None] * 1000 + ids[None, :]).astype(float)

        def __call__(self, y_pred, aff):
            ids = y_pred[:, 0].astype(int)
            want = (ids[:, None] * 1000 + ids[None, :]).astype(float)
            if aff.shape != want.shape or not np.array_equal(aff, want):
                ok[0] = False
            return float(ids.sum()) + 1.0
    got, l1 = compute_val_score(Clf(), X, y, b, Gem())
    want = sum((sum(range(j, min(j + b, n))) + 1.0) * (min(j + b, n) - j) for j in range(0, n, b)) / n
    good = ok[0] and abs(got - want) < 1e-9 and l1 == 1.5
    return good, {"n": n, "batch_size": b, "y_given": y_given, "got": float(got), "want": float(want)}


def _bounded_fallback(prefix, fn, replay, grid):
    """used only when the VC generator cannot decide (syntax outside its subset, solver unknown): the real
    function is run on a grid of sizes; a failure is a violation with its input, a pass stays undecided."""
    for args in grid:
        try:
            good, info = replay(*args)
        except Exception as e:
            good, info = False, {"args": args, "exception": repr(e)}
        if not good:
            return [Ob(f"{prefix}:bounded replay on the real code (VC undecided)", REFUTED, "native", "B", {"native": info, "replayed": True}, fn=fn)]
    return [Ob(f"{prefix}:bounded replay on the real code (VC undecided)", PROVED, "native", "B", {"grid": len(grid)}, fn=fn)]


def _to_obs(prefix, fn, raw, replay=None):
    obs = []
    for name, status, model, dt in raw:
        det = {}
        if model and "xcheck" in model:
            det["xcheck"] = model["xcheck"]
        elif model:
            det["counter_model"] = model
            if replay is not None:
                try:
                    okn, info = replay(model)
                    det["replayed"] = not okn
                    det["native"] = info
                except Exception as e:
                    det["replay_error"] = repr(e)
        obs.append(Ob(f"{prefix}:{name}", status, "z3", "P", det, dt, fn))
    return obs


def vc_obligations():
    from gemclus._base_gemini import DiscriminativeModel
    from gemclus.sparse import _base_sparse as BS
    obs = []
    try:
        raw = BatchifyVC(DiscriminativeModel._batchify).go()

        def rp(model):
            n = int(model.get("n", 1))
            none = model.get("batch_size_is_None") == "True"
            b = None if none else int(model.get("self_batch_size", 1))
            return native_batchify(n, b, model.get("affinity_is_None") == "True")
        obs += _to_obs("_batchify", "gemclus._base_gemini.DiscriminativeModel._batchify", raw, rp)
    except Exception as e:
        obs.append(Ob("_batchify:within the VC subset", UNDECIDED, "vc", "P", {"why": repr(e)},
                      fn="gemclus._base_gemini.DiscriminativeModel._batchify"))
    if any(o.status != PROVED for o in obs):
        grid = [(n, b, an) for n in range(1, 13) for b in [None] + list(range(1, 15)) for an in (False, True)]
        # larger sizes: short remainders of large batches, batch counts that do not divide n, sizes beyond typical block lengths
        grid += [(n, b, False) for n in (41, 83, 90, 103, 130, 150, 257, 300, 1030) for b in (7, 20, 25, 40, 50, 64, 128, 256, 299, 512) if b <= n + 1]
        obs += _bounded_fallback("_batchify", "gemclus._base_gemini.DiscriminativeModel._batchify", native_batchify, grid)
    n0 = len(obs)
    try:
        raw = ValScoreVC(BS.compute_val_score).go()
        obs += _to_obs("compute_val_score", "gemclus.sparse._base_sparse.compute_val_score", raw,
                       lambda m: native_val_score(int(m.get("n", 1)), int(m.get("batch_size", 1)), m.get("y_is_None") != "True"))
    except Exception as e:
        obs.append(Ob("compute_val_score:within the VC subset", UNDECIDED, "vc", "P", {"why": repr(e)},
                      fn="gemclus.sparse._base_sparse.compute_val_score"))
    if any(o.status != PROVED for o in obs[n0:]):
        grid = [(n, b, yg) for n in range(1, 12) for b in range(1, 14) for yg in (True, False)]
        obs += _bounded_fallback("compute_val_score", "gemclus.sparse._base_sparse.compute_val_score", native_val_score, grid)
    return obs


def fx_obligations():
    """CategoricalModel._batchify yields exactly (X, affinity_matrix); mlcl.disguise_batch wraps the inner
    generator on arange(len(X)), records subset.tolist() and yields (X[subset], block)."""
    from gemclus.nonparametric import CategoricalModel
    import gemclus.mlcl as ML
    obs = []
    it = fx.Interp(CategoricalModel)
    owner, f = it.resolve("_batchify")
    node, fobj = fx.fn_ast(f)
    st = fx.State()
    for a in node.args.args:
        st.env[a.arg] = ("var", a.arg)
    it.frames = [(owner, "_batchify")]
    sts = it.exec_block(node.body, [st], fobj.__globals__, owner, 0)
    ys = [e for s in sts for e in s.events if e[0] == "yield"]
    ok = len(sts) == 1 and len(ys) == 1 and ys[0][1] == ("tuple", (("var", "X"), ("var", "affinity_matrix"))) and ys[0][2] == ()
    obs.append(Ob("CategoricalModel._batchify: yields exactly one pair (X, affinity_matrix): the full data", PROVED if ok else REFUTED,
                  "fx-dataflow", "P", {"yields": [fx.show(y[1]) for y in ys]},
                  fn="gemclus.nonparametric._categorical_models.CategoricalModel._batchify"))
    # disguise_batch: nested closure inside add_mlcl_constraint
    src_node, fobj = fx.fn_ast(ML.add_mlcl_constraint)
    # found by ROLE, not by name: the generator function nested in a decorator defined inside add_mlcl_constraint; `func` is that
    # decorator's parameter (the wrapped _batchify), `disguise_batch` the generator itself
    _ast = __import__("ast")
    target, FUNC, SELFN = [], "func", "disguise_batch"
    for outer in [n for n in src_node.body if isinstance(n, _ast.FunctionDef)]:
        for n in outer.body:
            if isinstance(n, _ast.FunctionDef) and any(isinstance(x, (_ast.Yield, _ast.YieldFrom)) for x in _ast.walk(n)) and outer.args.args:
                target.append(n)
                FUNC, SELFN = outer.args.args[0].arg, n.name
    fnq = "gemclus.mlcl.add_mlcl_constraint.decorate_batch.disguise_batch"
    if len(target) != 1:
        obs.append(Ob("mlcl.disguise_batch: found", REFUTED, "fx", "P", {}, fn=fnq))
        return obs
    node = target[0]
    it = fx.Interp(None)
    st = fx.State()
    for a in node.args.args:
        st.env[a.arg] = ("var", a.arg)
    st.env[FUNC] = ("var", "func")
    st.env[SELFN] = ("var", "disguise_batch")
    it.frames = [(None, SELFN)]
    sts = it.exec_block(node.body, [st], fobj.__globals__, None, 0)
    ok = len(sts) == 1
    det = {}
    if ok:
        s = sts[0]
        calls = [e for e in s.events if e[0] == "call"]
        inner = [e for e in calls if e[2] == "func"]
        ar = [e for e in calls if e[2] == "np.arange"]
        ok = (len(inner) == 1 and len(ar) == 1 and ar[0][3][0][:1] == ("callres",) and ar[0][3][0][2] == "len" and ar[0][3][0][3] == (("var", "X"),))
        if ok:
            arr = ("callres", ar[0][1], "np.arange", ar[0][3], ar[0][4])
            ok = inner[0][3] == (arr, ("var", "affinity_matrix"), ("var", "random_state"))
            it_term = ("callres", inner[0][1], "func", inner[0][3], inner[0][4])
            lid = inner and [e for e in s.events if e[0] == "loop-enter"][0][1][0]
            elem = ("iter", it_term, lid)
            subset, blk = ("item", elem, fx.C(0)), ("item", elem, fx.C(1))
            ys = [e for e in s.events if e[0] == "yield"]
            stt = [e for e in s.events if e[0] == "store" and e[2] == "indices"]
            ok = ok and len(ys) == 1 and ys[0][1] == ("tuple", (("item", ("var", "X"), subset), blk)) and len(ys[0][2]) == 1
            # indices recorded before the yield, as subset.tolist()
            ok = ok and len(stt) == 1 and stt[0][1] == ("var", "disguise_batch") and stt[0][3][:1] == ("callres",) \
                and stt[0][3][2].endswith(".tolist") and s.events.index(stt[0]) < s.events.index(ys[0])
            tl = [e for e in calls if isinstance(e[6], tuple) and e[6] == ("attr", subset, "tolist")]
            ok = ok and len(tl) == 1 and stt[0][3][1] == tl[0][1]
            det = {"yield": fx.show(ys[0][1]) if ys else None}
    obs.append(Ob("mlcl.disguise_batch: inner generator runs on arange(len(X)) with the same affinity and rng; each step records "
                  "indices = subset.tolist() and yields (X[subset], affinity block)", PROVED if ok else REFUTED, "fx-dataflow", "P", det, fn=fnq))
    return obs
