"""Contract on gemclus.tree.kauri.Tree (_add_child, predict) -- properties C09, C18, C19.

Trees are built with the real Tree() / Tree._add_child from every split sequence with at most L leaves,
every assignment of features to internal nodes, symbolic thresholds (plus the concrete thresholds 0.0
and -1.0) and symbolic query points.
  _add_child   all per-node lists have length n_nodes == 2*leaves-1; children indices fresh and in range;
               depths[child] == depths[father]+1; leaves are exactly the nodes with children_left == -1
  predict      every row receives the target of the unique leaf whose threshold rules it satisfies
               (x[f] <= t goes left), independently of the other rows and of their order
"""
import itertools

import numpy as np

from .common import *  # noqa
from gemclus.tree import kauri as KA


class FakeSplit:
    def __init__(self, feature, threshold, left_target, right_target, gain=1.0):
        self.feature, self.threshold, self.left_target, self.right_target = feature, threshold, left_target, right_target
        self.gain, self.is_categorical = gain, False


def split_sequences(max_leaves):
    """all sequences of leaf-node ids to split (array encoding: children of a split get ids n_nodes, n_nodes+1)."""
    out = [()]

    def rec(seq, leaves, n_nodes):
        if len(leaves) >= max_leaves:
            return
        for lf in leaves:
            s2 = seq + (lf,)
            out.append(s2)
            rec(s2, [x for x in leaves if x != lf] + [n_nodes, n_nodes + 1], n_nodes + 2)
    rec((), [0], 1)
    return out


def build_tree(seq, feats, thresholds):
    t = KA.Tree()
    label = 10
    for j, father in enumerate(seq):
        t._add_child(father, FakeSplit(feats[j], thresholds[j], label, label + 1))
        label += 2
    return t


def spec_route(tree, x):
    """reference reader of the array encoding (written from the property statement)."""
    node = 0
    while tree.children_left[node] != -1:
        f, thr = tree.features[node], tree.thresholds[node]
        node = tree.children_left[node] if x[f] <= thr else tree.children_right[node]
    return tree.target[node], node


class TreePredict(SxContract):
    fn = "gemclus.tree.kauri.Tree.predict"
    boundaries = True       # <= versus <: points ON a threshold / cut are part of the contract, not a measure-zero set
    safety = False

    def __init__(self, seq, feats, d, thr_kind):
        self.seq, self.feats, self.d, self.thr_kind = seq, feats, d, thr_kind
        self.label = f"Tree.predict[splits={list(seq)},features={list(feats)},d={d},thr={thr_kind}]"

    def build(self, ctx):
        if self.thr_kind == "sym":
            thr = [ctx.var(f"t{j}", lo=-1, hi=1) for j in range(len(self.seq))]
        else:
            thr = [float(self.thr_kind) if j == 0 else ctx.var(f"t{j}", lo=-1, hi=1) for j in range(len(self.seq))]
        self.tree = build_tree(self.seq, self.feats, thr)
        return {"X": sx.sym_array(ctx, "x", (2, self.d), lo=-1.5, hi=1.5)}

    def body(self, inp):
        X = inp["X"]
        t = self.tree
        return {"both": t.predict(X), "rev": t.predict(X[::-1]), "single": [t.predict(X[i:i + 1]) for i in range(2)],
                "want": [spec_route(t, X[i]) for i in range(2)]}

    def ensures(self, inp, out):
        t = self.tree
        L = len(self.seq) + 1
        lists = [t.children_left, t.children_right, t.target, t.thresholds, t.features, t.gains, t.depths, t.categorical_nodes]
        yield "all per-node lists have length n_nodes == 2*leaves-1", prove.holds(
            t.n_nodes == 2 * L - 1 and all(len(x) == t.n_nodes for x in lists) and len(t) == t.n_nodes)
        leaves = [i for i in range(t.n_nodes) if t.children_left[i] == -1]
        ok = len(leaves) == L and all(t.children_right[i] == -1 for i in leaves)
        kids = []
        for i in range(t.n_nodes):
            if t.children_left[i] != -1:
                a, b = t.children_left[i], t.children_right[i]
                ok = ok and 0 < a < t.n_nodes and 0 < b < t.n_nodes and a != b
                ok = ok and t.depths[a] == t.depths[i] + 1 and t.depths[b] == t.depths[i] + 1
                kids += [a, b]
        ok = ok and sorted(kids) == list(range(1, t.n_nodes)) and t.depths[0] == 0
        yield "children fresh, in range, depth = father depth + 1, every non-root node has exactly one father", prove.holds(ok)
        for i in range(2):
            want = out["want"][i][0]
            yield f"row {i} gets the target of the leaf region containing it", prove.holds(int(out["both"][i]) == want,
                                                                                      f"{out['both'][i]} vs {want}")
            yield f"row {i} alone gets the same label", prove.holds(int(out["single"][i][0]) == want)
            yield f"row {i} in reversed order gets the same label", prove.holds(int(out["rev"][1 - i]) == want)


def _native(self, env, inp):
    """float replay: the real Tree.predict on concrete thresholds / points against the reference router"""
    X = sx.to_float(inp["X"], env)
    thr = [float(dag.fev(sx.lift(t), env)) if isinstance(t, sx.Sx) else float(t) for t in self.tree.thresholds if t is not None]
    ths = iter(thr)
    t = KA.Tree()
    label = 10
    for j, father in enumerate(self.seq):
        t._add_child(father, FakeSplit(self.feats[j], next(ths) if False else None, label, label + 1))
        label += 2
    # thresholds in node order
    k = 0
    for node in range(self.tree.n_nodes):
        if self.tree.thresholds[node] is not None:
            v = self.tree.thresholds[node]
            t.thresholds[node] = float(dag.fev(sx.lift(v), env)) if isinstance(v, sx.Sx) else float(v)
    got = [int(v) for v in t.predict(X)]
    want = [spec_route(t, X[i])[0] for i in range(len(X))]
    ok = got == want and [int(t.predict(X[i:i + 1])[0]) for i in range(len(X))] == want
    return {"*": (ok, {"X": X.tolist(), "thresholds": [None if v is None else float(v) for v in t.thresholds], "features": t.features,
                       "children_left": t.children_left, "predict": got, "reference": want})}


TreePredict.native = _native


def task(tier, seed=0):
    obs = []
    L = 3 if tier == "quick" else 4
    d = 2
    for seq in split_sequences(L):
        k = len(seq)
        for feats in itertools.product(range(d), repeat=k):
            if k == 3 and tier != "thorough" and feats[0] != 0:
                continue
            for thr in (("sym", "0.0", "-1.0") if k >= 1 else ("sym",)):
                if thr != "sym" and (k > 2 or feats[0] != 0):
                    continue
                obs.extend(o for o in run_sx(TreePredict(seq, feats, d, thr), seed=seed) if "paths-explored" not in o.name)
    return obs
