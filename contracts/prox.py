"""Contracts on gemclus.sparse._prox_grad (property C05; reused by C06, C17)."""
import itertools

import numpy as np

from .common import *  # noqa
from specs import prox as spec
import gemclus.sparse._prox_grad as PG


def partitions(items):
    items = list(items)
    if not items:
        yield []
        return
    first, rest = items[0], items[1:]
    for p in partitions(rest):
        for i in range(len(p)):
            yield p[:i] + [[first] + p[i]] + p[i + 1:]
        yield [[first]] + p


def nonzero_row(ctx, row):
    """precondition: the row is not identically zero (sum of squares > 0)."""
    if len(row) == 1:
        ctx.assume(row[0], "!0")
    else:
        ctx.assume(sum((x * x for x in row[1:]), row[0] * row[0]), "+")


def model_step(kind, groups, V, U, a, M):
    """the operator as the sparse models apply it: Sparse{Linear,MLP}Model._update_weights after an optimiser step that leaves
    the weights where they are, with learning rate 1 (threshold alpha * 1) -- on a bare instance carrying only the attributes the
    step reads"""
    from gemclus.sparse import SparseMLPModel, SparseLinearModel

    class _Still:
        learning_rate = 1.0

        def update_params(self, w, g):
            pass
    if kind == "mlp":
        m = object.__new__(SparseMLPModel)
        m.W_skip_, m.W1_, m.M = V, U, M
    else:
        m = object.__new__(SparseLinearModel)
        m.W_ = V
    m.alpha, m.groups_, m.optimiser_ = a, groups, _Still()
    m.groups = groups
    m._update_weights([], [])
    return (m.W_skip_, m.W1_) if kind == "mlp" else m.W_


def applied(contract):
    """the same contract, its native replay going through the model's own update step (size ladder, B tier)"""
    contract.applied = True
    contract.label += ", as applied by the model's _update_weights"
    return contract


class LinearProx(SxContract):
    """linear_prox_grad(W, alpha): requires alpha >= 0; ensures per row the closed form of the group-lasso prox.
    structures: generic | zero_row (row 0 concrete zeros) | alpha0 (alpha == 0) | tie (||w|| == alpha exactly)"""
    float_replay = True
    fn = "gemclus.sparse._prox_grad.linear_prox_grad"

    def __init__(self, d, h, structure="generic"):
        self.d, self.h, self.structure = d, h, structure
        self.label = f"linear_prox_grad[d={d},h={h},{structure}]"

    def patches(self):
        return np_patches(PG)

    def build(self, ctx):
        W = sx.sym_array(ctx, "w", (self.d, self.h), lo=-2, hi=2)
        alpha = ctx.var("alpha", "+", lo=0.05, hi=2.5)
        if self.structure in ("zero_row", "zero_row_alpha0"):
            W[0, :] = [sx.Sx(dag.ZERO)] * self.h
        if self.structure in ("alpha0", "zero_row_alpha0"):      # the corner alpha == 0 AND an all-zero row is in scope too
            alpha = sx.Sx(dag.ZERO)
        if self.structure == "tie":
            # row 0 = (3,4,0..)*t/5 scaled so that its norm is exactly alpha
            base = [3, 4] + [0] * (self.h - 2) if self.h >= 2 else [1]
            nb = 5 if self.h >= 2 else 1
            for j in range(self.h):
                W[0, j] = alpha * base[j] / nb
        return {"W": W, "alpha": alpha}

    def body(self, inp):
        Z = PG.linear_prox_grad(inp["W"].copy(), inp["alpha"])
        want = [spec.group_lasso_row(list(inp["W"][i]), inp["alpha"]) for i in range(self.d)]
        return {"Z": Z, "want": want}

    def ensures(self, inp, out):
        Z = out["Z"]
        yield "shape", prove.holds(getattr(Z, "shape", None) == inp["W"].shape)
        for i in range(self.d):
            for j in range(self.h):
                yield f"row{i}[{j}]==closed form", prove.eq(Z[i, j], out["want"][i][j])

    def native(self, env, inp):
        W = sx.to_float(inp["W"], env)
        a = float(dag.fev(sx.lift(inp["alpha"]), env))
        Z = model_step("linear", None, W.copy(), None, a, None) if getattr(self, "applied", False) else PG.linear_prox_grad(W.copy(), a)
        res = {}
        for i in range(self.d):
            want = spec.group_lasso_row(list(W[i]), a)
            for j in range(self.h):
                res[f"row{i}[{j}]==closed form"] = (close(Z[i, j], want[j]), {"W": W.tolist(), "alpha": a,
                                                                               "code": float(Z[i, j]), "spec": float(want[j])})
        return res


class GroupLinearProx(SxContract):
    """group_linear_prox_grad(groups, W, alpha) == linear_prox_grad on each group flattened to one row,
    entries restored to their positions, for the given partition."""
    float_replay = True
    fn = "gemclus.sparse._prox_grad.group_linear_prox_grad"

    def __init__(self, d, h, groups, zero_group=None, alpha0=False):
        self.d, self.h, self.groups, self.zero_group, self.alpha0 = d, h, [list(g) for g in groups], zero_group, alpha0
        self.label = (f"group_linear_prox_grad[d={d},h={h},groups={self.groups}" + (f",zero group {zero_group}" if zero_group is not None else "")
                      + (",alpha0" if alpha0 else "") + "]")

    def patches(self):
        return np_patches(PG)

    def build(self, ctx):
        W = sx.sym_array(ctx, "w", (self.d, self.h), lo=-2, hi=2)
        if self.zero_group is not None:
            for f in self.groups[self.zero_group]:
                W[f, :] = sx.Sx(dag.ZERO)        # a group whose weights are all exactly zero (e.g. constant columns)
        alpha = ctx.var("alpha", "+", lo=0.05, hi=2.5)
        return {"W": W, "alpha": sx.Sx(dag.ZERO) if self.alpha0 else alpha}

    def body(self, inp):
        Z = PG.group_linear_prox_grad(self.groups, inp["W"].copy(), inp["alpha"])
        want = {}
        for g in self.groups:
            flat = [inp["W"][f, j] for f in g for j in range(self.h)]
            r = spec.group_lasso_row(flat, inp["alpha"])
            for a, f in enumerate(g):
                for j in range(self.h):
                    want[(f, j)] = r[a * self.h + j]
        return {"Z": Z, "want": want}

    def ensures(self, inp, out):
        Z = out["Z"]
        yield "shape", prove.holds(getattr(Z, "shape", None) == inp["W"].shape)
        for (f, j), w in sorted(out["want"].items()):
            yield f"[{f},{j}]==prox of its flattened group", prove.eq(Z[f, j], w)
        # groups stay whole: all rows of a group are zero together
        for g in self.groups:
            zero = [all(nf.is_zero_node(sx.lift(Z[f, j])) for j in range(self.h)) for f in g]
            yield f"group {g} zeroed as a whole or not at all", prove.holds(all(zero) or not any(zero))


def _group_native(self, env, inp):
    """float replay for the group wrappers: each group against the row operator on the flattened group"""
    W = sx.to_float(inp["W"], env)
    a = float(dag.fev(sx.lift(inp["alpha"]), env))
    Z = model_step("linear", self.groups, W.copy(), None, a, None) if getattr(self, "applied", False) else PG.group_linear_prox_grad(self.groups, W.copy(), a)
    ok = True
    det = {"W": W.tolist(), "alpha": a, "groups": self.groups, "code": np.asarray(Z).tolist()}
    for g in self.groups:
        flat = W[g].reshape(-1)
        want = np.array(spec.group_lasso_row(list(flat), a), dtype=float).reshape(W[g].shape)
        if not close(Z[g], want):
            ok = False
            det["spec for group %s" % g] = want.tolist()
    return {"*": (ok, det)}


GroupLinearProx.native = _group_native


class HierProx(SxContract):
    """mlp_prox_grad(v, u, alpha, M) for one feature (row): feasibility and the KKT certificate of specs/prox.py.
    requires alpha > 0, M > 0 (interior; alpha == 0 and M == 0 are the structures 'alpha0', 'M0'), v not all zero."""
    float_replay = True
    fn = "gemclus.sparse._prox_grad.mlp_prox_grad"
    smt_timeout_ms = 30000

    def __init__(self, k, h, structure="generic", rows=1):
        self.k, self.h, self.structure, self.rows = k, h, structure, rows
        self.label = f"mlp_prox_grad[k={k},h={h},rows={rows},{structure}]"

    def patches(self):
        return np_patches(PG)

    def build(self, ctx):
        V = sx.sym_array(ctx, "v", (self.rows, self.k), lo=-1.5, hi=1.5)
        U = sx.sym_array(ctx, "u", (self.rows, self.h), lo=-2, hi=2)
        alpha = ctx.var("alpha", "+", lo=0.02, hi=2.0)
        M = ctx.var("M", "+", lo=0.1, hi=3.0)
        if self.structure == "alpha0":
            alpha = sx.Sx(dag.ZERO)
        if self.structure == "M0":
            M = sx.Sx(dag.ZERO)
        for r in range(self.rows):
            nonzero_row(ctx, V[r])                          # skip weights not all zero
        return {"V": V, "U": U, "alpha": alpha, "M": M}

    def body(self, inp):
        beta, theta = PG.mlp_prox_grad(inp["V"].copy(), inp["U"].copy(), inp["alpha"], inp["M"])
        return {"beta": beta, "theta": theta}

    def ensures(self, inp, out):
        V, U, alpha, M = inp["V"], inp["U"], inp["alpha"], inp["M"]
        beta, theta = out["beta"], out["theta"]
        yield "shapes", prove.holds(getattr(beta, "shape", None) == V.shape and getattr(theta, "shape", None) == U.shape)
        for r in range(self.rows):
            nb = spec.norm(list(beta[r]))
            nv = spec.norm(list(V[r]))
            lam = []
            bound = M * nb
            for j in range(self.h):
                t, u = theta[r, j], U[r, j]
                at, au = abs(t), abs(u)
                yield f"row{r}: feasible |theta[{j}]| <= M*||beta||", prove.rel(bound - at, "+0")
                yield f"row{r}: lambda[{j}] = |u|-|theta| >= 0", prove.rel(au - at, "+0")
                yield f"row{r}: complementary slackness[{j}]", prove.eq((au - at) * (at - bound), 0)
                yield f"row{r}: sign(theta[{j}]) = sign(u[{j}])", prove.rel(t * u, "+0")
                lam.append(au - at)
            for i in range(self.k):
                for j in range(i + 1, self.k):
                    yield f"row{r}: beta colinear with v [{i},{j}]", prove.eq(beta[r, i] * V[r, j], beta[r, j] * V[r, i])
            for j in range(self.k):
                yield f"row{r}: beta[{j}] same direction as v[{j}]", prove.rel(beta[r, j] * V[r, j], "+0")
            sl = sum(lam[1:], lam[0])
            S = sx.CTX.signs(sx.lift(nb))
            if S == frozenset((0,)):
                yield f"row{r}: stationarity (beta == 0): ||v|| - alpha + M*sum(lambda) <= 0", prove.rel(nv - alpha + M * sl, "-0")
            else:
                yield f"row{r}: stationarity (beta != 0): ||beta|| - ||v|| + alpha - M*sum(lambda) == 0", \
                    prove.eq(nb - nv + alpha - M * sl, 0)

    def native(self, env, inp):
        V, U = sx.to_float(inp["V"], env), sx.to_float(inp["U"], env)
        a = float(dag.fev(sx.lift(inp["alpha"]), env))
        M = float(dag.fev(sx.lift(inp["M"]), env))
        beta, theta = model_step("mlp", None, V.copy(), U.copy(), a, M) if getattr(self, "applied", False) else PG.mlp_prox_grad(V.copy(), U.copy(), a, M)
        # independent reference: brute-force the one-dimensional problem in x = ||beta||/||v||
        res = {}
        ok = True
        det = {"V": V.tolist(), "U": U.tolist(), "alpha": a, "M": M, "beta": beta.tolist(), "theta": theta.tolist()}
        for r in range(self.rows):
            def obj(b, t):
                return 0.5 * ((b - V[r]) ** 2).sum() + 0.5 * ((t - U[r]) ** 2).sum() + a * np.linalg.norm(b)
            mine = obj(beta[r], theta[r])
            feas = np.all(np.abs(theta[r]) <= M * np.linalg.norm(beta[r]) + 1e-9)
            best = np.inf
            for x in np.linspace(0, 1.5, 3001):
                b = x * V[r]
                t = np.sign(U[r]) * np.minimum(np.abs(U[r]), M * np.linalg.norm(b))
                best = min(best, obj(b, t))
            det[f"row{r}"] = {"objective_code": float(mine), "objective_grid_min": float(best), "feasible": bool(feas)}
            if not feas or mine > best + 1e-6 * (1 + abs(best)):
                ok = False
        res["*"] = (ok, det)
        return res


class GroupHierProx(SxContract):
    """group_mlp_prox_grad(groups, W_skip, W1, alpha, M) == mlp_prox_grad on each group flattened to one row."""
    float_replay = True
    fn = "gemclus.sparse._prox_grad.group_mlp_prox_grad"

    def __init__(self, d, k, h, groups):
        self.d, self.k, self.h, self.groups = d, k, h, [list(g) for g in groups]
        self.label = f"group_mlp_prox_grad[d={d},k={k},h={h},groups={self.groups}]"

    def patches(self):
        return np_patches(PG)

    def build(self, ctx):
        V = sx.sym_array(ctx, "v", (self.d, self.k), lo=-1.5, hi=1.5)
        for r in range(self.d):
            nonzero_row(ctx, V[r])
        return {"V": V, "U": sx.sym_array(ctx, "u", (self.d, self.h), lo=-2, hi=2),
                "alpha": ctx.var("alpha", "+", lo=0.02, hi=2.0), "M": ctx.var("M", "+", lo=0.1, hi=3.0)}

    def body(self, inp):
        V, U = inp["V"], inp["U"]
        B, T = PG.group_mlp_prox_grad(self.groups, V.copy(), U.copy(), inp["alpha"], inp["M"])
        want = []
        for g in self.groups:
            fv = np.array([V[f, j] for f in g for j in range(self.k)], dtype=object).reshape((1, -1))
            fu = np.array([U[f, j] for f in g for j in range(self.h)], dtype=object).reshape((1, -1))
            b, t = PG.mlp_prox_grad(fv, fu, inp["alpha"], inp["M"])
            want.append((g, b, t))
        return {"B": B, "T": T, "want": want}

    def ensures(self, inp, out):
        B, T = out["B"], out["T"]
        yield "shapes", prove.holds(getattr(B, "shape", None) == inp["V"].shape and getattr(T, "shape", None) == inp["U"].shape)
        for g, b, t in out["want"]:
            for a, f in enumerate(g):
                for j in range(self.k):
                    yield f"W_skip[{f},{j}]==prox of flattened group {g}", prove.eq(B[f, j], b[0, a * self.k + j])
                for j in range(self.h):
                    yield f"W1[{f},{j}]==prox of flattened group {g}", prove.eq(T[f, j], t[0, a * self.h + j])


def _group_hier_native(self, env, inp):
    V, U = sx.to_float(inp["V"], env), sx.to_float(inp["U"], env)
    a = float(dag.fev(sx.lift(inp["alpha"]), env))
    M = float(dag.fev(sx.lift(inp["M"]), env))
    B, T = model_step("mlp", self.groups, V.copy(), U.copy(), a, M) if getattr(self, "applied", False) else PG.group_mlp_prox_grad(self.groups, V.copy(), U.copy(), a, M)
    ok = True
    det = {"V": V.tolist(), "U": U.tolist(), "alpha": a, "M": M, "groups": self.groups}
    for g in self.groups:
        b, t = PG.mlp_prox_grad(V[g].reshape((1, -1)), U[g].reshape((1, -1)), a, M)
        if not (close(B[g].reshape(-1), b.reshape(-1)) and close(T[g].reshape(-1), t.reshape(-1))):
            ok = False
    return {"*": (ok, det)}


GroupHierProx.native = _group_hier_native


# lemma L4 / L5 (lean/Prox.lean): hypotheses of `hier_certificate_min` <-> clause families of HierProx.ensures
L5_HYPOTHESES = {"hF": "feasible |theta[", "hΛ": "lambda[", "hCS": "complementary slackness[", "hSG": "sign(theta[",
                 "hcol": "beta colinear with v [", "hdir": "] same direction as v[", "hST0/hST1": "stationarity (beta"}
LEAN_LEMMAS = ["gl_zero_min", "gl_zero_unique", "gl_shrink_val", "gl_shrink_min", "gl_shrink_unique", "gl_unique_min",
               "hier_term", "hier_kkt_min", "inner_of_colinear", "hier_certificate_min"]


def lemma_links(obs):
    """the hypotheses of the Lean theorems are exactly the clauses discharged on the real code: for every explored
    mlp_prox_grad shape every hypothesis family of hier_certificate_min has a PROVED clause (hcol only when k >= 2), and
    the Lean statement still carries these hypotheses; for linear_prox_grad the closed form compared with is specs.prox.group_lasso_row,
    whose two branches are the two branches of ProxSpec.glProx."""
    import re
    out = []
    text = open(os.path.join(ROOT, "lean", "Prox.lean")).read()
    m = re.search(r"theorem hier_certificate_min(.*?):=", text, re.S)
    stmt = m.group(1) if m else ""
    want = ["(hF : ∀ j, 0 ≤ M * ‖β‖ - |θ j|)", "(hΛ : ∀ j, 0 ≤ |u j| - |θ j|)", "(hCS : ∀ j, (|u j| - |θ j|) * (|θ j| - M * ‖β‖) = 0)",
            "(hSG : ∀ j, 0 ≤ θ j * u j)", "(hcol : ∀ i j, β i * v j = β j * v i)", "(hdir : ∀ j, 0 ≤ β j * v j)",
            "(hST0 : ‖β‖ = 0 → ‖v‖ - α + M * ∑ j, (|u j| - |θ j|) ≤ 0)", "(hST1 : ‖β‖ ≠ 0 → ‖β‖ - ‖v‖ + α - M * ∑ j, (|u j| - |θ j|) = 0)"]
    hyps = re.findall(r"\((h\w+|hΛ) :", stmt)
    ok = all(w in stmt for w in want) and len(hyps) == len(want)
    out.append(Ob("lean-link: hier_certificate_min has exactly the eight certificate hypotheses", PROVED if ok else UNDECIDED, "text-match", "P",
                  {"hypotheses": hyps}, fn="specs.prox"))
    m = re.search(r"def glProx.*?:=(.*)", text)
    ok = bool(m) and m.group(1).strip() == "if ‖w‖ ≤ α then 0 else (1 - α / ‖w‖) • w"
    import inspect
    src = inspect.getsource(spec.group_lasso_row)
    ok = ok and "if nw <= alpha:" in src and "return [0 * x for x in w]" in src and "return [(1 - alpha / nw) * x for x in w]" in src
    out.append(Ob("lean-link: ProxSpec.glProx is the closed form specs.prox.group_lasso_row compares the code with", PROVED if ok else UNDECIDED,
                  "text-match", "P", {}, fn="specs.prox"))
    labels = sorted({o.name.split(":")[0] for o in obs if o.name.startswith("mlp_prox_grad[")})
    for lab in labels:
        k = int(re.search(r"k=(\d+)", lab).group(1))
        mine = [o for o in obs if o.name.startswith(lab + ":")]
        miss = []
        for hyp, fam in L5_HYPOTHESES.items():
            if hyp == "hcol" and k < 2:
                continue
            got = [o for o in mine if fam in o.name]
            if not got or any(o.status != PROVED for o in got):
                miss.append(hyp)
        out.append(Ob(f"lean-link: {lab} discharges every hypothesis of hier_certificate_min", PROVED if not miss else UNDECIDED, "text-match", "P",
                      {"missing or not proved": miss}, fn="gemclus.sparse._prox_grad.mlp_prox_grad"))
    return out


def task(kind, args, seed=0):
    cls = {"linear": LinearProx, "group_linear": GroupLinearProx, "hier": HierProx, "group_hier": GroupHierProx}[kind]
    return run_sx(cls(*args), seed=seed)
