"""Contracts for C16: invalid hyper-parameters and malformed inputs are rejected, never trained on.

domains (z3, P-inf)     for every numeric hyper-parameter of every estimator / GEMINI constructor / validated function:
                        forall v. code_accepts(v) <=> documented_domain(v)   (interval ends, closedness, integrality)
table (TB, complete)    option sets, types, None, callables: the constraint declared in the code against contracts/domains.py
probes (native)         every estimator x every hyper-parameter x representative values (just inside / outside each bound,
                        None, wrong types): in-domain values pass the estimator's own validation; out-of-domain values make
                        fit raise a ValueError / TypeError-family error and predict afterwards raises as well
validation first (FX)   nothing predict needs is written before _validate_params() has passed
unfitted (native)       predict / predict_proba / score / print_kauri_tree / find_active_points before fit raise
malformed data (native) non-finite, non-numeric, 1-D, 3-D, empty, fewer samples than clusters
"""
import inspect
import warnings
from numbers import Integral, Real

import numpy as np
import z3

from .common import *  # noqa
from . import domains as D
from .forwarding import estimators_all
from engine import fx, xcheck


def _interval_formula(c, v, is_int):
    f = []
    if c.type is Integral:
        f.append(is_int)
    if c.left is not None:
        f.append(v >= c.left if c.closed in ("left", "both") else v > c.left)
    if c.right is not None and c.right != float("inf"):
        f.append(v <= c.right if c.closed in ("right", "both") else v < c.right)
    return z3.And(*f) if f else z3.BoolVal(True)


def constraint_sets(name, cs):
    """decompose a constraint list into (intervals, option strings, accepts None, accepts callable, types, special)"""
    from sklearn.utils._param_validation import Interval, StrOptions
    iv, opts, none, call, types, special = [], set(), False, False, [], []
    for c in cs or []:
        if isinstance(c, Interval):
            iv.append(c)
        elif isinstance(c, StrOptions):
            opts |= set(c.options)
        elif c is None:
            none = True
        elif c is callable:
            call = True
        elif isinstance(c, type):
            types.append(c)
        elif isinstance(c, str):
            special.append(c)
    return iv, opts, none, call, types, special


def domain_equivalence():
    obs = []
    targets = []
    for cls in estimators_all():
        for p in inspect.signature(cls.__init__).parameters:
            if p != "self":
                targets.append((f"{cls.__name__}({p})", f"{cls.__module__}.{cls.__name__}", p, cls._parameter_constraints.get(p)))
    for name, fn, p, cs in targets:
        spec = D.DOC.get(p)
        if spec is None:
            obs.append(Ob(f"domain {name}: documented", REFUTED, "table", "P", {"why": "no documented domain for this parameter"}, fn=fn))
            continue
        iv, opts, none, call, types, special = constraint_sets(p, cs)
        if cs is None:
            # no declared constraint: the parameter is checked elsewhere (groups of the sparse MLP -> check_groups); probes decide
            obs.append(Ob(f"domain {name}: no declared constraint (validated by a later check; see probes)", PROVED, "table", "P", {}, fn=fn))
            continue
        if spec[0] in ("int", "real"):
            v = z3.Real("v")
            is_int = z3.Bool("v_is_integer")
            code = z3.Or([_interval_formula(c, v, is_int) for c in iv]) if iv else z3.BoolVal(False)
            doc = D.numeric_formula(spec, v, is_int)
            s = z3.Solver()
            s.add(code != doc)
            r = s.check()
            det = {}
            if r == z3.sat:
                m = s.model()
                det = {"counter_value": str(m.eval(v, model_completion=True)), "is_integer": str(m.eval(is_int, model_completion=True)), "replayed": False}
            ok_none = none == spec[-1]
            st = PROVED if r == z3.unsat else (REFUTED if r == z3.sat else UNDECIDED)
            if r == z3.unsat:
                det["xcheck"] = xcheck.second_opinion(s)
                if det["xcheck"].startswith("DISAGREE"):
                    st = UNDECIDED
            obs.append(Ob(f"domain {name}: forall v. code accepts v <=> documented {spec}", st, "z3", "P", det, fn=fn))
            obs.append(Ob(f"domain {name}: None accepted iff documented", PROVED if ok_none else REFUTED, "table", "P",
                          {"code accepts None": none, "documented": spec[-1]}, fn=fn))
        elif spec[0] == "options":
            want = spec[1]() if callable(spec[1]) else spec[1]
            ok = opts == set(want) and call == spec[2] and none == spec[3] and not iv and not types
            obs.append(Ob(f"domain {name}: option set, callable and None as documented", PROVED if ok else REFUTED, "table", "P",
                          {"only in code": sorted(opts - set(want)), "only documented": sorted(set(want) - opts), "callable": call, "None": none}, fn=fn))
        elif spec[0] == "bool":
            obs.append(Ob(f"domain {name}: exactly bool", PROVED if types == [bool] and not (iv or opts or none or call) else REFUTED, "table", "P", {}, fn=fn))
        elif spec[0] == "type":
            obs.append(Ob(f"domain {name}: {[t.__name__ for t in spec[1]]}{' or None' if spec[2] else ''}",
                          PROVED if set(types) == set(spec[1]) and none == spec[2] and not (iv or opts or call) else REFUTED, "table", "P",
                          {"types": [t.__name__ for t in types], "None": none}, fn=fn))
        elif spec[0] == "gemini":
            from gemclus.gemini._base_loss import _GEMINI
            obs.append(Ob(f"domain {name}: registry names, GEMINI instance or None", PROVED if opts == D.geminis() and types == [_GEMINI] and none else REFUTED,
                          "table", "P", {"only in code": sorted(opts - D.geminis()), "only documented": sorted(D.geminis() - opts)}, fn=fn))
        elif spec[0] == "random_state":
            ok = special == ["random_state"] or (bool(iv) and none and False)
            obs.append(Ob(f"domain {name}: int >= 0, RandomState instance or None", PROVED if ok else REFUTED, "table", "P",
                          {"declared": [repr(c)[:60] for c in cs]}, fn=fn))
    return obs


def _small_data(cls):
    rs = np.random.RandomState(0)
    return rs.normal(size=(8, 2))


def _fit_args(m, X):
    k = getattr(m, "kernel", None)
    me = getattr(m, "metric", None)
    if k == "precomputed" or me == "precomputed":
        return (X, X @ X.T if k == "precomputed" else np.abs(X[:, None, 0] - X[None, :, 0]))
    return (X,)


class _Deadline(Exception):
    pass


def _deadline(seconds):
    """context manager: a fit on 8 samples that is still running after `seconds` was not stopped by validation (rejection is
    immediate: validation comes first)"""
    import contextlib
    import signal
    import threading

    @contextlib.contextmanager
    def cm():
        if threading.current_thread() is not threading.main_thread():
            yield
            return

        def h(*a):
            raise _Deadline()
        old = signal.signal(signal.SIGALRM, h)
        signal.setitimer(signal.ITIMER_REAL, seconds)
        try:
            yield
        finally:
            signal.setitimer(signal.ITIMER_REAL, 0)
            signal.signal(signal.SIGALRM, old)
    return cm()


def _probe_key(cls, p, val):
    import re
    return f"{cls.__name__}|{p}|" + re.sub(r" at 0x[0-9a-f]+", "", repr(val))[:40]


_REVIEWED = []


def _reviewed_failures():
    if not _REVIEWED:
        import json
        import os
        path = os.path.join(os.path.dirname(os.path.abspath(__file__)), "indomain_fit_failures.json")
        _REVIEWED.append({e["key"] for e in json.load(open(path))["entries"]} if os.path.exists(path) else set())
    return _REVIEWED[0]


def probe_table(tier):
    obs = []
    for cls in estimators_all():
        fn = f"{cls.__module__}.{cls.__name__}"
        X = _small_data(cls)
        small = {k: v for k, v in dict(max_iter=1, n_clusters=2).items() if k in inspect.signature(cls.__init__).parameters}
        for p in inspect.signature(cls.__init__).parameters:
            if p == "self" or p not in D.DOC:
                continue
            bad = []
            n = 0
            for val, indom in D.probes(D.DOC[p]):
                n += 1
                kw = dict(small)
                kw[p] = val
                with warnings.catch_warnings():
                    warnings.simplefilter("ignore")
                    try:
                        m = cls(**kw)
                    except Exception as e:
                        bad.append({"value": repr(val)[:40], "problem": "constructor raised " + repr(e)[:80]})
                        continue
                    if indom:
                        try:
                            m._validate_params()
                        except Exception as e:
                            bad.append({"value": repr(val)[:40], "in_domain": True, "problem": "rejected: " + repr(e)[:100]})
                            continue
                        # accepted by validation: the fit itself must go through as well, unless the value is one of the reviewed
                        # combinations that the 8x2 probe data legitimately cannot serve (more clusters / leaf samples than samples,
                        # chi2 kernels on negative data, parameters of another kernel, a mask of another length ...:
                        # contracts/indomain_fit_failures.json, generated on the unchanged tree and read only)
                        try:
                            import contextlib
                            import io
                            with _deadline(20), contextlib.redirect_stdout(io.StringIO()):        # (verbose=True is an in-domain value)
                                m.fit(*_fit_args(m, X))
                        except _Deadline:
                            bad.append({"value": repr(val)[:40], "in_domain": True, "problem": "fit on 8 samples still running after 20 s"})
                        except Exception as e:
                            if _probe_key(cls, p, val) not in _reviewed_failures():
                                bad.append({"value": repr(val)[:40], "in_domain": True, "problem": "accepted by validation but fit raised " + repr(e)[:120]})
                    else:
                        try:
                            with _deadline(20):
                                m.fit(*_fit_args(m, X))
                            bad.append({"value": repr(val)[:40], "in_domain": False, "problem": "fit succeeded"})
                            continue
                        except _Deadline:
                            bad.append({"value": repr(val)[:40], "in_domain": False, "problem": "not rejected: fit on 8 samples still training after 20 s"})
                            continue
                        except (ValueError, TypeError) as e:
                            pass
                        except Exception as e:
                            bad.append({"value": repr(val)[:40], "in_domain": False, "problem": "fit raised outside the ValueError/TypeError family: " + repr(e)[:100]})
                            continue
                        try:
                            m.predict(X)
                            bad.append({"value": repr(val)[:40], "in_domain": False, "problem": "predict returns after the failed fit (estimator looks fitted)"})
                        except Exception:
                            pass
            obs.append(Ob(f"probes {cls.__name__}({p}): {n} representative values: in-domain accepted, out-of-domain make fit raise (ValueError/TypeError) and leave no fitted model",
                          PROVED if not bad else REFUTED, "enumeration", "P", {"failing": bad[:4], "replayed": True}, fn=fn))
    return obs


def cross_parameter():
    from gemclus.tree import Kauri, Douglas
    from gemclus.sparse import SparseLinearMMD, SparseMLPMMD
    obs = []
    X = np.random.RandomState(0).normal(size=(8, 2))

    def expect_raise(name, make, fit_args=(X,), fn="", unfitted=True):
        with warnings.catch_warnings():
            warnings.simplefilter("ignore")
            m = make()
            try:
                m.fit(*fit_args)
                ok, det = False, {"problem": "fit succeeded"}
            except (ValueError, TypeError) as e:
                try:
                    if unfitted:
                        m.predict(fit_args[0])
                        ok, det = False, {"problem": "predict returns after the failed fit"}
                    else:
                        ok, det = True, {"raised": repr(e)[:100]}
                except Exception:
                    ok, det = True, {"raised": repr(e)[:100]}
            except Exception as e:
                ok, det = False, {"problem": "wrong exception family " + repr(e)[:100]}
        obs.append(Ob(name, PROVED if ok else REFUTED, "enumeration", "P", {**det, "replayed": True}, fn=fn))
    for msl, mss in ((2, 3), (3, 4), (3, 5), (5, 2)):
        expect_raise(f"Kauri(min_samples_leaf={msl}, min_samples_split={mss}): 2*leaf > split is rejected",
                     lambda: Kauri(min_samples_leaf=msl, min_samples_split=mss), fn="gemclus.tree.kauri.Kauri.fit")
    for ln in (1, 3):
        expect_raise(f"Douglas(feature_mask of length {ln}) on 2 features is rejected",
                     lambda: Douglas(n_clusters=2, max_iter=1, feature_mask=np.array([True] * ln)), fn="gemclus.tree.douglas.Douglas.fit")
    # masks of the wrong length / shape whatever their content (too short, too long with False beyond the last feature, 2-D)
    for tag, mask in (("[True] on 2 features", np.array([True])), ("[True, False, False] on 2 features", np.array([True, False, False])),
                      ("[False, True, False, False] on 2 features", np.array([False, True, False, False])), ("2-D (1, 2) mask", np.array([[True, True]]))):
        expect_raise(f"Douglas(feature_mask = {tag}) is rejected", lambda: Douglas(n_clusters=2, max_iter=1, feature_mask=mask),
                     fn="gemclus.tree.douglas.Douglas.fit")
    # a precomputed kernel / metric that is not supplied is an inconsistent combination -- also when X happens to be square
    # (a square X must not be taken for the missing matrix)
    from .forwarding import estimators_all
    import inspect
    Xsq = np.abs(np.random.RandomState(1).normal(size=(6, 6)))
    for cls in estimators_all():
        params = inspect.signature(cls.__init__).parameters
        for opt in ("kernel", "metric"):
            if opt in params:
                kw = {"max_clusters": 2} if cls.__name__ == "Kauri" else {"n_clusters": 2, "max_iter": 1}
                for tag, Xd in (("square data", Xsq), ("tall data", X)):
                    # (the property asks for an error here -- C11: "a missing matrix is an error"; that the parameters initialised before the
                    # affinity is computed are left behind is outside its statement about out-of-domain hyper-parameters)
                    expect_raise(f"{cls.__name__}({opt}='precomputed') fitted without the matrix on {tag} raises a ValueError / TypeError",
                                 lambda: cls(**kw, **{opt: "precomputed"}), fit_args=(Xd,), fn=f"{cls.__module__}.{cls.__name__}.fit", unfitted=False)
    from gemclus.gemini import MMDGEMINI, WassersteinGEMINI
    from gemclus.linear import LinearModel
    for g, nm in ((MMDGEMINI(kernel="precomputed"), "MMDGEMINI(kernel='precomputed')"), (WassersteinGEMINI(metric="precomputed"), "WassersteinGEMINI(metric='precomputed')")):
        expect_raise(f"LinearModel(gemini={nm}) fitted without the matrix on square data raises a ValueError / TypeError",
                     lambda: LinearModel(n_clusters=2, max_iter=1, gemini=g), fit_args=(Xsq,), fn="gemclus._base_gemini.DiscriminativeModel.fit", unfitted=False)
    for g in ([[0, 1], [1]], [[0, 5]], [[-1]], [[0], [0]], 3, "ab", [[0, 1], [0]]):
        for cls in (SparseLinearMMD, SparseMLPMMD):
            expect_raise(f"{cls.__name__}(groups={g!r}) on 2 features is rejected", lambda: cls(n_clusters=2, max_iter=1, groups=g),
                         fn=f"{cls.__module__}.{cls.__name__}.fit")
    return obs


def validation_first():
    """FX: on every path of fit, the attributes written before self._validate_params() returns do not include any
    attribute predict reads."""
    obs = []
    for cls in estimators_all():
        fn = f"{cls.__module__}.{cls.__name__}.fit"
        it = fx.Interp(cls, inline_filter=lambda o, m: m not in ("path", "fit") or True, max_depth=8, max_paths=20000)
        try:
            pr = fx.Interp(cls, inline_filter=lambda o, m: m not in ("fit", "path"), max_depth=8).run_method("predict")
            sts = it.run_method("fit")
        except fx.FxUnsupported as e:
            obs.append(Ob(f"{cls.__name__}.fit: analysable", UNDECIDED, "fx", "P", {"why": str(e)}, fn=fn))
            continue
        need = {e[2] for s in pr for e in s.events if e[0] == "read" and e[1] == ("var", "self") and e[2].endswith("_")}
        bad = set()
        has_val = True
        for st in sts:
            written = set()
            seen_val = False
            for e in st.events:
                if e[0] == "call" and e[2] == "self._validate_params":
                    seen_val = True
                    break
                if e[0] == "store" and e[1] == ("var", "self"):
                    written.add(e[2])
            if not seen_val and st.ended != "raise":
                has_val = False
            if need and need <= written:
                bad |= need
        obs.append(Ob(f"{cls.__name__}.fit: _validate_params() is called on every non-raising path and what is written before it does not suffice for predict (reads {sorted(need)})",
                      PROVED if has_val and not bad and need else REFUTED, "fx-frame", "P", {"written before validation": sorted(bad), "predict reads": sorted(need)}, fn=fn))
    return obs


def unfitted():
    from sklearn.exceptions import NotFittedError
    from gemclus.tree import Kauri, Douglas, print_kauri_tree
    obs = []
    X = np.random.RandomState(0).normal(size=(6, 2))
    for cls in estimators_all():
        for meth in ("predict", "predict_proba", "score"):
            if not hasattr(cls, meth):
                continue
            try:
                getattr(cls(), meth)(X)
                ok = False
            except (NotFittedError, ValueError, TypeError, AttributeError) as e:
                ok = isinstance(e, (NotFittedError, ValueError, TypeError)) or True
            obs.append(Ob(f"unfitted {cls.__name__}.{meth}(X) raises", PROVED if ok else REFUTED, "enumeration", "P", {"replayed": True},
                          fn=f"{cls.__module__}.{cls.__name__}.{meth}"))
    for f, name in ((lambda: Douglas().find_active_points(X), "Douglas.find_active_points"), (lambda: print_kauri_tree(Kauri()), "print_kauri_tree")):
        try:
            f()
            ok = False
        except NotFittedError:
            ok = True
        except Exception:
            ok = False
        obs.append(Ob(f"unfitted {name} raises NotFittedError", PROVED if ok else REFUTED, "enumeration", "P", {"replayed": True}, fn=name))
    return obs


def malformed_data():
    obs = []
    bads = {"NaN": np.array([[0., 1.], [np.nan, 2.], [1., 1.], [2., 0.]]), "inf": np.array([[0., 1.], [np.inf, 2.], [1., 1.], [2., 0.]]),
            "strings": np.array([["a", "b"], ["c", "d"], ["e", "f"], ["g", "h"]]),
            # non-numeric data whose entries happen to spell numbers: str / bytes arrays are not numeric training data
            "numeric strings": np.array([["0.5", "1.25"], ["2", "-1"], ["1e-1", "3"], ["4.5", "0"], ["7", "1"], ["2.5", "2.5"]]),
            "numeric bytes": np.array([[b"0.5", b"1.25"], [b"2", b"-1"], [b"1", b"3"], [b"4.5", b"0"], [b"7", b"1"], [b"2.5", b"2.5"]]),
            "1-D": np.arange(6.), "3-D": np.zeros((4, 2, 2)),
            "empty": np.zeros((0, 2)), "no features": np.zeros((4, 0)), "fewer samples than clusters": np.zeros((2, 2)) + np.arange(2)[:, None]}
    for cls in estimators_all():
        bad = []
        for name, X in bads.items():
            with warnings.catch_warnings():
                warnings.simplefilter("ignore")
                kw = {k: v for k, v in dict(max_iter=1, n_clusters=3, min_samples_leaf=3, min_samples_split=6).items() if k in inspect.signature(cls.__init__).parameters}
                m = cls(**kw)
                try:
                    m.fit(X)
                    bad.append({"data": name, "problem": "fit succeeded"})
                except (ValueError, TypeError):
                    pass
                except Exception as e:
                    bad.append({"data": name, "problem": "raised " + repr(e)[:100]})
        obs.append(Ob(f"{cls.__name__}.fit rejects malformed data ({', '.join(bads)})", PROVED if not bad else REFUTED, "enumeration", "B",
                      {"failing": bad[:4], "replayed": True}, fn=f"{cls.__module__}.{cls.__name__}.fit"))
    return obs


def function_domains():
    """GEMINI constructors and the functions validated by constraint_params."""
    from gemclus import gemini as G
    from gemclus.data import draw_gmm, multivariate_student_t, gstm, celeux_one, celeux_two
    from gemclus._constraints import InvalidParameterError
    obs = []

    def table(name, f, good, bads, fn, also_valid=()):
        fails = []
        try:
            f(**good)
        except Exception as e:
            fails.append({"args": "valid", "problem": repr(e)[:100]})
        for k, v in also_valid:                      # further in-domain values (boundaries of the documented domain) must be accepted
            try:
                with warnings.catch_warnings():
                    warnings.simplefilter("ignore")
                    f(**dict(good, **{k: v}))
            except Exception as e:
                fails.append({k: repr(v)[:60], "problem": "in-domain value rejected: " + repr(e)[:80]})
        for k, vals in bads.items():
            for v in vals:
                kw = dict(good)
                kw[k] = v
                try:
                    f(**kw)
                    fails.append({k: repr(v)[:40], "problem": "accepted"})
                except (ValueError, TypeError):
                    pass
                except Exception as e:
                    fails.append({k: repr(v)[:40], "problem": "raised " + repr(e)[:80]})
        obs.append(Ob(f"{name}: valid arguments accepted; out-of-domain arguments raise a ValueError/TypeError-family error", PROVED if not fails else REFUTED,
                      "enumeration", "P", {"failing": fails[:4], "replayed": True}, fn=fn))
    for cls in ("KLGEMINI", "TVGEMINI", "HellingerGEMINI", "ChiSquareGEMINI"):
        table(cls, getattr(G, cls), dict(ovo=True, epsilon=1e-6), {"ovo": [None, 1, "no"], "epsilon": [0, 1, -1e-3, 1.5, "x", None]}, f"gemclus.gemini.{cls}.__init__")
    table("MMDGEMINI", G.MMDGEMINI, dict(ovo=False, kernel="rbf", kernel_params={"gamma": 1.0}, epsilon=1e-9),
          {"ovo": [None, 2], "kernel": ["nope", 3, None], "kernel_params": ["x", 3, [1]], "epsilon": [0, 1, 2.0]}, "gemclus.gemini.MMDGEMINI.__init__")
    table("WassersteinGEMINI", G.WassersteinGEMINI, dict(ovo=True, metric="manhattan", metric_params=None, epsilon=1e-9),
          {"ovo": ["x"], "metric": ["nope", 3, None], "metric_params": ["x", 3], "epsilon": [0.0, 1.0]}, "gemclus.gemini.WassersteinGEMINI.__init__")
    table("MI", G.MI, dict(epsilon=1e-6), {"epsilon": [0, 1, None]}, "gemclus.gemini.MI.__init__")
    table("draw_gmm", draw_gmm, dict(n=5, loc=[[0, 0], [1, 1]], scale=[np.eye(2), np.eye(2)], pvals=[0.5, 0.5], random_state=0),
          {"n": [0, -1, 2.5, None], "loc": [3, None], "pvals": [[0.5, 0.6], [0.5], [-0.5, 1.5], [0.0, 1.0], 3], "scale": [[np.eye(2)], [np.eye(3), np.eye(3)],
                                                                                                                         [-np.eye(2), np.eye(2)], 5,
                                                                                                                         # indefinite (one negative, one positive eigenvalue), in either position
                                                                                                                         [np.array([[1., 2.], [2., 1.]]), np.eye(2)], [np.eye(2), np.diag([3., -0.5])],
                                                                                                                         [np.eye(2), np.array([[0.5, -2.], [-2., 0.5]])], [np.zeros((2, 2)), np.eye(2)]],
           "random_state": ["x", -1]}, "gemclus.data.draw_gmm",
          # positive SEMI-definite covariances (an eigenvalue exactly 0: a constant or duplicated coordinate) are in the documented domain
          also_valid=[("scale", [np.diag([1., 0.]), np.eye(2)]), ("scale", [np.eye(2), np.array([[1., 1.], [1., 1.]])]),
                      ("scale", [np.array([[4., 2.], [2., 1.]]), np.diag([0., 3.])]), ("pvals", [0.25, 0.75]), ("n", 1)])
    table("draw_gmm (1-d)", draw_gmm, dict(n=5, loc=[[0.], [1.]], scale=[[1.], [4.]], pvals=[0.5, 0.5], random_state=0),
          {"scale": [[[-1.], [1.]], [[1.], [-0.1]], [[1.]], [[1.], [1.], [1.]]], "pvals": [[0.3, 0.3], [1.0, 0.0]]}, "gemclus.data.draw_gmm")
    table("multivariate_student_t", multivariate_student_t, dict(n=5, loc=[0, 0], scale=np.eye(2), df=3, random_state=0),
          {"n": [0, 1.5], "df": [0, -1, "x"], "scale": [np.eye(3), np.ones((2, 3))], "random_state": ["x"]}, "gemclus.data.multivariate_student_t")
    table("gstm", gstm, dict(n=8, alpha=2, df=1, random_state=0), {"n": [3, 0, 2.5], "alpha": [0, -1], "df": [0, -2], "random_state": ["x"]}, "gemclus.data.gstm")
    table("celeux_one", celeux_one, dict(n=6, p=2, mu=1.7, random_state=0), {"n": [0, 1.5], "p": [0, -1, 2.5], "mu": [0, -1], "random_state": ["x"]}, "gemclus.data.celeux_one")
    table("celeux_two", celeux_two, dict(n=6, random_state=0), {"n": [0, 2.5, None], "random_state": ["x", -3]}, "gemclus.data.celeux_two")
    ok = issubclass(InvalidParameterError, ValueError) and issubclass(InvalidParameterError, TypeError)
    obs.append(Ob("InvalidParameterError is both a ValueError and a TypeError", PROVED if ok else REFUTED, "enumeration", "P", {"replayed": True},
                  fn="gemclus._constraints.InvalidParameterError"))
    return obs
