"""FX contracts on the training loops (C03 part 4, C10 step count, C04 glue).

For every gradient-trained estimator class (real MRO), on every path of fit() that trains:
  weights  = self._get_weights()  taken after self._init_params(...)
  optimiser_ = SGDOptimizer(weights, self.learning_rate) iff solver == 'sgd' else AdamOptimizer(weights, self.learning_rate)
  affinity = gemini.compute_affinity(X, y) with gemini = self.get_gemini(), X the validated data
  for _ in range(self.max_iter):
      for X_b, A_b in self._batchify(X, affinity, random_state):      # random_state = check_random_state(self.random_state)
          y = self._infer(X_b); (_, g) = gemini(y, A_b, return_grad=True)
          d = self._compute_grads(X_b, y, g); self._update_weights(weights, d)
  labels_ = self._infer(X).argmax(1); n_iter_ = self.max_iter
and nothing else reaches the optimiser.  Terms are compared structurally, so renaming locals or
reordering independent statements does not matter.  The same contract is stated on the inner
loop of sparse._base_sparse._path.
"""
from .common import *  # noqa
from engine import fx

TRAIN_METHODS = ("_infer", "_compute_grads", "_update_weights", "_get_weights", "_init_params", "get_gemini",
                 "_validate_params", "_batchify")


def gradient_estimators():
    from gemclus.linear import LinearModel, LinearMMD, LinearWasserstein, RIM, KernelRIM
    from gemclus.mlp import MLPModel, MLPMMD, MLPWasserstein
    from gemclus.sparse import SparseLinearModel, SparseLinearMMD, SparseLinearMI, SparseMLPModel, SparseMLPMMD
    from gemclus.nonparametric import CategoricalModel, CategoricalMMD, CategoricalWasserstein
    from gemclus.tree import Douglas
    return [LinearModel, LinearMMD, LinearWasserstein, RIM, KernelRIM, MLPModel, MLPMMD, MLPWasserstein,
            SparseLinearModel, SparseLinearMMD, SparseLinearMI, SparseMLPModel, SparseMLPMMD,
            CategoricalModel, CategoricalMMD, CategoricalWasserstein, Douglas]


def _loop_body_obligations(st, prefix, who, fn):
    """check the training-step contract on one path; `who` is 'self' or 'clf'."""
    obs = []

    def ob(name, ok, detail=None):
        obs.append(Ob(f"{prefix}:{name}", PROVED if ok else REFUTED, "fx-dataflow", "P", detail or {}, fn=fn))
    ev = st.events
    upd = [e for e in ev if e[0] == "call" and e[2] == f"{who}._update_weights"]
    ob("exactly one _update_weights call site, inside the batch loop",
       len(upd) == 1 and len(upd[0][5]) >= 2, {"sites": len(upd)})
    if len(upd) != 1:
        return obs
    u = upd[0]
    loops = u[5]
    inner = loops[-1]
    # the batch loop iterates the generator returned by _batchify
    enter = [e for e in ev if e[0] == "loop-enter" and e[1] == inner]
    it = enter[0][2] if enter else None
    is_bat = isinstance(it, tuple) and it[0] == "callres" and it[2] == f"{who}._batchify"
    ob("batch loop iterates _batchify(...)", is_bat, {"iter": fx.show(it)})
    if not is_bat:
        return obs
    elem = ("iter", it, inner[0])
    Xb, Ab = ("item", elem, fx.C(0)), ("item", elem, fx.C(1))
    weights, d = (u[3] + (None, None))[:2]
    cg = d if isinstance(d, tuple) and d[:1] == ("callres",) and d[2] == f"{who}._compute_grads" else None
    ob("_update_weights receives the result of _compute_grads of this step", cg is not None, {"arg": fx.show(d)})
    gw = weights if isinstance(weights, tuple) and weights[:1] == ("callres",) and weights[2] == f"{who}._get_weights" else None
    ob("_update_weights receives the list returned by _get_weights()", gw is not None, {"arg": fx.show(weights)})
    if cg is None:
        return obs
    a = cg[3]
    ok_x = len(a) == 3 and a[0] == Xb
    y = a[1] if len(a) == 3 else None
    ok_y = isinstance(y, tuple) and y[:1] == ("callres",) and y[2] == f"{who}._infer" and y[3][:1] == (Xb,)
    ob("_compute_grads(X_batch, y_pred, grads): X_batch is this batch", ok_x, {"arg": fx.show(a[0]) if a else None})
    ob("y_pred = _infer(X_batch) on this batch", ok_y, {"arg": fx.show(y)})
    g = a[2] if len(a) == 3 else None
    # g must be element 1 of gemini(y, A_b, return_grad=True)
    gem = g[1] if isinstance(g, tuple) and g[0] == "item" and g[2] == fx.C(1) else None
    ok_g = (isinstance(gem, tuple) and gem[:1] == ("callres",) and gem[3][:2] == (y, Ab)
            and dict(gem[4]).get("return_grad") == fx.C(True))
    ob("grads = gemini(y_pred, affinity_batch, return_grad=True)[1] with this batch's affinity block", ok_g,
       {"arg": fx.show(g)})
    if ok_g:
        gcall = [e for e in ev if e[0] == "call" and e[1] == gem[1]]
        callee = gcall[0][6] if gcall else None
        # the callee is the object returned by get_gemini()
        names = ("self.get_gemini", "clf.get_gemini")
        ok_c = isinstance(callee, tuple) and (
            (callee[:1] == ("callres",) and callee[2] in names) or callee[0] in ("attr", "callres", "ite"))
        ob("the objective called is the model's GEMINI (get_gemini())", ok_c, {"callee": fx.show(callee)})
        # batchify arguments
        b = it[3]
        aff = b[1] if len(b) > 1 else None
        ok_aff = (isinstance(aff, tuple) and aff[:1] == ("callres",) and aff[2].endswith(".compute_affinity"))
        ob("_batchify(X, affinity, rng): affinity = gemini.compute_affinity(...)", ok_aff or who == "clf",
           {"affinity": fx.show(aff)})
        # what is cut into batches is the caller's data: validated (or kernelised against itself), never re-ordered, filtered or
        # subsampled first -- row i of the batched array is sample i of the caller (the index bookkeeping of the
        # must-link / cannot-link hook and labels_ rely on it) -- and the affinity is computed on that same array with the caller's y
        ok_rows = _caller_rows(b[0]) if b else False
        ob("the array cut into batches is the caller's data in the caller's row order (validated / kernelised only)", ok_rows, {"data": fx.show(b[0])[:200] if b else None})
        if ok_aff:
            ca = aff[3]
            ok_same = len(ca) >= 1 and (ca[0] == b[0] or (_caller_rows(ca[0]) and _caller_rows(b[0]))) and (len(ca) < 2 or ca[1] in (("var", "y"), fx.C(None)))
            ob("the affinity is computed on that same array and the caller's y", ok_same, {"args": [fx.show(x)[:120] for x in ca]})
    return obs


_ROW_PRESERVING = ("validate_data", "check_array", "self._validate_data", "np.asarray", "np.array", "np.ascontiguousarray", "np.asfortranarray",
                   "self._compute_kernel", "self.base_kernel", "pairwise_kernels")


def _caller_rows(t):
    """t denotes the caller's X, row for row: X itself, or X through validation / dtype conversion / a kernel against itself"""
    t = fx.strip(t)
    if t == ("var", "X"):
        return True
    if (isinstance(t, tuple) and t[0] == "item" and isinstance(t[2], tuple) and t[2][0] == "tuple" and len(t[2][1]) == 2
            and t[2][1][0] == ("slice", fx.C(None), fx.C(None), fx.C(None))):
        return _caller_rows(t[1])           # X[:, columns]: all rows, in order (the dynamic mode of the sparse path scores selected columns)
    if isinstance(t, tuple) and t[:1] == ("callres",):
        name, args = t[2], t[3]
        if name.endswith(".astype") or name.endswith(".copy"):
            return True if name.split(".")[0] == "X" else False
        if name in _ROW_PRESERVING:
            arr = [a for a in args if a != ("var", "self")]
            if name in ("self.base_kernel", "pairwise_kernels", "self._compute_kernel"):
                return bool(arr) and all(_caller_rows(a) for a in arr[:2])
            return bool(arr) and _caller_rows(arr[0])
    return False


def fit_obligations(cls):
    fn = f"{cls.__module__}.{cls.__name__}.fit"
    label = f"{cls.__name__}.fit"
    it = fx.Interp(cls, inline_filter=lambda o, m: m not in TRAIN_METHODS and m != "path")
    try:
        sts = it.run_method("fit")
    except fx.FxUnsupported as e:
        return [Ob(f"{label}:analysable", UNDECIDED, "fx", "P", {"why": str(e)}, fn=fn)]
    obs = []
    obs.append(Ob(f"{label}:linkage (every self.<method> resolves in the real MRO)",
                  PROVED if not it.unresolved else REFUTED, "fx-linkage", "P",
                  {"unresolved": sorted(set(it.unresolved)), "replayed": False}, fn=fn))
    trained = [s for s in sts if s.ended == "return" and any(e[0] == "call" and e[2] == "self._update_weights" for e in s.events)]
    obs.append(Ob(f"{label}:has a training path", PROVED if trained else REFUTED, "fx", "P", {"paths": len(sts)}, fn=fn))
    agg = {}
    for st in trained:
        for o in _loop_body_obligations(st, label, "self", fn) + _fit_frame_obligations(st, label, fn):
            cur = agg.get(o.name)
            if cur is None or (o.status != PROVED and cur.status == PROVED):
                agg[o.name] = o
    obs.extend(agg.values())
    return obs


def _fit_frame_obligations(st, label, fn):
    obs = []

    def ob(name, ok, detail=None):
        obs.append(Ob(f"{label}:{name}", PROVED if ok else REFUTED, "fx-dataflow", "P", detail or {}, fn=fn))
    ev = st.events
    upd = [e for e in ev if e[0] == "call" and e[2] == "self._update_weights"][0]
    outer = upd[5][0]
    ent = [e for e in ev if e[0] == "loop-enter" and e[1] == outer]
    it = ent[0][2] if ent else None
    ok = isinstance(it, tuple) and it[:1] == ("callres",) and it[2] == "range" and it[3] == (("attr", ("var", "self"), "max_iter"),)
    ob("epoch loop is range(self.max_iter)", ok, {"iter": fx.show(it)})
    # optimiser
    st_opt = [e for e in ev if e[0] == "store" and e[2] == "optimiser_"]
    weights = upd[3][0]
    okopt = False
    det = {}
    if len(st_opt) == 1:
        v = st_opt[0][3]
        det["optimiser"] = fx.show(v)[:200]
        solver_sgd = None
        for c, b in st.pc:
            if c == ("cmp", ("Eq",), (("attr", ("var", "self"), "solver"), fx.C("sgd"))):
                solver_sgd = b
        want = "SGDOptimizer" if solver_sgd else "AdamOptimizer"
        okopt = (isinstance(v, tuple) and v[:1] == ("callres",) and v[2] == want and len(v[3]) >= 2 and v[3][0] == weights
                 and v[3][1] == ("attr", ("var", "self"), "learning_rate") and solver_sgd is not None)
    ob("optimiser_ = SGD iff solver=='sgd' else Adam, built over the same weights list with self.learning_rate", okopt, det)
    # weights taken after _init_params
    names = [e[2] for e in ev if e[0] == "call"]
    ok_order = ("self._init_params" in names and "self._get_weights" in names
                and names.index("self._init_params") < names.index("self._get_weights"))
    ob("weights = _get_weights() after _init_params()", ok_order)
    # labels_ / n_iter_
    lab = [e for e in ev if e[0] == "store" and e[2] == "labels_"]
    okl = False
    if lab:
        v = lab[-1][3]
        okl = (isinstance(v, tuple) and v[:1] == ("callres",) and v[2].endswith(".argmax") and v[3] == (fx.C(1),))
        inf = [e for e in ev if e[0] == "call" and e[1] == v[1]] if okl else []
        callee = inf[0][6] if inf else None
        okl = okl and isinstance(callee, tuple) and callee[0] == "attr" and callee[1][:1] == ("callres",) and callee[1][2] == "self._infer"
    ob("labels_ = _infer(X).argmax(1) after training", okl, {"labels_": fx.show(lab[-1][3]) if lab else None})
    ni = [e for e in ev if e[0] == "store" and e[2] == "n_iter_"]
    ob("n_iter_ = max_iter", bool(ni) and ni[-1][3] == ("attr", ("var", "self"), "max_iter"))
    # validation dominates everything else
    first = [e for e in ev if e[0] in ("call", "store")]
    first_names = [e[2] for e in first if e[0] == "call"]
    ob("_validate_params() happens before any training step",
       "self._validate_params" in first_names and first_names.index("self._validate_params") < first_names.index("self._init_params"))
    return obs


def path_obligations():
    from gemclus.sparse import _base_sparse as BS
    fn = "gemclus.sparse._base_sparse._path"
    it = fx.Interp(None)
    try:
        sts = it.run_function(BS._path)
    except fx.FxUnsupported as e:
        return [Ob("_path:analysable", UNDECIDED, "fx", "P", {"why": str(e)}, fn=fn)]
    obs = []
    agg = {}
    trained = [s for s in sts if any(e[0] == "call" and e[2] == "clf._update_weights" for e in s.events)]
    obs.append(Ob("_path:has a training path", PROVED if trained else REFUTED, "fx", "P", {"paths": len(sts)}, fn=fn))
    for st in trained:
        for o in _loop_body_obligations(st, "_path", "clf", fn):
            cur = agg.get(o.name)
            if cur is None or (o.status != PROVED and cur.status == PROVED):
                agg[o.name] = o
    obs.extend(agg.values())
    return obs


def obligations():
    obs = []
    for cls in gradient_estimators():
        obs.extend(fit_obligations(cls))
    obs.extend(path_obligations())
    return obs
