"""Contracts for C06: selection reads exact zeros, unselected features are inert, groups stay whole,
shrinkage is the proximal step with threshold alpha * learning_rate."""
import itertools

import numpy as np

from .common import *  # noqa
from .models_vjp import std_patches, SM, SL
from engine import fx
from specs import prox as pspec


class Selection(SxContract):
    """zero_rows: features whose (skip-)weight row is exactly zero (and, for the MLP, whose first-layer row is zero)."""
    float_replay = True
    max_paths = 5000

    def __init__(self, family, n, d, K, zero_rows, h=2, w1_zero=()):
        self.family, self.n, self.d, self.K, self.Z, self.h, self.W1Z = family, n, d, K, tuple(zero_rows), h, tuple(w1_zero)
        self.label = f"{family}.selection[n={n},d={d},K={K},zero_rows={list(zero_rows)}" + (f",first-layer-only zero rows={list(w1_zero)}]" if w1_zero else "]")
        self.fn = {"sparse_linear": "gemclus.sparse._linear_sparse.SparseLinearModel.get_selection",
                   "sparse_mlp": "gemclus.sparse._mlp_sparse.SparseMLPModel.get_selection"}[family]

    def patches(self):
        return std_patches()

    def build(self, ctx):
        d, K, h = self.d, self.K, self.h
        zero = sx.Sx(dag.ZERO)
        if self.family == "sparse_linear":
            m = SL.SparseLinearModel(n_clusters=K)
            m.W_ = sx.sym_array(ctx, "w", (d, K))
            m.b_ = sx.sym_array(ctx, "b", (1, K))
            for f in self.Z:
                m.W_[f, :] = zero
            self.sel = m.W_
        else:
            m = SM.SparseMLPModel(n_clusters=K, n_hidden_dim=h)
            m.W1_ = sx.sym_array(ctx, "u", (d, h))
            m.b1_ = sx.sym_array(ctx, "c", (1, h))
            m.W2_ = sx.sym_array(ctx, "v", (h, K))
            m.b2_ = sx.sym_array(ctx, "e", (1, K))
            m.W_skip_ = sx.sym_array(ctx, "s", (d, K))
            for f in self.Z:
                m.W_skip_[f, :] = zero
                m.W1_[f, :] = zero          # hierarchy: |W1[f,j]| <= M * ||W_skip[f]|| = 0  (C05 feasibility)
            for f in self.W1Z:
                m.W1_[f, :] = zero          # M = 0 (legal): the first layer is clipped to zero while the skip weights live on
            self.sel = m.W_skip_
        self.model = m
        return {"X": sx.sym_array(ctx, "x", (self.n, d))}

    def body(self, inp):
        m = self.model
        return {"selection": list(m.get_selection()), "count": m._n_selected_features(), "penalty": m._group_lasso_penalty(),
                "y": m._infer(inp["X"].copy(), retain=False)}

    def ensures(self, inp, out):
        d, n, K = self.d, self.n, self.K
        want = [f for f in range(d) if f not in self.Z]
        yield "get_selection() == features with a non-zero weight row", prove.holds(
            [int(x) for x in out["selection"]] == want, f"{out['selection']} vs {want}")
        yield "_n_selected_features() == number of non-zero rows", prove.holds(int(out["count"]) == len(want))
        pen = sx.Sx(dag.ZERO)
        for f in want:
            pen = pen + pspec.norm(list(self.sel[f]))
        yield "_group_lasso_penalty() == sum of row norms", prove.eq(out["penalty"], pen)
        for f in self.Z:
            for i in range(n):
                for k in range(K):
                    for i2 in range(n):
                        yield f"unselected feature {f}: y[{i},{k}] independent of x[{i2},{f}]", prove.indep(out["y"][i, k], f"x_{i2}_{f}")


def task(family, n, d, K, zero_rows, seed=0, w1_zero=()):
    return run_sx(Selection(family, n, d, K, zero_rows, w1_zero=w1_zero), seed=seed)


# ------------------------------------------------------------------ FX: threshold flow in _update_weights
def update_weights_flow():
    from gemclus.sparse import SparseLinearModel, SparseMLPModel, SparseLinearMMD, SparseLinearMI, SparseMLPMMD
    obs = []
    SELF = ("var", "self")
    lr = ("attr", ("attr", SELF, "optimiser_"), "learning_rate")
    thr = ("binop", "Mult", ("attr", SELF, "alpha"), lr)
    for cls in (SparseLinearModel, SparseLinearMMD, SparseLinearMI, SparseMLPModel, SparseMLPMMD):
        fn = f"{cls.__module__}.{cls.__name__}._update_weights"
        mlp = issubclass(cls, SparseMLPModel)
        it = fx.Interp(cls, inline_filter=lambda o, m: False)
        sts = it.run_method("_update_weights")

        def ob(name, ok, det=None):
            obs.append(Ob(f"{cls.__name__}._update_weights:{name}", PROVED if ok else REFUTED, "fx-dataflow", "P", det or {}, fn=fn))
        ob("two paths (groups_ is None / not None), none raising", len(sts) == 2 and all(s.ended is None for s in sts), {"paths": len(sts)})
        for st in sts:
            grouped = any(c == ("cmp", ("Is",), (("attr", SELF, "groups_"), fx.C(None))) and b is False for c, b in st.pc)
            tag = "grouped" if grouped else "ungrouped"
            cs = [e for e in st.events if e[0] == "call"]
            names = [e[2] for e in cs]
            pname = ("group_" if grouped else "") + ("mlp_prox_grad" if mlp else "linear_prox_grad")
            ok_order = (names[:1] == ["self.optimiser_.update_params"] and cs[0][3] == (("var", "weights"), ("var", "gradients"))
                        and names.count("self.optimiser_.update_params") == 1)
            ob(f"{tag}: optimiser update(weights, gradients) happens once, before the shrinkage", ok_order, {"calls": names})
            pc = [e for e in cs if e[2] == pname]
            ok_p = len(pc) == 1 and names.index(pname) > 0
            if ok_p:
                a = pc[0][3]
                if mlp:
                    want = ((("attr", SELF, "groups_"),) if grouped else ()) + (("attr", SELF, "W_skip_"), ("attr", SELF, "W1_"), thr, ("attr", SELF, "M"))
                else:
                    want = ((("attr", SELF, "groups_"),) if grouped else ()) + (("attr", SELF, "W_"), thr)
                ok_p = a == want
            ob(f"{tag}: shrinkage is {pname} with threshold alpha * optimiser_.learning_rate" + (" and M" if mlp else ""), ok_p,
               {"args": [fx.show(x) for x in pc[0][3]] if pc else None})
            cp = [e for e in cs if e[2] == "np.copyto"]
            # `np.copyto(W, new)`, `W[...] = new` and `W[:] = new` are the same in-place copy
            whole = (fx.C(Ellipsis), ("slice", fx.C(None), fx.C(None), fx.C(None)))
            inplace = [(e[1], e[2][2]) for e in st.events if e[0] == "mutate" and isinstance(e[2], tuple) and e[2][0] == "setitem" and e[2][1] in whole]
            if pc and ok_p:
                res = ("callres", pc[0][1], pname, pc[0][3], pc[0][4])
                if mlp:
                    want_cp = [(("attr", SELF, "W_skip_"), ("item", res, fx.C(0))), (("attr", SELF, "W1_"), ("item", res, fx.C(1)))]
                else:
                    want_cp = [(("attr", SELF, "W_"), res)]
                ok_c = ([e[3] for e in cp] + inplace) == want_cp
            else:
                ok_c = False
            ob(f"{tag}: results copied in place into the arrays the optimiser owns", ok_c, {"copyto": [[fx.show(x) for x in e[3]] for e in cp]})
    return obs


def training_steps_flow():
    """`the shrinkage applied after each optimiser step`: the two training loops of a sparse model -- DiscriminativeModel.fit
    (inherited) and _base_sparse._path -- hand every batch gradient to the model's own _update_weights (optimiser step followed
    by the proximal step, contract above) in the iteration that computed it, and never step the optimiser themselves."""
    from gemclus._base_gemini import DiscriminativeModel
    from gemclus.sparse import _base_sparse as BS
    obs = []
    for label, fn, run in (("DiscriminativeModel.fit", "gemclus._base_gemini.DiscriminativeModel.fit",
                            lambda: fx.Interp(DiscriminativeModel, inline_filter=lambda o, m: False).run_method("fit")),
                           ("_path", "gemclus.sparse._base_sparse._path", lambda: fx.Interp(None).run_function(BS._path))):
        try:
            sts = run()
        except fx.FxUnsupported as e:
            obs.append(Ob(f"{label}: training loop analysable", UNDECIDED, "fx", "P", {"why": str(e)}, fn=fn))
            continue
        ok, det, trained = True, {}, 0
        for st in sts:
            if st.ended == "raise":
                continue
            cs = [e for e in st.events if e[0] == "call"]
            direct = [e[2] for e in cs if e[2].endswith(".update_params") or e[2].endswith("_prox_grad")]
            cg = [e for e in cs if e[2].endswith("._compute_grads")]
            uw = [e for e in cs if e[2].endswith("._update_weights")]
            trained += bool(cg)
            good = not direct and len(cg) == len(uw)
            for g_, u_ in zip(cg, uw):
                res = ("callres", g_[1], g_[2], g_[3], g_[4])
                am = fx.argmap(("callres", u_[1], u_[2], u_[3], u_[4]), ("weights", "gradients"))
                good = (good and g_[5] == u_[5] and len(g_[5]) >= 2 and cs.index(g_) < cs.index(u_) and am.get("gradients") == res
                        and set(am) == {"weights", "gradients"})
            if not good:
                ok = False
                det = {"direct optimiser / prox calls": direct, "gradients computed": len(cg), "handed to _update_weights": len(uw)}
        obs.append(Ob(f"{label}: every batch gradient is applied by the model's _update_weights in the iteration that computed it; the loop never "
                      "steps the optimiser or shrinks by itself (shrinkage follows each optimiser step)",
                      PROVED if ok and trained else REFUTED, "fx-dataflow", "P", det, fn=fn))
    return obs


def fit_groups_flow():
    """fit of every sparse estimator: groups_ = check_groups(self.groups, X.shape[1]) is stored before training starts"""
    from gemclus.sparse import SparseLinearModel, SparseMLPModel, SparseLinearMMD, SparseLinearMI, SparseMLPMMD
    obs = []
    SELF = ("var", "self")
    for cls in (SparseLinearModel, SparseLinearMMD, SparseLinearMI, SparseMLPModel, SparseMLPMMD):
        fn = f"{cls.__module__}.{cls.__name__}.fit"
        it = fx.Interp(cls, inline_filter=lambda o, m: m == "fit")
        sts = it.run_method("fit")
        ok = bool(sts)
        for st in sts:
            g = [e for e in st.events if e[0] == "store" and e[1] == SELF and e[2] == "groups_"]
            tr = [i for i, e in enumerate(st.events) if e[0] == "call" and e[2] in ("self._init_params", "self._update_weights")]
            good = (len(g) == 1 and g[0][3][:1] == ("callres",) and g[0][3][2] == "check_groups"
                    and g[0][3][3] == (("attr", SELF, "groups"), ("item", ("attr", ("var", "X"), "shape"), fx.C(1)))
                    and (not tr or st.events.index(g[0]) < tr[0]))
            ok = ok and (good or st.ended == "raise")
        obs.append(Ob(f"{cls.__name__}.fit: groups_ = check_groups(self.groups, n_features) is stored before any parameter is initialised or updated",
                      PROVED if ok else REFUTED, "fx-dataflow", "P", {}, fn=fn))
    return obs


# ------------------------------------------------------------------ B: check_groups, exhaustive over small feature sets
def check_groups_exhaustive(dmax=4):
    from gemclus.sparse._base_sparse import check_groups
    fn = "gemclus.sparse._base_sparse.check_groups"
    bad = []
    total = 0
    for d in range(1, dmax + 1):
        idxs = list(range(-1, d + 1))
        cand_groups = [list(c) for r in (1, 2, 3) for c in itertools.permutations(idxs, r) if r <= d + 1]
        cand_groups = cand_groups if d <= 3 else [g for g in cand_groups if len(g) <= 2]
        lists = [[g] for g in cand_groups] + [[g, h] for g in cand_groups for h in cand_groups if len(g) + len(h) <= d + 1]
        if d <= 3:
            lists += [[g, h, k] for g in cand_groups for h in cand_groups for k in cand_groups if len(g) == len(h) == len(k) == 1]
        for groups in lists:
            total += 1
            flat = [i for g in groups for i in g]
            legal = all(0 <= i < d for i in flat) and len(set(flat)) == len(flat)
            try:
                r = check_groups([list(g) for g in groups], d)
                raised = False
            except ValueError:
                raised = True
            if legal:
                ok = (not raised and [list(g) for g in r[:len(groups)]] == [list(g) for g in groups]
                      and all(len(g) == 1 for g in r[len(groups):])
                      and sorted(i for g in r for i in g) == list(range(d)))
            else:
                ok = raised
            if not ok:
                bad.append({"groups": groups, "d": d, "raised": raised})
    none_ok = check_groups(None, 3) is None
    obs = [Ob("check_groups: exhaustive group lists over d <= %d (indices -1..d): legal lists completed with singletons into a partition, "
              "overlapping / out-of-range lists raise ValueError" % dmax, PROVED if not bad and none_ok else REFUTED, "enumeration", "B",
              {"evaluated": total, "failing": bad[:5], "replayed": True}, fn=fn)]
    return obs


def selection_frame():
    """FX frame of the selection observers of every sparse estimator: get_selection / _n_selected_features / _group_lasso_penalty
    read only constructor options and the learnt parameters (what _init_params creates) and write NOTHING on the estimator --
    a mask cached on the object survives weight restoration / set_params and makes the reported selection depend on history."""
    import inspect
    from gemclus.sparse import SparseLinearModel, SparseMLPModel, SparseLinearMMD, SparseLinearMI, SparseMLPMMD
    SELF = ("var", "self")
    obs = []
    for cls in (SparseLinearModel, SparseLinearMMD, SparseLinearMI, SparseMLPModel, SparseMLPMMD):
        hp = set(inspect.signature(cls.__init__).parameters) - {"self"}
        try:
            ini = fx.Interp(cls, inline_filter=lambda o, m: True, max_depth=6).run_method("_init_params")
        except fx.FxUnsupported as e:
            obs.append(Ob(f"{cls.__name__}: selection observers analysable", UNDECIDED, "fx", "P", {"why": str(e)}, fn=f"{cls.__name__}.get_selection"))
            continue
        learnt = {e[2] for st in ini for e in st.events if e[0] == "store" and e[1] == SELF} | {"groups_"}
        for meth in ("get_selection", "_n_selected_features", "_group_lasso_penalty"):
            fn = f"{cls.__module__}.{cls.__name__}.{meth}"
            try:
                sts = fx.Interp(cls, inline_filter=lambda o, m: m != "fit", max_depth=6).run_method(meth)
            except fx.FxUnsupported as e:
                obs.append(Ob(f"{cls.__name__}.{meth}: frame analysable", UNDECIDED, "fx", "P", {"why": str(e)}, fn=fn))
                continue
            writes, reads, hidden = set(), set(), set()
            for st in sts:
                for e in st.events:
                    if e[0] == "store" and e[1] == SELF:
                        writes.add(e[2])
                    if e[0] == "mutate" and isinstance(e[1], tuple) and e[1][:2] == ("attr", SELF):
                        writes.add(e[1][2])
                    if e[0] == "read" and e[1] == SELF and not callable(getattr(cls, e[2], None)):
                        reads.add(e[2])
                    if e[0] == "call" and e[2] in ("getattr", "hasattr", "setattr") and len(e[3]) >= 2 and e[3][0] == SELF:
                        hidden.add(fx.show(e[3][1])[:40])
            state = sorted((reads - hp - learnt) | hidden)
            obs.append(Ob(f"{cls.__name__}.{meth}: reads only constructor options and learnt parameters, writes nothing on the estimator (no cached selection)",
                          PROVED if not state and not writes else REFUTED, "fx-dataflow", "P",
                          {"other state read": state, "attributes written": sorted(writes)}, fn=fn))
    return obs


def native_selection_histories(seed=0):
    """B: after every way the weights can change -- fit, path() with and without restoration of the best weights, a second fit,
    weights set back by hand -- get_selection() is exactly the set of non-zero (skip-)weight rows of the CURRENT weights,
    _n_selected_features() its size, and perturbing any other feature leaves predict_proba unchanged."""
    import warnings
    from gemclus.sparse import SparseLinearMMD, SparseMLPMMD
    rs = np.random.RandomState(seed + 23)
    X = rs.normal(size=(40, 5)) + 2.5 * rs.randint(0, 3, size=(40, 1)) * np.array([1.0, 1.0, 0.0, 0.0, 0.0])
    obs = []

    def state_ok(m, tag, why):
        W = m.W_skip_ if hasattr(m, "W_skip_") else m.W_
        want = np.flatnonzero(np.linalg.norm(W, axis=1) != 0)
        got = np.sort(np.asarray(m.get_selection()).ravel())
        if not np.array_equal(got, want) or m._n_selected_features() != len(want):
            why.append(f"{tag}: get_selection() = {got.tolist()}, n = {m._n_selected_features()}, non-zero rows = {want.tolist()}")
        P0 = m.predict_proba(X)
        for f in range(X.shape[1]):
            if f not in got:
                Z = X.copy()
                Z[:, f] += 7.5
                if not np.allclose(m.predict_proba(Z), P0, rtol=0, atol=1e-12):
                    why.append(f"{tag}: feature {f} is not reported as selected but moves predict_proba")
    for name, mk in (("SparseLinearMMD", lambda: SparseLinearMMD(n_clusters=3, max_iter=15, alpha=0.5, learning_rate=0.05, random_state=seed)),
                     ("SparseMLPMMD", lambda: SparseMLPMMD(n_clusters=3, max_iter=15, alpha=0.5, learning_rate=0.05, n_hidden_dim=4, random_state=seed))):
        why = []
        try:
            with warnings.catch_warnings(), np.errstate(all="ignore"):
                warnings.simplefilter("ignore")
                m = mk().fit(X)
                state_ok(m, "after fit", why)
                for restore in (True, False):
                    m = mk()
                    m.path(X, alpha_multiplier=1.6, min_features=1, keep_threshold=0.9, restore_best_weights=restore, max_patience=2)
                    state_ok(m, f"after path(restore_best_weights={restore})", why)
                    m.fit(X)
                    state_ok(m, "after a fit that follows the path", why)
        except Exception as e:
            why.append("raised " + repr(e)[:200])
        obs.append(Ob(f"{name}: get_selection() == non-zero rows of the current weights, other features inert -- after fit, path (with / without restoration), refit",
                      PROVED if not why else REFUTED, "native", "B", {"failed": why[:4], "replayed": True}, fn=f"gemclus.sparse.{name}.get_selection"))
    return obs
