"""Contracts on the KAURI split search (property C08), on the source of gemclus/tree/_utils.pyx
de-cythonised mechanically on every run (engine/decython.py lists what the extraction drops).

Lemma A  (formulas)   every candidate gain compute_all_splits evaluates equals the actual increase of the
                      kernel-KMeans objective obtained by applying that split and its targets -- symbolic symmetric
                      kernel (not assumed PSD), every tree state up to n samples, identity decided by the NF prover
Stocks               the arguments find_best_split hands to compute_all_splits are the kernel stocks they are
                      documented to be, and the visited (leaf, position) pairs are exactly the admissible ones
"""
import numpy as np

from .common import *  # noqa
from engine import decython
from specs import kauri as spec


class NegInf:
    def __lt__(self, o):
        return True

    def __le__(self, o):
        return True

    def __gt__(self, o):
        return False

    def __ge__(self, o):
        return False


class Ghost:
    """ghost best_split: accepts every candidate and records (gain, targets)"""

    def __init__(self):
        self.rec = []
        self._cur = {}
    gain = property(lambda s: NegInf())

    def set_gain(self, g):
        self._cur = {"gain": g}
        self.rec.append(self._cur)

    def set_targets(self, l, r):
        self._cur["targets"] = (int(l), int(r))

    def set_decision(self, f, t):
        self._cur["dec"] = (f, t)

    def set_leaf(self, l):
        self._cur["leaf"] = int(l)


def kind_of(lt, rt, ncl, k):
    if lt >= ncl and rt >= ncl:
        return "double-star"
    if lt >= ncl or rt >= ncl:
        return "star"
    if lt == k or rt == k:
        return "switch"
    return "reallocation"


class LemmaA(SxContract):
    fn = "gemclus.tree._utils.compute_all_splits"
    safety = False
    max_paths = 4000

    def __init__(self, n, leaf_of, cl_of, ncl, Kmax, xvals=None, min_leaf=1):
        self.n, self.leaf_of, self.cl_of, self.ncl, self.Kmax = n, tuple(leaf_of), tuple(cl_of), ncl, Kmax
        self.xvals = xvals if xvals is not None else list(range(n))
        self.min_leaf = min_leaf
        self.label = f"lemmaA[n={n},leaf_of={list(leaf_of)},cl_of={list(cl_of)},K_max={Kmax},x={list(self.xvals)},min_leaf={min_leaf}]"

    def build(self, ctx):
        self.mod, _ = decython.load(np_proxy=sx.NPProxy())
        n = self.n
        Kr = sx.sym_symmetric(ctx, "k", n, lo=-1.0, hi=2.0)
        X = np.array(self.xvals, dtype=float).reshape(n, 1)
        nleaves = max(self.leaf_of) + 1
        Z = np.zeros((n, n), dtype=np.int64)
        Z[list(self.leaf_of), np.arange(n)] = 1
        Y = np.zeros((self.Kmax, n), dtype=np.int64)
        Y[list(self.cl_of), np.arange(nleaves)] = 1
        leaves = np.array([j for j in range(nleaves) if Z[j].sum() >= 2], dtype=np.int64)
        # the calls find_best_split makes (stocks are checked by the Stocks contract; here they are inputs)
        calls = []
        orig = self.mod.compute_all_splits
        self.mod.compute_all_splits = lambda *a: calls.append(tuple(x.copy() if isinstance(x, np.ndarray) else x for x in a))
        try:
            if len(leaves):
                self.mod.find_best_split(Kr, X, leaves, Y, Z, self.ncl, self.Kmax, nleaves, self.min_leaf, np.array([0], dtype=np.intp))
        finally:
            self.mod.compute_all_splits = orig
        self.orig = orig
        return {"K": Kr, "X": X, "calls": calls}

    def body(self, inp):
        out = []
        for a in inp["calls"]:
            g = Ghost()
            self.orig(g, *[x.copy() if isinstance(x, np.ndarray) else x for x in a[1:]])
            out.append((a, g.rec))
        return out

    def ensures(self, inp, out):
        Kl = tolist(inp["K"])
        X = inp["X"]
        labels = [self.cl_of[l] for l in self.leaf_of]
        base = spec.objective(labels, Kl)
        for a, rec in out:
            leaf, thr = int(a[13]), a[16]
            k = self.cl_of[leaf]
            members = [i for i in range(self.n) if self.leaf_of[i] == leaf]
            L = [i for i in members if X[i, 0] <= thr]
            R = [i for i in members if X[i, 0] > thr]
            for r in rec:
                lt, rt = r["targets"]
                true = spec.objective(spec.apply_split(labels, L, R, lt, rt), Kl) - base
                kd = kind_of(lt, rt, self.ncl, k)
                yield f"{kd} gain == real increase [leaf {leaf}, thr {thr}, targets {lt}/{rt}]", prove.eq(r["gain"], true)

    def native(self, env, inp):
        """float replay on the extracted source: the recorded gain vs the objective difference."""
        Kf = sx.to_float(inp["K"], env)
        mod, _ = decython.load()
        res = {}
        labels = [self.cl_of[l] for l in self.leaf_of]
        X = inp["X"]
        n = self.n
        nleaves = max(self.leaf_of) + 1
        Z = np.zeros((n, n), dtype=np.int64)
        Z[list(self.leaf_of), np.arange(n)] = 1
        Y = np.zeros((self.Kmax, n), dtype=np.int64)
        Y[list(self.cl_of), np.arange(nleaves)] = 1
        leaves = np.array([j for j in range(nleaves) if Z[j].sum() >= 2], dtype=np.int64)
        calls = []
        orig = mod.compute_all_splits
        mod.compute_all_splits = lambda *a: calls.append(tuple(x.copy() if isinstance(x, np.ndarray) else x for x in a))
        mod.find_best_split(Kf, X, leaves, Y, Z, self.ncl, self.Kmax, nleaves, self.min_leaf, np.array([0], dtype=np.intp))
        base = spec.objective(labels, Kf.tolist())
        for a in calls:
            g = Ghost()
            orig(g, *a[1:])
            leaf, thr = int(a[13]), a[16]
            members = [i for i in range(n) if self.leaf_of[i] == leaf]
            L = [i for i in members if X[i, 0] <= thr]
            R = [i for i in members if X[i, 0] > thr]
            for r in g.rec:
                lt, rt = r["targets"]
                true = spec.objective(spec.apply_split(labels, L, R, lt, rt), Kf.tolist()) - base
                kd = kind_of(lt, rt, self.ncl, self.cl_of[leaf])
                nm = f"{kd} gain == real increase [leaf {leaf}, thr {thr}, targets {lt}/{rt}]"
                res[nm] = (abs(float(r["gain"]) - true) <= 1e-8 * (1 + abs(true)),
                           {"kernel": Kf.tolist(), "leaf_of": list(self.leaf_of), "cluster_of_leaf": list(self.cl_of), "n_clusters": self.ncl,
                            "K_max": self.Kmax, "leaf": leaf, "threshold": float(thr), "targets": [lt, rt],
                            "gain_reported": float(r["gain"]), "real_increase": float(true)})
        return res


def task_lemma_a(n, chunk, nchunks, seed=0):
    """all states with n samples (chunked); obligations aggregated per (n, n_clusters, K_max - n_clusters, kind)."""
    agg = {}
    sts = list(spec.states(n))
    xsets = [list(range(n))]
    for si, (leaf_of, cl_of, ncl, Kmax) in enumerate(sts):
        if si % nchunks != chunk:
            continue
        for xv in xsets:
            c = LemmaA(n, leaf_of, cl_of, ncl, Kmax, xv)
            for o in run_sx(c, seed=seed):
                if "paths-explored" in o.name or ":no-exception" in o.name and o.status == PROVED:
                    continue
                short = o.name.split(":", 1)[1] if "]:" in o.name else o.name
                kd = o.name.split("]:", 1)[1].split(" gain")[0] if " gain ==" in o.name else "run"
                key = f"lemmaA[n={n},n_clusters={ncl},K_max-n_clusters={Kmax - ncl}]:{kd} gains == real objective increase"
                cur = agg.get(key)
                if cur is None:
                    agg[key] = [o.status, o.backend, dict(o.detail, state=c.label, candidates=1), o.time]
                else:
                    cur[2]["candidates"] += 1
                    cur[3] += o.time
                    rank = {"REFUTED": 3, "UNDECIDED": 2, "PROVED": 1}
                    if rank[o.status] > rank[cur[0]] or (o.status == cur[0] != "PROVED" and (c.label, o.name) < (cur[2]["state"], cur[2].get("clause", ""))):
                        cnt = cur[2]["candidates"]
                        cur[0], cur[1], cur[2] = o.status, o.backend, dict(o.detail, state=c.label, clause=o.name, candidates=cnt)
    return [Ob(k, v[0], v[1], "P", v[2], v[3], LemmaA.fn) for k, v in agg.items()]


# ------------------------------------------------------------------ stocks
class Stocks(SxContract):
    """find_best_split: visited positions are exactly the admissible ones and the stock arguments are what they
    are documented to be (symbolic kernel, identities are linear)."""
    fn = "gemclus.tree._utils.find_best_split"
    safety = False

    def __init__(self, n, leaf_of, cl_of, ncl, Kmax, xvals, min_leaf, explore, features):
        self.n, self.leaf_of, self.cl_of, self.ncl, self.Kmax = n, tuple(leaf_of), tuple(cl_of), ncl, Kmax
        self.xvals, self.min_leaf, self.explore, self.features = xvals, min_leaf, explore, features
        self.label = f"stocks[n={n},leaf_of={list(leaf_of)},cl_of={list(cl_of)},x={xvals},min_leaf={min_leaf},explore={explore},features={features}]"

    def build(self, ctx):
        self.mod, _ = decython.load(np_proxy=sx.NPProxy())
        return {"K": sx.sym_symmetric(ctx, "k", self.n, lo=-1.0, hi=2.0)}

    def body(self, inp):
        n = self.n
        X = np.array(self.xvals, dtype=float).reshape(n, -1)
        nleaves = max(self.leaf_of) + 1
        Z = np.zeros((n, n), dtype=np.int64)
        Z[list(self.leaf_of), np.arange(n)] = 1
        Y = np.zeros((self.Kmax, n), dtype=np.int64)
        Y[list(self.cl_of), np.arange(nleaves)] = 1
        calls = []
        orig = self.mod.compute_all_splits
        self.mod.compute_all_splits = lambda *a: calls.append(tuple(x.copy() if isinstance(x, np.ndarray) else x for x in a))
        try:
            self.mod.find_best_split(inp["K"], X, np.array(self.explore, dtype=np.int64), Y, Z, self.ncl, self.Kmax, nleaves,
                                     self.min_leaf, np.array(self.features, dtype=np.intp))
        finally:
            self.mod.compute_all_splits = orig
        return {"calls": calls, "X": X}

    def ensures(self, inp, out):
        Kl = tolist(inp["K"])
        X = out["X"]
        n, ncl = self.n, self.ncl
        clusters = [[i for i in range(n) if self.cl_of[self.leaf_of[i]] == c] for c in range(ncl)]
        want = []
        for leaf in self.explore:
            members = [i for i in range(n) if self.leaf_of[i] == leaf]
            for f in self.features:
                vals = sorted(set(X[i, f] for i in members))
                for t in vals[:-1]:
                    L = [i for i in members if X[i, f] <= t]
                    if len(L) >= self.min_leaf and len(members) - len(L) >= self.min_leaf:
                        want.append((leaf, f, float(t), len(L)))
        got = [(int(a[13]), int(a[15]), float(a[16]), int(a[14])) for a in out["calls"]]
        yield "visited (leaf, feature, threshold, left size) are exactly the admissible data thresholds", prove.holds(
            sorted(got) == sorted(want), f"got {sorted(got)} want {sorted(want)}")
        for a in out["calls"]:
            (_, sl2, sr2, lf2, slc, src, csz, gamma, omega, n_leaf, ncl_, Kmax, k, leaf, ssize, feat, thr) = a
            members = [i for i in range(n) if self.leaf_of[i] == int(leaf)]
            L = [i for i in members if X[i, int(feat)] <= thr]
            R = [i for i in members if X[i, int(feat)] > thr]
            tag = f"[leaf {int(leaf)}, feature {int(feat)}, thr {float(thr)}]"
            yield "sl_square == sigma(S_l x S_l) " + tag, prove.eq(sl2, spec.sigma(Kl, L, L))
            yield "sr_square == sigma(S_r x S_r) " + tag, prove.eq(sr2, spec.sigma(Kl, R, R))
            yield "leaf_square == sigma(N x N) " + tag, prove.eq(lf2, spec.sigma(Kl, members, members))
            yield "sizes and ids " + tag, prove.holds(
                int(n_leaf) == len(members) and int(ssize) == len(L) and int(k) == self.cl_of[int(leaf)] and int(ncl_) == ncl
                and int(Kmax) == self.Kmax and [int(x) for x in csz[:ncl]] == [len(c) for c in clusters])
            for c in range(ncl):
                yield f"sl_clusters[{c}] == sigma(S_l x C_{c}) " + tag, prove.eq(slc[c], spec.sigma(Kl, L, clusters[c]))
                yield f"sr_clusters[{c}] == sigma(S_r x C_{c}) " + tag, prove.eq(src[c], spec.sigma(Kl, R, clusters[c]))
                for c2 in range(ncl):
                    yield f"gamma[{c},{c2}] == sigma(C_{c} x C_{c2}) " + tag, prove.eq(gamma[c, c2], spec.sigma(Kl, clusters[c], clusters[c2]))


def task_stocks(tier, seed=0):
    obs = []
    cfgs = [
        (4, (0, 0, 0, 0), (0,), 1, 2, [[0.], [1.], [2.], [3.]], 1, [0], [0]),
        (4, (0, 0, 1, 1), (0, 1), 2, 3, [[0., 5.], [1., 5.], [2., 1.], [2., 0.]], 1, [0, 1], [0, 1]),
        (5, (0, 0, 0, 1, 1), (0, 0), 1, 3, [[0.], [0.], [1.], [2.], [3.]], 1, [0, 1], [0]),
        (5, (0, 0, 0, 0, 1), (0, 1), 2, 2, [[3.], [1.], [2.], [0.], [9.]], 2, [0], [0]),
        (6, (0, 0, 0, 0, 0, 0), (0,), 1, 3, [[0.], [1.], [1.], [2.], [3.], [4.]], 2, [0], [0]),
        (5, (0, 1, 0, 1, 2), (0, 1, 0), 2, 4, [[0., 1.], [1., 0.], [2., 2.], [3., 3.], [4., 4.]], 1, [1, 0], [1]),
    ]
    if tier == "thorough":
        cfgs += [(6, (0, 0, 0, 1, 1, 2), (0, 1, 2), 3, 4, [[0.], [1.], [2.], [0.], [1.], [5.]], 1, [0, 1], [0]),
                 (6, (0, 0, 0, 0, 0, 0), (0,), 1, 2, [[2.], [2.], [1.], [1.], [0.], [3.]], 3, [0], [0])]
    for c in cfgs:
        obs.extend(o for o in run_sx(Stocks(*c), seed=seed) if "paths-explored" not in o.name)
    return obs


class Objective(SxContract):
    """gemini_objective(y_pred, kernel) == sum_k sigma(C_k x C_k)/|C_k| of the given labels (symbolic kernel)."""
    fn = "gemclus.tree._utils.gemini_objective"
    safety = False

    def __init__(self, labels):
        self.labels = list(labels)
        self.label = f"gemini_objective[labels={self.labels}]"

    def build(self, ctx):
        self.mod, _ = decython.load(np_proxy=sx.NPProxy())
        return {"K": sx.sym_symmetric(ctx, "k", len(self.labels), lo=-1.0, hi=2.0)}

    def body(self, inp):
        return self.mod.gemini_objective(np.array(self.labels, dtype=np.int64), inp["K"])

    def ensures(self, inp, out):
        yield "== sum over clusters of sigma(C x C)/|C|", prove.eq(out, spec.objective(self.labels, tolist(inp["K"])))


def task_objective(tier, seed=0):
    obs = []
    import itertools
    for n in (1, 2, 3, 4) if tier == "quick" else (1, 2, 3, 4, 5):
        for labels in itertools.product(range(3), repeat=n):
            if n >= 4 and labels[0] != 0:
                continue
            obs.extend(o for o in run_sx(Objective(labels), seed=seed) if "paths-explored" not in o.name and "no-exception" not in o.name)
    return obs
