"""Contract on mlcl.add_mlcl_constraint's decorators (C14 gradient injection, C03 part 3, C10 index recording).

The real add_mlcl_constraint decorates a stub model (real DiscriminativeModel._batchify underneath).
For every n, every permutation drawn by the batch generator, every batch size and the enumerated
ML / CL sets, with symbolic predictions P, upstream gradient G and factor f > 0:
  * each yielded batch is X[subset] with _batchify.indices == subset (true sample ids, in order)
  * the array reaching the wrapped _compute_grads is, row by row (a = position of sample s in the batch),
        G[s] + f * sum_{CL {s,t} in batch} (P[s]-P[t]) - f * sum_{ML {s,t} in batch} (P[s]-P[t])
    i.e. G minus the derivative of the documented penalty; pairs not fully inside the batch contribute
    nothing and all other rows are untouched.
"""
import itertools

import numpy as np

from .common import *  # noqa
import gemclus.mlcl as ML
from gemclus._base_gemini import DiscriminativeModel


class _Stub(DiscriminativeModel):
    def _init_params(self, random_state, X=None):
        pass

    def _compute_grads(self, X, y_pred, gradient):
        self.seen.append((X, y_pred, gradient))
        return []

    def _get_weights(self):
        return []

    def _infer(self, X, retain=True):
        return None


class _FixedPerm(np.random.RandomState):
    def __init__(self, perm):
        super().__init__(0)
        self._perm = np.array(perm)

    def permutation(self, n):
        assert n == len(self._perm)
        return self._perm.copy()


class Inject(SxContract):
    float_replay = True
    fn = "gemclus.mlcl.add_mlcl_constraint"
    safety = False

    def __init__(self, n, K, perm, bs, ml, cl):
        self.n, self.K, self.perm, self.bs, self.ml, self.cl = n, K, perm, bs, ml, cl
        self.label = f"mlcl[n={n},perm={list(perm)},bs={bs},ML={list(ml)},CL={list(cl)}]"

    def build(self, ctx):
        n, K = self.n, self.K
        return {"X": sx.sym_array(ctx, "x", (n, 1)), "P": sx.sym_array(ctx, "p", (n, K)),
                "G": sx.sym_array(ctx, "g", (n, K)), "f": ctx.var("f", "+", lo=0.1, hi=2.0)}

    def body(self, inp):
        m = _Stub(batch_size=self.bs)
        m.seen = []
        ml = [list(p) for p in self.ml] or None
        cl = [list(p) for p in self.cl] or None
        m = ML.add_mlcl_constraint(m, ml, cl, factor=1.0)
        # make the factor captured by the real closure symbolic
        for cell, name in zip(m._compute_grads.__closure__, m._compute_grads.__code__.co_freevars):
            if name == "factor":
                cell.cell_contents = inp["f"]
        steps = []
        for Xb, Ab in m._batchify(inp["X"], None, _FixedPerm(self.perm)):
            ids = list(m._batchify.indices)
            m._compute_grads(Xb, inp["P"][ids].copy(), inp["G"][ids].copy())
            steps.append((ids, Xb, m.seen[-1][2]))
        return {"steps": steps}

    def ensures(self, inp, out):
        n, K, b = self.n, self.K, (self.bs or self.n)
        P, G, f, X = inp["P"], inp["G"], inp["f"], inp["X"]
        steps = out["steps"]
        want_parts = [list(self.perm[j:j + b]) for j in range(0, n, b)]
        yield "batches are the permutation cut into consecutive blocks; recorded indices are the true sample ids", \
            prove.holds([s[0] for s in steps] == [[int(v) for v in p] for p in want_parts],
                        f"{[s[0] for s in steps]} vs {want_parts}")
        for ids, Xb, g in steps:
            yield f"batch{ids}: X_batch is X[ids]", prove.holds(
                Xb.shape == (len(ids), 1) and all(Xb[a, 0] is X[s, 0] or (sx.NATIVE and Xb[a, 0] == X[s, 0]) for a, s in enumerate(ids)))
            for a, s in enumerate(ids):
                for k in range(K):
                    want = G[s, k]
                    for (i, j) in self.cl:
                        if i in ids and j in ids and s in (i, j):
                            t = j if s == i else i
                            want = want + f * (P[s, k] - P[t, k])
                    for (i, j) in self.ml:
                        if i in ids and j in ids and s in (i, j):
                            t = j if s == i else i
                            want = want - f * (P[s, k] - P[t, k])
                    yield f"batch{ids}: injected gradient row of sample {s}, col {k}", prove.eq(g[a, k], want)


CONFIGS = {
    "quick": [(3, 2, [([(0, 1)], []), ([], [(0, 2)]), ([(2, 0)], [(1, 2)]), ([(0, 1), (1, 2)], []), ([(1, 0)], [(2, 1), (0, 2)]), ([(0, 1), (0, 2)], []), ([], [(2, 0), (2, 1)])])],
    "thorough": [(3, 2, [([(0, 1)], []), ([], [(0, 2)]), ([(2, 0)], [(1, 2)]), ([(0, 1), (1, 2)], []), ([(1, 0)], [(2, 1), (0, 2)]), ([(0, 1), (0, 2)], []), ([], [(2, 0), (2, 1)])]),
                 (4, 2, [([(3, 0)], [(1, 2)]), ([(0, 1), (2, 3)], [(1, 2)]), ([(2, 0)], [(3, 1), (0, 3)]), ([], [(0, 1), (2, 3), (1, 3)])])],
}


def task(tier, seed=0):
    obs = []
    for n, K, sets in CONFIGS[tier]:
        perms = list(itertools.permutations(range(n)))
        if n == 4:
            perms = perms[::3]
        for perm in perms:
            for bs in sorted({1, 2, n - 1, n}) + [None]:
                if bs == 1 and perm != perms[-1]:
                    continue
                for ml, cl in sets:
                    obs.extend(o for o in run_sx(Inject(n, K, perm, bs, tuple(ml), tuple(cl)), seed=seed)
                               if "paths-explored" not in o.name)
    return obs
