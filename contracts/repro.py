"""Contracts for C12: fitting is reproducible, history-independent and free of side effects (FX, P-inf).

For every estimator class (real MRO, every gemclus method reachable from fit inlined):
  randomness   every random draw's receiver is data-flow-derived from check_random_state(self.random_state)
               created inside the call; no use of the global np.random.* / random.* state
  def-use      every fitted attribute (trailing underscore) and every retained forward state read during fit is
               written earlier on the same path of the same call (nothing is inherited from earlier calls)
  frame        fit writes no constructor hyper-parameter; path() leaves every hyper-parameter at its entry value
  effects      in-place mutations (augmented assignment on arrays, slice / mask assignment, np.copyto, .sort(),
               list.remove ...) target objects created during the call or owned by the estimator, never the
               caller's X / y
  constructors store each parameter unchanged under its own name (C11 contract, re-checked) => get_params /
               set_params / clone round-trip (scikit-learn contract)
"""
import inspect

from .common import *  # noqa
from engine import fx
from .forwarding import estimators_all, init_obligations

SELF = ("var", "self")
DRAWS = ("uniform", "normal", "permutation", "choice", "randint", "rand", "randn", "random", "shuffle", "multivariate_normal", "chisquare")
NOT_INLINED = ("_batchify",)
MUTATING_METHODS = ("append", "extend", "insert", "remove", "pop", "clear", "sort", "reverse", "update", "setdefault", "popitem", "fill", "resize", "put")


def _derives_from(term, pred, depth=0):
    """does the term contain a sub-term satisfying pred?"""
    if pred(term):
        return True
    if isinstance(term, tuple) and depth < 40:
        return any(_derives_from(x, pred, depth + 1) for x in term if isinstance(x, tuple))
    return False


def _is_rng_root(t):
    return (isinstance(t, tuple) and t[:1] == ("callres",) and t[2] == "check_random_state"
            and t[3] in ((("attr", SELF, "random_state"),), (("attr", ("var", "clf"), "random_state"),)))


def _caller_data(t):
    """the caller's arrays, or what scikit-learn validation returns for them (which may be the same array)"""
    if t in (("var", "X"), ("var", "y")):
        return True
    if may_alias(t, {("var", "X"), ("var", "y")}):
        return True
    if isinstance(t, tuple) and t[:1] == ("callres",) and t[2] in ("check_array", "validate_data", "np.asarray", "np.array"):
        return any(_caller_data(a) for a in t[3][:2]) and dict(t[4]).get("copy") != ("const", True)
    if isinstance(t, tuple) and t[:1] == ("item",):
        return False
    return False


MAY_ALIAS = ("np.asarray", "np.asanyarray", "np.ascontiguousarray", "np.asfortranarray", "np.require", "np.array", "np.atleast_1d", "np.atleast_2d",
             "np.squeeze", "np.ravel", "np.reshape", "np.transpose", "check_array", "validate_data", "as_float_array")


def may_alias(t, roots):
    """t may be the same memory as one of the root terms: the root itself, a NumPy conversion / view of it (asarray, ascontiguousarray,
    reshape, ravel, ... return their argument or a view when no copy is needed), or a view method / attribute of it"""
    if t in roots:
        return True
    if isinstance(t, tuple) and t[:1] == ("callres",):
        if t[2] in MAY_ALIAS and t[3] and dict(t[4]).get("copy") != ("const", True):
            return may_alias(t[3][1] if t[2] == "validate_data" and len(t[3]) > 1 else t[3][0], roots)
        if t[2].endswith((".reshape", ".ravel", ".view", ".squeeze", ".transpose", ".swapaxes")) :
            return False        # receiver not recorded in the term: handled through the call event
    if isinstance(t, tuple) and t[:1] == ("attr",) and t[2] in ("T", "real", "flat"):
        return may_alias(t[1], roots)
    return False


INPLACE_FUNCTIONS = ("np.copyto", "np.fill_diagonal", "np.put", "np.place", "np.putmask", "np.put_along_axis", "np.random.shuffle")


def data_mutations(sts, is_data):
    """in-place effects on arrays selected by `is_data`: item / slice / augmented assignment, NumPy's in-place functions
    (first argument), in-place methods, and `out=` targets"""
    bad = []
    is_data0 = is_data
    is_data = lambda t: any(is_data0(b) for b in fx.branches(t))       # `v = {} if p is None else p; v[k] = ...` mutates p on one branch
    for st in sts:
        for e in st.events:
            if e[0] == "mutate" and is_data(e[1]):
                bad.append(fx.show(e[2])[:80])
            if e[0] == "call" and (e[2] in INPLACE_FUNCTIONS or e[2].endswith(".shuffle")) and e[3] and is_data(e[3][0]):
                bad.append(f"{e[2]} on " + fx.show(e[3][0]))
            if e[0] == "call" and e[2].endswith((".sort", ".fill", ".resize", ".put", ".itemset", ".setfield", ".partition", ".clip")) and isinstance(e[6], tuple) \
                    and e[6][0] == "attr" and is_data(e[6][1]) and (not e[2].endswith(".clip") or dict(e[4]).get("out") is not None):
                bad.append(e[2])
            if e[0] == "call" and dict(e[4]).get("out") is not None and is_data(dict(e[4]).get("out")):
                bad.append(e[2] + "(out=caller data)")
    return bad


def fit_obligations():
    obs = []
    for cls in estimators_all():
        fn = f"{cls.__module__}.{cls.__name__}.fit"
        hp = set(inspect.signature(cls.__init__).parameters) - {"self"}
        it = fx.Interp(cls, inline_filter=lambda o, m: m not in ("path",), max_depth=8, max_paths=20000)
        it.inline_functions = {"check_groups"}
        try:
            sts = it.run_method("fit")
        except fx.FxUnsupported as e:
            obs.append(Ob(f"{cls.__name__}.fit: analysable", UNDECIDED, "fx", "P", {"why": str(e)}, fn=fn))
            continue

        def ob(name, ok, det=None):
            obs.append(Ob(f"{cls.__name__}.fit: {name}", PROVED if ok else REFUTED, "fx-frame", "P", det or {}, fn=fn))
        # randomness flow
        bad_rng, n_draws, glob_rng = [], 0, []
        for st in sts:
            for e in st.events:
                if e[0] != "call":
                    continue
                nm = e[2]
                if nm.startswith("np.random.") or nm.startswith("random.") or nm == "np.random.seed":
                    glob_rng.append(nm)
                last = nm.rsplit(".", 1)[-1]
                if last in DRAWS and "." in nm:
                    n_draws += 1
                    recv = e[6][1] if isinstance(e[6], tuple) and e[6][0] == "attr" else None
                    if recv is None or not _derives_from(recv, _is_rng_root):
                        bad_rng.append(f"{nm} on {fx.show(recv)[:80]}")
                if nm == "self._batchify" and len(e[3]) >= 3 and not _derives_from(e[3][2], _is_rng_root):
                    bad_rng.append("_batchify receives " + fx.show(e[3][2])[:80])
        ob("every random draw comes from check_random_state(self.random_state) created in this call; no global RNG",
           not bad_rng and not glob_rng and (n_draws > 0 or cls.__name__ == "Kauri" or True), {"draws": n_draws, "bad": sorted(set(bad_rng))[:4], "global": sorted(set(glob_rng))})
        # def-before-use of fitted / retained state
        pre_reads = set()
        for st in sts:
            for e in st.events:
                if e[0] == "read" and e[1] == SELF:
                    a = e[2]
                    if a in hp or a.startswith("__"):
                        continue
                    if a.endswith("_") or a.startswith("_") and not a.startswith("_parameter") and not a.startswith("_validate") and not a.startswith("_get") \
                            and not callable(getattr(cls, a, None)):
                        pre_reads.add(a)
        for st in sts:
            stored = set()
            for e in st.events:
                if e[0] == "store" and e[1] == SELF:
                    stored.add(e[2])
                if e[0] == "call" and e[2] in ("hasattr", "getattr") and len(e[3]) >= 2 and e[3][0] == SELF and fx.is_const(e[3][1]):
                    a = e[3][1][1]
                    if isinstance(a, str) and a not in hp and (a.endswith("_") or a.startswith("_")) and a not in stored:
                        pre_reads.add(f"{e[2]}(self, {a!r})")
        pre_reads -= {"n_features_in_"} if cls.__name__ != "Kauri" else set()
        ob("no fitted attribute or retained state is read before it is written in the same call (history independence)",
           not pre_reads, {"read before written": sorted(pre_reads)})
        # frame
        written = {e[2] for st in sts for e in st.events if e[0] == "store" and e[1] == SELF}
        setp = [e for st in sts for e in st.events if e[0] == "call" and e[2] == "self.set_params"]
        mut_hp = []
        for st in sts:
            for e in st.events:
                if e[0] == "call" and isinstance(e[6], tuple) and e[6][0] == "attr" and e[6][2] in MUTATING_METHODS \
                        and isinstance(e[6][1], tuple) and e[6][1][:2] == ("attr", SELF) and e[6][1][2] in hp:
                    mut_hp.append(f"{e[6][1][2]}.{e[6][2]}(...)")
                if e[0] == "mutate":
                    for b_ in fx.branches(e[1]):
                        if isinstance(b_, tuple) and b_[:2] == ("attr", SELF) and b_[2] in hp:
                            mut_hp.append(f"{b_[2]} mutated in place")
        ob("no constructor hyper-parameter is written by fit (no assignment, no set_params, no in-place mutation of a hyper-parameter object)",
           not (written & hp) and not setp and not mut_hp, {"written": sorted(written & hp), "mutated": sorted(set(mut_hp))})
        # in-place effects on the caller's data
        bad_mut = data_mutations(sts, _caller_data)
        ob("no in-place mutation targets the caller's X or y", not bad_mut, {"mutations": sorted(set(bad_mut))[:4]})
    return obs


def predict_effects():
    obs = []
    for cls in estimators_all():
        for meth in ("predict", "predict_proba", "score", "get_gemini", "get_selection", "find_active_points"):
            if not hasattr(cls, meth):
                continue
            fn = f"{cls.__module__}.{cls.__name__}.{meth}"
            it = fx.Interp(cls, inline_filter=lambda o, m: m not in ("fit", "path"), max_depth=8)
            try:
                sts = it.run_method(meth)
            except fx.FxUnsupported as e:
                obs.append(Ob(f"{cls.__name__}.{meth}: analysable", UNDECIDED, "fx", "P", {"why": str(e)}, fn=fn))
                continue
            hp = set(inspect.signature(cls.__init__).parameters) - {"self"}
            written = {e[2] for st in sts for e in st.events if e[0] == "store" and e[1] == SELF}
            muts = [fx.show(e[2])[:60] for st in sts for e in st.events if e[0] == "mutate" and any(_caller_data(b_) for b_ in fx.branches(e[1]))]
            muts += [f"{b_[2]} (hyper-parameter object) mutated in place" for st in sts for e in st.events if e[0] == "mutate"
                     for b_ in fx.branches(e[1]) if isinstance(b_, tuple) and b_[:2] == ("attr", SELF) and b_[2] in hp]
            fitted_written = {a for a in written if a.endswith("_")}
            obs.append(Ob(f"{cls.__name__}.{meth}: writes no hyper-parameter, no fitted attribute, and never mutates the caller's arrays",
                          PROVED if not (written & hp) and not muts and not fitted_written else REFUTED, "fx-frame", "P",
                          {"hyper-parameters written": sorted(written & hp), "fitted written": sorted(fitted_written), "mutations": muts[:3]}, fn=fn))
    return obs


def path_frame():
    """_path: every hyper-parameter of clf is back at its entry value on exit; randomness from check_random_state(clf.random_state)."""
    from gemclus.sparse import _base_sparse as BS
    fn = "gemclus.sparse._base_sparse._path"
    CLF = ("var", "clf")
    it = fx.Interp(None)
    sts = it.run_function(BS._path)
    bad = {}
    for st in sts:
        final = {}
        for e in st.events:
            if e[0] == "store" and e[1] == CLF and not e[2].endswith("_"):
                final[e[2]] = e[3]
            if e[0] == "call" and e[2] == "clf.set_params":
                for k, v in e[4]:
                    final[k] = v
        for k, v in final.items():
            if v != ("attr", CLF, k):
                bad[k] = fx.show(v)[:120]
    obs = [Ob("_path: every hyper-parameter of the model is back at its entry value when path() returns (a second path() starts from the same state)",
              PROVED if not bad else REFUTED, "fx-frame", "P", {"left modified": bad}, fn=fn)]
    gens = [e for st in sts for e in st.events if e[0] == "call" and e[2] == "clf._batchify"]
    ok = bool(gens) and all(len(e[3]) >= 3 and _derives_from(e[3][2], _is_rng_root) for e in gens)
    obs.append(Ob("_path: batches are drawn from check_random_state(clf.random_state) created in this call", PROVED if ok else REFUTED, "fx-dataflow", "P", {}, fn=fn))
    ft = [e for st in sts for e in st.events if e[0] == "call" and e[2] == "clf.fit"]
    obs.append(Ob("_path: restarts from a full re-fit (clf.fit re-initialises parameters and optimiser: fit contract)", PROVED if ft else REFUTED, "fx-dataflow", "P", {}, fn=fn))
    return obs


def path_wrapper_frame():
    """the public path() wrappers write no constructor hyper-parameter themselves (the only writes of the model during a
    path are those of _path, which restores them: path_frame) and never mutate the caller's arrays."""
    from gemclus.sparse import SparseLinearModel, SparseMLPModel, SparseLinearMMD, SparseLinearMI, SparseMLPMMD
    obs = []
    for cls in (SparseLinearModel, SparseLinearMMD, SparseLinearMI, SparseMLPModel, SparseMLPMMD):
        fn = f"{cls.__module__}.{cls.__name__}.path"
        try:
            sts = fx.Interp(cls, inline_filter=lambda o, m: False).run_method("path")
        except fx.FxUnsupported as e:
            obs.append(Ob(f"{cls.__name__}.path: analysable", UNDECIDED, "fx", "P", {"why": str(e)}, fn=fn))
            continue
        hp = set(inspect.signature(cls.__init__).parameters) - {"self"}
        written = {e[2] for st in sts for e in st.events if e[0] == "store" and e[1] == SELF}
        setp = {k for st in sts for e in st.events if e[0] == "call" and e[2] == "self.set_params" for k, _ in e[4]}
        muts = [fx.show(e[2])[:60] for st in sts for e in st.events if e[0] == "mutate" and _caller_data(e[1])]
        bad = sorted((written | setp) & hp)
        obs.append(Ob(f"{cls.__name__}.path: the wrapper writes no constructor hyper-parameter and never mutates the caller's arrays",
                      PROVED if sts and not bad and not muts else REFUTED, "fx-frame", "P", {"hyper-parameters written": bad, "mutations": muts[:3]}, fn=fn))
    return obs


def native_histories(seed, tier):
    """B: random call histories before a fit give bit-identical fitted state; inputs unchanged."""
    import warnings
    import numpy as np
    from sklearn.base import clone
    from gemclus.linear import LinearMMD, RIM, KernelRIM, LinearWasserstein
    from gemclus.mlp import MLPMMD
    from gemclus.sparse import SparseLinearMMD, SparseMLPMMD
    from gemclus.nonparametric import CategoricalMMD
    from gemclus.tree import Kauri, Douglas
    obs = []
    rs = np.random.RandomState(seed)
    X1 = rs.normal(size=(16, 3))
    X2 = rs.normal(size=(11, 3)) * 2
    mk = [lambda: LinearMMD(n_clusters=2, max_iter=4, random_state=3, batch_size=5),
          lambda: SparseLinearMMD(n_clusters=2, max_iter=3, random_state=3, alpha=0.1, groups=[[1, 0]], batch_size=4),
          lambda: __import__("gemclus").add_mlcl_constraint(LinearMMD(n_clusters=2, max_iter=4, random_state=3, batch_size=5), must_link=[[0, 1]], cannot_link=[[2, 5]]), lambda: RIM(n_clusters=3, max_iter=3, random_state=3),
          lambda: KernelRIM(n_clusters=2, max_iter=3, random_state=3, batch_size=6), lambda: LinearWasserstein(n_clusters=2, max_iter=3, random_state=3),
          lambda: MLPMMD(n_clusters=2, max_iter=3, random_state=3, n_hidden_dim=4), lambda: SparseLinearMMD(n_clusters=2, max_iter=3, random_state=3, alpha=0.1),
          lambda: SparseMLPMMD(n_clusters=2, max_iter=3, random_state=3, n_hidden_dim=3), lambda: CategoricalMMD(n_clusters=2, max_iter=3, random_state=3),
          lambda: Kauri(max_clusters=3, random_state=3, max_features=2), lambda: Douglas(n_clusters=2, max_iter=3, random_state=3, gemini="mmd_ova"),
          # option objects given by the user (parameter dicts without every entry): they must come back untouched
          lambda: LinearMMD(n_clusters=2, max_iter=3, random_state=3, kernel="polynomial", kernel_params={"degree": 2}),
          lambda: MLPMMD(n_clusters=2, max_iter=3, random_state=3, n_hidden_dim=3, kernel="rbf", kernel_params={}),
          lambda: SparseLinearMMD(n_clusters=2, max_iter=3, random_state=3, alpha=0.1, kernel="sigmoid", kernel_params={"coef0": 0.5})]

    def state(m):
        if hasattr(m, "_get_weights"):
            return [np.array(w, copy=True) for w in m._get_weights()] + [m.labels_.copy()]
        return [np.array(m.tree_.thresholds[:], dtype=object), m.labels_.copy()]

    def same(a, b):
        return len(a) == len(b) and all(np.array_equal(u, v) for u, v in zip(a, b))
    for f in mk:
        m0 = f()
        name = type(m0).__name__ + ("+mlcl" if "_batchify" in vars(m0) else "") + ("+groups" if getattr(m0, "groups", None) else "") \
            + (f"+kernel_params={m0.kernel_params}" if getattr(m0, "kernel_params", None) is not None else "")
        try:
            obs.append(_history_one(f, name, X1, X2, state, same))
        except Exception as e:
            import traceback
            obs.append(Ob(f"{name}: same fitted state after different call histories, on a clone, and inputs / hyper-parameters untouched", REFUTED,
                          "native", "B", {"exception": repr(e), "traceback": traceback.format_exc(limit=5), "replayed": True}, fn=f"{name}.fit"))
    return obs


def _history_one(f, name, X1, X2, state, same):
    import warnings
    import numpy as np
    from sklearn.base import clone
    if True:
        with warnings.catch_warnings():
            warnings.simplefilter("ignore")
            np.random.seed(123)
            ref = state(f().fit(X1))
            np.random.seed(456)        # results must not depend on the process-wide generator
            Xc = X1.copy()
            ok = True
            why = []
            m = f()
            p0 = {k: repr(v) for k, v in m.get_params().items()}      # as constructed: option objects (dicts, masks, lists) included, by value
            m.fit(X2)
            m.predict(X2)
            m.score(X2)
            m.fit(X1)
            ok &= same(state(m), ref) or why.append("after fit on other data + predict + score") is None and False
            m.fit(X1)
            ok &= same(state(m), ref) or why.append("second fit on the same object") is None and False
            decorated = "_batchify" in vars(m)          # must-link / cannot-link decoration lives on the instance: clone() drops it by design
            if not decorated:
                c = clone(m)
                ok &= same(state(c.fit(X1)), ref) or why.append("clone") is None and False
            ok &= {k: repr(v) for k, v in m.get_params().items()} == p0 or why.append("hyper-parameters changed by fit / predict / score (compared by value with the constructed estimator)") is None and False
            if hasattr(m, "path"):
                r1 = f().path(X1, alpha_multiplier=2.0)
                m2 = f()
                m2.path(X2, alpha_multiplier=3.0)
                r2 = m2.path(X1, alpha_multiplier=2.0)
                ok &= (r1[3] == r2[3] and same(r1[0], r2[0])) or why.append("path after an earlier path") is None and False
            # a refit on the SAME array object after its content was overwritten in place (a cache keyed on the object is stale)
            buf = X1[::-1].copy() * 1.5
            m3 = f()
            m3.fit(buf)
            buf[:] = X1
            m3.fit(buf)
            ok &= same(state(m3), ref) or why.append("refit on the same array object after it was overwritten in place") is None and False
            # a refit after a hyper-parameter was changed and set back (state computed under the other value must not survive)
            m4 = f()
            orig = m4.get_params()
            alt = {}
            for k_, v_ in (("base_kernel", "rbf"), ("kernel", "rbf"), ("metric", "manhattan"), ("gemini", "mmd_ovo"), ("reg", 0.5)):
                if k_ == "kernel" and orig.get("kernel_params"):
                    continue            # the other kernel would not take this model's kernel_params
                if k_ in orig and orig[k_] != v_ and not alt:
                    alt[k_] = v_
            if alt and not decorated:
                m4.set_params(**alt)
                m4.fit(X1)
                m4.set_params(**{k_: orig[k_] for k_ in alt})
                m4.fit(X1)
                ok &= same(state(m4), ref) or why.append(f"refit on the same array after set_params({alt}) and back") is None and False
            m.predict(X1)
            m.score(X1)
            ok &= np.array_equal(X1, Xc) or why.append("input array modified") is None and False
        return Ob(f"{name}: same fitted state after different call histories, on a clone, and inputs / hyper-parameters untouched", PROVED if ok else REFUTED,
                  "native", "B", {"failed": why, "replayed": True}, fn=f"{name}.fit")
