"""Contracts on the *installed* third-party functions that the GemClus contracts otherwise only assume
(assumption A5): the symbolic runs of GemClus code replace them by contract stubs; here the real functions of the
installed scikit-learn are themselves run on exact symbolic reals and shown to satisfy those stubs / contracts.

  sklearn.utils.extmath.softmax(H)            == exp(H[i,k]) / sum_j exp(H[i,j])   (== engine.sx.softmax_stub, the stub used
                                                 everywhere else), for every ordering of every row (the row maximum that the
                                                 real function subtracts forks the run), argument left untouched (copy=True)
  SGDOptimizer(params, lr).update_params      the documented momentum / Nesterov recurrence, entry by entry, in place on the
                                                 very arrays it was constructed over, no mixing between parameters or entries;
                                                 the first step is exactly  -(1+momentum) * lr * grad
  AdamOptimizer(params, lr).update_params     the Adam recurrence (bias-corrected step size, which it also stores in
                                                 .learning_rate -- the value the sparse models read for their proximal threshold),
                                                 in place, entry by entry; every step moves entry e against the sign of its
                                                 first-moment estimate, the first step against the sign of grad[e]

P@S: all real inputs at the enumerated shapes / step counts, options exactly as GemClus constructs the objects
(SGDOptimizer(weights, learning_rate), AdamOptimizer(weights, learning_rate): library defaults otherwise).
What stays assumed: that these functions behave on float64 arrays as on object arrays (A4) and float rounding (A2).
"""
import math

import numpy as np

from .common import *  # noqa


class SklearnSoftmax(SxContract):
    fn = "sklearn.utils.extmath.softmax"
    max_paths = 4000
    budget_s = 120

    def __init__(self, n, K):
        self.n, self.K = n, K
        self.label = f"sklearn.softmax[n={n},K={K}]"

    def build(self, ctx):
        return {"H": sx.sym_array(ctx, "h", (self.n, self.K))}

    def body(self, inp):
        from sklearn.utils.extmath import softmax
        H = inp["H"]
        keep = H.copy()
        out = softmax(H)
        return {"y": out, "stub": sx.softmax_stub(keep), "H_after": H, "H_before": keep}

    def ensures(self, inp, out):
        n, K = self.n, self.K
        y = out["y"]
        yield "shape", prove.holds(getattr(y, "shape", None) == (n, K))
        yield "argument not modified (copy=True)", prove.holds(all(out["H_after"][i, k] is out["H_before"][i, k] for i in range(n) for k in range(K)))
        for i in range(n):
            den = dag.ZERO
            for j in range(K):
                den = dag.add(den, dag.atom("exp", sx.lift(out["H_before"][i, j])))
            tot = dag.ZERO
            for k in range(K):
                spec = dag.mul(dag.atom("exp", sx.lift(out["H_before"][i, k])), dag.inv(den))
                yield f"[{i},{k}] == exp(h_ik) / sum_j exp(h_ij)", prove.eq(y[i, k], sx.Sx(spec))
                yield f"[{i},{k}] == the stub used by the other contracts", prove.eq(y[i, k], out["stub"][i, k])
                yield f"[{i},{k}] > 0", prove.rel(y[i, k], "+")
                tot = dag.add(tot, sx.lift(y[i, k]))
            yield f"row {i} sums to 1", prove.eq(sx.Sx(tot), 1)

    def native(self, env, inp):
        from sklearn.utils.extmath import softmax
        H = np.array([[env[f"h_{i}_{k}"] for k in range(self.K)] for i in range(self.n)], dtype=float)
        y = softmax(H.copy())
        ref = np.exp(H) / np.exp(H).sum(1, keepdims=True)
        return {"*": (close(y, ref), {"H": H.tolist(), "softmax": y.tolist(), "expected": ref.tolist()})}


class _ExactSqrtProxy(sx.NPProxy):
    """np.sqrt of a concrete Python float is the exact square root of the rational the float denotes (A3), kept as a
    sqrt atom -- the bias-correction constant sqrt(1 - beta_2^t) is irrational, a rational rounding of it could never be
    compared exactly with the documented formula."""

    def sqrt(self, a, *args, **kw):
        if isinstance(a, (float, np.floating)) and not args and not kw:
            return sx.Sx(sx.lift(float(a))).sqrt()
        return super().sqrt(a, *args, **kw)


def _real_float(x):
    return x if isinstance(x, sx.Sx) else float(x)


def _sgd_spec(theta0, grads, lr, mu=0.9, nesterov=True):
    """explicit scalar recurrence, entry by entry (from the documentation of the optimiser)"""
    th = [[sx.lift(x) for x in np.asarray(a, dtype=object).flat] for a in theta0]
    vel = [[dag.ZERO for _ in a] for a in th]
    mu = sx.lift(mu)
    lr = sx.lift(lr)
    hist = []
    for G in grads:
        g = [[sx.lift(x) for x in np.asarray(a, dtype=object).flat] for a in G]
        for j in range(len(th)):
            for e in range(len(th[j])):
                v = dag.sub(dag.mul(mu, vel[j][e]), dag.mul(lr, g[j][e]))
                vel[j][e] = v
                upd = dag.sub(dag.mul(mu, v), dag.mul(lr, g[j][e])) if nesterov else v
                th[j][e] = dag.add(th[j][e], upd)
        hist.append([list(a) for a in th])
    return hist


class SGDContract(SxContract):
    fn = "sklearn.neural_network._stochastic_optimizers.SGDOptimizer.update_params"
    max_paths = 50
    budget_s = 120

    def __init__(self, shapes, steps):
        self.shapes, self.steps = shapes, steps
        self.label = f"sklearn.SGDOptimizer[shapes={shapes},steps={steps}]"

    def patches(self):
        import sklearn.neural_network._stochastic_optimizers as SO
        # float(learning_rate_init) is the identity on reals (A2): the symbolic learning rate passes through
        return np_patches(SO) + [(SO, "float", _real_float)]

    def build(self, ctx):
        lr = ctx.var("lr", "+", lo=1e-3, hi=0.5)
        theta = [sx.sym_array(ctx, f"th{j}", s) for j, s in enumerate(self.shapes)]
        grads = [[sx.sym_array(ctx, f"g{t}_{j}", s) for j, s in enumerate(self.shapes)] for t in range(self.steps)]
        return {"lr": lr, "theta": theta, "grads": grads}

    def body(self, inp):
        from sklearn.neural_network._stochastic_optimizers import SGDOptimizer
        params = [a.copy() for a in inp["theta"]]
        ids = [id(a) for a in params]
        bystander = inp["theta"][0].copy()
        opt = SGDOptimizer(params, inp["lr"])          # exactly how GemClus constructs it
        hist = []
        lrs = []
        for G in inp["grads"]:
            G = [g.copy() for g in G]
            keep = [g.copy() for g in G]
            opt.update_params(params, G)
            hist.append([a.copy() for a in params])
            lrs.append(opt.learning_rate)
            self._grads_untouched = all(a[idx] is b[idx] for a, b in zip(G, keep) for idx in np.ndindex(*a.shape))
        return {"hist": hist, "same_objects": [id(a) for a in params] == ids, "lrs": lrs, "grads_untouched": self._grads_untouched,
                "bystander": bystander}

    def ensures(self, inp, out):
        spec = _sgd_spec(inp["theta"], inp["grads"], inp["lr"])
        yield "updates are applied in place to the arrays of the list given at construction", prove.holds(out["same_objects"])
        yield "the gradient arrays are not modified", prove.holds(out["grads_untouched"])
        for t in range(self.steps):
            yield f"step {t + 1}: learning_rate stays the constructor value (constant schedule)", prove.eq(out["lrs"][t], inp["lr"])
            for j, s in enumerate(self.shapes):
                flat = list(np.asarray(out["hist"][t][j], dtype=object).flat)
                for e in range(len(flat)):
                    yield f"step {t + 1}: param[{j}].flat[{e}] == momentum/Nesterov recurrence on its own gradient entries", \
                        prove.eq(flat[e], sx.Sx(spec[t][j][e]))
        # first step: exactly along the negative of the list given
        for j, s in enumerate(self.shapes):
            th0 = list(np.asarray(inp["theta"][j], dtype=object).flat)
            th1 = list(np.asarray(out["hist"][0][j], dtype=object).flat)
            g = list(np.asarray(inp["grads"][0][j], dtype=object).flat)
            for e in range(len(th0)):
                yield f"first step: param[{j}].flat[{e}] moves by -(1 + 0.9) * lr * grad", \
                    prove.eq(th1[e] - th0[e], -(sx.Sx(sx.lift(1.9))) * inp["lr"] * g[e])

    def native(self, env, inp):
        from sklearn.neural_network._stochastic_optimizers import SGDOptimizer
        th = [np.array([env[f"th{j}_" + "_".join(map(str, idx))] for idx in np.ndindex(*s)], dtype=float).reshape(s) for j, s in enumerate(self.shapes)]
        ref = [a.copy() for a in th]
        vel = [np.zeros_like(a) for a in th]
        opt = SGDOptimizer(th, env["lr"])
        good = True
        for t in range(self.steps):
            G = [np.array([env[f"g{t}_{j}_" + "_".join(map(str, idx))] for idx in np.ndindex(*s)], dtype=float).reshape(s) for j, s in enumerate(self.shapes)]
            opt.update_params(th, G)
            for j in range(len(ref)):
                vel[j] = 0.9 * vel[j] - env["lr"] * G[j]
                ref[j] = ref[j] + 0.9 * vel[j] - env["lr"] * G[j]
            good = good and all(close(a, b) for a, b in zip(th, ref))
        return {"*": (good, {"params": [a.tolist() for a in th], "expected": [a.tolist() for a in ref]})}


class AdamContract(SxContract):
    fn = "sklearn.neural_network._stochastic_optimizers.AdamOptimizer.update_params"
    max_paths = 600
    budget_s = 180

    def __init__(self, shapes, steps):
        self.shapes, self.steps = shapes, steps
        self.label = f"sklearn.AdamOptimizer[shapes={shapes},steps={steps}]"

    def patches(self):
        import sklearn.neural_network._stochastic_optimizers as SO
        # float(learning_rate_init) is the identity on reals (A2): the symbolic learning rate passes through
        return [(SO, "np", _ExactSqrtProxy()), (SO, "float", _real_float)]

    def build(self, ctx):
        lr = ctx.var("lr", "+", lo=1e-3, hi=0.5)
        theta = [sx.sym_array(ctx, f"th{j}", s) for j, s in enumerate(self.shapes)]
        grads = [[sx.sym_array(ctx, f"g{t}_{j}", s) for j, s in enumerate(self.shapes)] for t in range(self.steps)]
        # the decay rates and the stabiliser are symbols (0 < beta < 1, eps > 0): the float constants 1 - 0.999**t lose
        # bits by cancellation, an exact identity exists only for the formula in the betas, and it covers the defaults
        b1 = ctx.var("beta1", "+", lo=0.5, hi=0.95)
        b2 = ctx.var("beta2", "+", lo=0.9, hi=0.9995)
        ctx.assume_gt(1, b1)
        ctx.assume_gt(1, b2)
        eps = ctx.var("epsA", "+", lo=1e-9, hi=1e-3)
        return {"lr": lr, "theta": theta, "grads": grads, "b1": b1, "b2": b2, "eps": eps}

    def body(self, inp):
        from sklearn.neural_network._stochastic_optimizers import AdamOptimizer
        params = [a.copy() for a in inp["theta"]]
        ids = [id(a) for a in params]
        opt = AdamOptimizer(params, inp["lr"])
        self._defaults = (opt.beta_1, opt.beta_2, opt.epsilon)
        opt.beta_1, opt.beta_2, opt.epsilon = inp["b1"], inp["b2"], inp["eps"]
        hist, lrs = [], []
        for G in inp["grads"]:
            opt.update_params(params, [g.copy() for g in G])
            hist.append([a.copy() for a in params])
            lrs.append(opt.learning_rate)
        return {"hist": hist, "same_objects": [id(a) for a in params] == ids, "lrs": lrs}

    def ensures(self, inp, out):
        b1, b2, eps = inp["b1"], inp["b2"], inp["eps"]
        lr0 = inp["lr"]
        yield "constructed as GemClus does, the decay rates and stabiliser are the documented defaults (0.9, 0.999, 1e-8)", \
            prove.holds(self._defaults == (0.9, 0.999, 1e-8))
        yield "updates are applied in place to the arrays of the list given at construction", prove.holds(out["same_objects"])
        m = [[dag.ZERO for _ in np.ndindex(*s)] for s in self.shapes]
        v = [[dag.ZERO for _ in np.ndindex(*s)] for s in self.shapes]
        prev = [[sx.lift(x) for x in np.asarray(a, dtype=object).flat] for a in inp["theta"]]
        for t in range(1, self.steps + 1):
            # the same float expressions as the documentation of Adam (bias correction folded into the step size)
            lrt = lr0 * (1 - b2 ** t).sqrt() / (1 - b1 ** t)
            yield f"step {t}: learning_rate == lr_init * sqrt(1 - beta2^t) / (1 - beta1^t)", prove.eq(out["lrs"][t - 1], lrt)
            for j, s in enumerate(self.shapes):
                g = [sx.lift(x) for x in np.asarray(inp["grads"][t - 1][j], dtype=object).flat]
                cur = list(np.asarray(out["hist"][t - 1][j], dtype=object).flat)
                for e in range(len(g)):
                    m[j][e] = dag.add(dag.mul(sx.lift(b1), m[j][e]), dag.mul(sx.lift(1 - b1), g[e]))
                    v[j][e] = dag.add(dag.mul(sx.lift(b2), v[j][e]), dag.mul(sx.lift(1 - b2), dag.mul(g[e], g[e])))
                    den = sx.Sx(v[j][e]).sqrt() + eps
                    spec = sx.Sx(prev[j][e]) - lrt * sx.Sx(m[j][e]) / den
                    yield f"step {t}: param[{j}].flat[{e}] == Adam recurrence on its own gradient entries", prove.eq(cur[e], spec)
                    step = cur[e] - sx.Sx(prev[j][e])
                    yield f"step {t}: param[{j}].flat[{e}] moves against the sign of its first-moment estimate", \
                        prove.rel(step * sx.Sx(m[j][e]), "-0")
                    if t == 1:
                        yield f"first step: param[{j}].flat[{e}] moves against the sign of grad", prove.rel(step * sx.Sx(g[e]), "-0")
                    prev[j][e] = sx.lift(cur[e])

    def native(self, env, inp):
        from sklearn.neural_network._stochastic_optimizers import AdamOptimizer
        b1, b2, eps = 0.9, 0.999, 1e-8
        th = [np.array([env[f"th{j}_" + "_".join(map(str, idx))] for idx in np.ndindex(*s)], dtype=float).reshape(s) for j, s in enumerate(self.shapes)]
        ref = [a.copy() for a in th]
        ms = [np.zeros_like(a) for a in th]
        vs = [np.zeros_like(a) for a in th]
        opt = AdamOptimizer(th, env["lr"])
        good = True
        for t in range(1, self.steps + 1):
            G = [np.array([env[f"g{t - 1}_{j}_" + "_".join(map(str, idx))] for idx in np.ndindex(*s)], dtype=float).reshape(s) for j, s in enumerate(self.shapes)]
            opt.update_params(th, G)
            lrt = env["lr"] * math.sqrt(1 - b2 ** t) / (1 - b1 ** t)
            for j in range(len(ref)):
                ms[j] = b1 * ms[j] + (1 - b1) * G[j]
                vs[j] = b2 * vs[j] + (1 - b2) * G[j] ** 2
                ref[j] = ref[j] - lrt * ms[j] / (np.sqrt(vs[j]) + eps)
            good = good and all(close(a, b) for a, b in zip(th, ref))
        return {"*": (good, {"params": [a.tolist() for a in th], "expected": [a.tolist() for a in ref]})}


def task(kind, args, seed=0):
    if kind == "softmax":
        return run_sx(SklearnSoftmax(*args), seed=seed)
    if kind == "sgd":
        return run_sx(SGDContract(*args), seed=seed)
    if kind == "adam":
        return run_sx(AdamContract(*args), seed=seed)
    raise ValueError(kind)


def softmax_tasks(tier, seed, to=600):
    shapes = [(1, 1), (1, 2), (2, 2), (1, 3), (2, 3)] if tier == "quick" else [(1, 1), (1, 2), (2, 2), (1, 3), (2, 3), (3, 2), (1, 4), (3, 3)]
    return [("contracts.external_deps", "task", ("softmax", s, seed), to, f"sklearn.softmax{list(s)}") for s in shapes]


def optimiser_tasks(tier, seed, to=600):
    t = [("contracts.external_deps", "task", ("sgd", ([(2, 2), (1, 2)], 2 if tier == "quick" else 3), seed), to, "sklearn.SGD"),
         ("contracts.external_deps", "task", ("adam", ([(1, 2), (1, 1)], 2), seed), to, "sklearn.Adam")]
    if tier != "quick":
        t.append(("contracts.external_deps", "task", ("adam", ([(2, 1)], 3), seed), to, "sklearn.Adam[3 steps]"))
    return t
