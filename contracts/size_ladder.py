"""B tier -- size ladder.  The symbolic contracts are discharged at small enumerated shapes (assumption A1: no induction over
n, K, d, h, number of cut points / groups / constraints).  This bounded layer re-uses the SAME contracts -- same build(), same
body() calling the real functions, same ensures() clauses -- at a ladder of LARGER shapes, on float64 inputs sampled from the
precondition, through each contract's native replay (engine/runner.generic_native or the contract's own native()).  It is the
stand-in for the missing induction over sizes: a change that only goes wrong beyond a size threshold (a fast path above n
samples, a blocked evaluation, a table sized for few clusters, a loop bound taken from the wrong dimension) has no small
counterexample for the symbolic run to find.  Never counted as proved; every failure comes with the failing float input on the
real code.

The ladders are coprime-ish odd / non power-of-two sizes so that block sizes and square shapes do not hide anything.
"""
import time
import traceback

import numpy as np

from .common import *  # noqa


def replay_points(c, seed, points=2, budget_s=60):
    """returns (n_points_replayed, first failure or None, skipped reason or None).  A failure is reported only if it is
    confirmed at a second, independently sampled point of the same shape: a size-dependent defect fails wherever the shape is
    reached, a finite-difference artefact next to a kink or to the boundary of the simplex does not repeat."""
    ctx = sx.Ctx(seed=seed)
    inputs = c.build(ctx)
    tried, t0 = 0, time.time()
    first_bad, confirmations = None, 0
    draws = 0
    while draws < points * 3 + 4:
        draws += 1
        if (first_bad is None and tried >= points) or time.time() - t0 > budget_s:
            break
        env = ctx.sample(tries=600)
        if env is None:
            continue
        envf = {k: float(v) for k, v in env.items()}
        try:
            with np.errstate(all="ignore"):
                r = c.native(envf, inputs)
        except Exception:
            bad = {"exception on the real code": traceback.format_exc(limit=5)[-1500:], "env_size": len(envf),
                   "env": {k: envf[k] for k in sorted(envf)[:40]}}
            r = "raised"
        if r is None:
            return tried, None, "the contract has no replay at this shape"
        if r != "raised":
            failed = {k: v for k, v in r.items() if not v[0]}
            bad = None
            if failed:
                k = sorted(failed)[0]
                bad = {"failed clause": k, "observed": failed[k][1], "failed clauses": len(failed), "of": len(r),
                       "env_size": len(envf), "env": {kk: envf[kk] for kk in sorted(envf)[:60]}}
        if bad is None:
            tried += 1
            if first_bad is not None and tried >= points + 2:
                break               # the first failure did not repeat at two further points: not reported
            continue
        if first_bad is None:
            first_bad = bad
        else:
            first_bad["confirmed at a second point"] = {k: v for k, v in bad.items() if k != "env"}
            return tried, first_bad, None
    return tried, None, (None if tried else "no point of the precondition could be sampled")


def ladder(contracts, seed, points=2, fn=None):
    obs = []
    for c in contracts:
        t0 = time.time()
        try:
            n, bad, why = replay_points(c, seed, points)
        except Exception:
            n, bad, why = 0, None, "harness error: " + traceback.format_exc(limit=3)[-600:]
        name = f"size ladder: {c.label}: every contract clause holds on the real code at {points} sampled float inputs"
        if bad is not None:
            obs.append(Ob(name, REFUTED, "native-float64", "B", dict(bad, replayed=True), time.time() - t0, fn or c.fn))
        elif why is not None:
            # cannot be replayed: reported, counted neither as passed nor as failed
            obs.append(Ob(name, UNDECIDED, "native-float64", "I", {"why": why}, time.time() - t0, fn or c.fn))
        else:
            obs.append(Ob(name, PROVED, "native-float64", "B", {"points": n}, time.time() - t0, fn or c.fn))
    return obs


# ------------------------------------------------------------------ the ladders, per family
def gemini(tier, seed, modes=("C01", "C02")):
    from .gemini_eval import Evaluate, CLASSES
    out = []
    shapes = [(5, 4), (9, 5), (17, 7), (33, 3), (67, 6), (300, 3)] if tier == "quick" else [(5, 4), (9, 5), (17, 7), (33, 3), (67, 6), (300, 3), (130, 9), (257, 5), (40, 12), (1030, 2)]
    for cls in CLASSES:
        for ovo in (False, True):
            for n, K in shapes:
                if cls == "WassersteinGEMINI" and n * K > 400:
                    continue
                for mode in modes:
                    out.append(Evaluate(cls, ovo, n, K, mode, "interior"))
                    if (n, K) in ((9, 5), (33, 3)):
                        out.append(Evaluate(cls, ovo, n, K, mode, "interior", "F"))
                        out.append(Evaluate(cls, ovo, n, K, mode, "interior", "strided"))
            # (more than 64 clusters: contracts/gemini_large.py, against a vectorised reference -- the index-explicit spec takes 10 s per score there)
    return out


def vjp(tier, seed):
    from .models_vjp import VJP
    L = []
    big = tier != "quick"
    for s in [dict(n=7, d=5, K=5), dict(n=19, d=9, K=7), dict(n=300, d=3, K=3)] + ([dict(n=70, d=12, K=9), dict(n=1030, d=2, K=2)] if big else []):
        L.append(VJP("linear", s))
        L.append(VJP("sparse_linear", s))
    for s in [dict(n=7, d=5, K=5, h=6), dict(n=19, d=9, K=4, h=11), dict(n=300, d=3, K=3, h=3), dict(n=5, d=110, K=2, h=20)] + ([dict(n=70, d=12, K=9, h=21)] if big else []):
        L.append(VJP("mlp", s))
        L.append(VJP("sparse_mlp", s))
    for s in [dict(n=7, K=5), dict(n=33, K=7), dict(n=300, K=3)]:
        L.append(VJP("categorical", s))
    for s in [dict(n=7, d=2, K=5, cuts=4), dict(n=9, d=3, K=4, cuts=2), dict(n=5, d=1, K=3, cuts=6)] + ([dict(n=11, d=4, K=3, cuts=2)] if big else []):
        L.append(VJP("douglas", s))
    for s in [dict(N=9, K=4, idx=(8, 2, 5, 0, 7, 1, 3, 6, 4)), dict(N=17, K=5, idx=(16, 3, 9, 1, 12))]:
        L.append(VJP("kernel_rim", s))
    # the same contracts with data, predictions and incoming gradient handed in column-major
    for fam, s in (("linear", dict(n=19, d=9, K=7)), ("sparse_linear", dict(n=7, d=5, K=5)), ("mlp", dict(n=19, d=9, K=4, h=11)),
                   ("sparse_mlp", dict(n=7, d=5, K=5, h=6)), ("categorical", dict(n=33, K=7)), ("douglas", dict(n=9, d=3, K=4, cuts=2))):
        L.append(VJP(fam, s, "column-major"))
    return L


def prox(tier, seed):
    from .prox import LinearProx, GroupLinearProx, HierProx, GroupHierProx
    L = [LinearProx(7, 5, "generic"), LinearProx(21, 9, "generic"), LinearProx(9, 6, "zero_row"),
         GroupLinearProx(9, 3, [[0, 5, 2, 7], [1, 3], [4], [8, 6]]), GroupLinearProx(12, 2, [[11, 0, 6, 3, 9], [1, 2], [4, 5, 7, 8, 10]]),
         GroupLinearProx(8, 4, [[j] for j in range(8)]),
         HierProx(3, 6, "generic", 1), HierProx(5, 9, "generic", 4), HierProx(2, 17, "generic", 2), HierProx(4, 5, "M0", 2),
         GroupHierProx(7, 3, 5, [[0, 4, 2, 6], [1, 3], [5]]), GroupHierProx(6, 2, 4, [[5, 0, 3], [1, 2, 4]]),
         # many rows / wide layers (block-wise or chunked implementations: 32, 97 = 2048 // 21, 256 rows)
         LinearProx(45, 3, "generic"), LinearProx(300, 2, "generic"), HierProx(2, 3, "generic", 45), HierProx(2, 20, "generic", 110),
         HierProx(1, 2, "generic", 300), GroupLinearProx(70, 1, [list(range(0, 70, 2)), list(range(1, 70, 2))])]
    # the operators as the models apply them (the proximal STEP of the sparse models: _update_weights on the model's own weights)
    from .prox import applied
    L += [applied(LinearProx(21, 9, "generic")), applied(GroupLinearProx(9, 3, [[0, 5, 2, 7], [1, 3], [4], [8, 6]])),
          applied(HierProx(3, 6, "generic", 7)), applied(HierProx(2, 3, "generic", 45)), applied(HierProx(4, 5, "M0", 2)),
          applied(GroupHierProx(7, 3, 5, [[0, 4, 2, 6], [1, 3], [5]])), applied(GroupHierProx(6, 2, 4, [[5, 0, 3], [1, 2, 4]]))]
    return L


def infer(tier, seed):
    from .infer_local import RowLocal
    L = [RowLocal("linear", 300, 3, 3), RowLocal("mlp", 300, 3, 3, 4), RowLocal("sparse_mlp", 7, 110, 2, 20),
         RowLocal("linear", 9, 7, 6), RowLocal("sparse_linear", 17, 5, 5), RowLocal("mlp", 9, 7, 5, 6), RowLocal("sparse_mlp", 17, 6, 5, 9),
         RowLocal("douglas", 7, 2, 5, 2, 4), RowLocal("douglas", 5, 3, 4, 2, 2), RowLocal("douglas", 9, 1, 3, 2, 6)]
    return L


def douglas_bins(tier, seed):
    from .douglas import Bins, ActivePoints
    L = [Bins(7, 2, 5, 4, (True, True)), Bins(5, 4, 3, 2, (True, False, True, True)), Bins(9, 1, 4, 6, (True,)),
         ActivePoints(9, 3, 5), ActivePoints(17, 2, 4), ActivePoints(4, 5, 2)]
    return L


def selection(tier, seed):
    from .sparse_sel import Selection
    return [Selection("sparse_linear", 7, 8, 5, (1, 4, 6)), Selection("sparse_mlp", 7, 8, 5, (0, 3)), Selection("sparse_mlp", 5, 9, 4, (2, 7), w1_zero=(1, 5)),
            Selection("sparse_linear", 19, 6, 7, ())]


def invariance(tier, seed, whats=("perm-rows", "perm-cols", "indep", "onehot", "empty", "empty2", "empty-perm", "duplicates")):
    from .gemini_invariance import Invariance
    from .gemini_eval import CLASSES
    out = []
    shapes = [(7, 5), (18, 4), (41, 6)] if tier == "quick" else [(7, 5), (18, 4), (41, 6), (131, 7), (65, 9)]
    for cls in CLASSES:
        for ovo in (False, True):
            for n, K in shapes:
                if cls == "WassersteinGEMINI" and n * K > 250:
                    continue
                for w in whats:
                    out.append(Invariance(cls, ovo, n, K, w))
            if "onehot" in whats and cls != "WassersteinGEMINI":
                out.append(Invariance(cls, ovo, 70, 70, "onehot"))          # as many clusters as samples, more than 64 of them
    return out


def mlcl(tier, seed):
    from .mlcl_grads import Inject
    rs = np.random.RandomState(20240)        # the permutations are part of the obligation names: fixed, not drawn from the run's seed
    L = []
    for n, K, bs in ((9, 4, 4), (12, 5, None), (14, 3, 5), (11, 4, 11)):
        perm = tuple(int(i) for i in rs.permutation(n))
        ids = list(range(n))
        ml = [(0, 1), (1, 2), (2, 0), (0, 3), (5, 0), (6, 7)]            # a hub sample in five pairs, a triangle
        cl = [(0, 8), (8, 0), (4, 1), (1, 4), (3, 8), (2, 8)]            # both orientations, several pairs per sample
        L.append(Inject(n, K, perm, bs, tuple(ml), tuple(cl)))
        L.append(Inject(n, K, perm, bs, tuple(ml[:2]), ()))
        L.append(Inject(n, K, perm, bs, (), tuple(cl)))
    return L


FAMILIES = {"gemini": gemini, "vjp": vjp, "prox": prox, "infer": infer, "douglas_bins": douglas_bins, "selection": selection,
            "invariance": invariance, "mlcl": mlcl}


def task(family, tier, seed=0, kw=()):
    import warnings
    with warnings.catch_warnings():
        warnings.simplefilter("ignore")
        return ladder(FAMILIES[family](tier, seed, **dict(kw)), seed)
