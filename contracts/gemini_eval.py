"""Contracts on the six GEMINI classes' evaluate() (properties C01, C02; reused by C13, C17).

requires  P an n x K row-stochastic matrix with eps < P[i,k] < 1-eps (softmax parameterisation),
          A symmetric n x n with arbitrary real entries (not assumed PSD), unused by f-divergences
ensures   C01  evaluate(P, A) == spec score (specs/gemini.py)
          C02  (a) score with gradient == score without; (b) grad.shape == P.shape;
               (c) in reduced coordinates (P[i,K-1] = 1 - sum_k P[i,k]) for every i and k < K-1
                   d score / d P[i,k] == grad[i,k] - grad[i,K-1]
                   i.e. agreement along every direction tangent to the simplex (equivalently,
                   by the chain rule, through any softmax parameterisation);
               (d) entries clipped at the epsilon bounds get gradient exactly 0
"""
import numpy as np

from .common import *  # noqa
from specs import gemini as spec
import gemclus.gemini._fdivergences as FD
import gemclus.gemini._geomdistances as GD
from gemclus import gemini as G

CLASSES = ["KLGEMINI", "TVGEMINI", "HellingerGEMINI", "ChiSquareGEMINI", "MMDGEMINI", "WassersteinGEMINI"]


class EmdStub:
    """contract of ot.emd2(a, b, M, log=True): returns the optimal cost c and dual potentials
    (u, v) with c = <u,a> + <v,b> (strong duality), u, v locally constant in (a, b) (envelope
    theorem on a non-degenerate optimal basis).  Records its arguments."""

    def __init__(self, ctx):
        self.ctx = ctx
        self.calls = []
        self.options = []        # solver options other than `log` the code passes: the assumed contract is that of the default solver

    def emd2(self, a, b, M, log=False, **kw):
        self.options += sorted(kw)
        i = len(self.calls)
        n, m = len(a), len(b)
        u = np.array([self.ctx.var(f"emd{i}_u{j}") for j in range(n)], dtype=object)
        v = np.array([self.ctx.var(f"emd{i}_v{j}") for j in range(m)], dtype=object)
        c = (u * np.asarray(a, dtype=object)).sum() + (v * np.asarray(b, dtype=object)).sum()
        self.calls.append((np.array(a, dtype=object), np.array(b, dtype=object), M, c, u, v))
        return (c, {"u": u, "v": v}) if log else c


LAYOUTS = {"F": "column-major (Fortran order, e.g. the transpose of a (K, n) array)",
           "strided": "as a strided view (every other row and column of a larger array)"}


def hand_in(P, layout):
    """the same values in another memory layout: `for every input` includes arrays that are not C-contiguous (an in-place
    shortcut that aliases the caller's or an intermediate array only shows with such a layout)"""
    if layout == "F":
        return np.asfortranarray(P.copy())
    if layout == "strided":
        big = np.empty((2 * P.shape[0], 2 * P.shape[1]), dtype=P.dtype)
        big[...] = P[0, 0]
        big[::2, ::2] = P
        return big[::2, ::2]
    return P.copy()


class Evaluate(SxContract):
    def __init__(self, cls, ovo, n, K, mode, structure="interior", layout="C"):
        self.cls, self.ovo, self.n, self.K, self.mode, self.structure = cls, ovo, n, K, mode, structure
        self.layout = layout
        self.fn = f"gemclus.gemini.{cls}.evaluate"
        self.label = f"{cls}.evaluate[{'ovo' if ovo else 'ova'},n={n},K={K},{structure}{'' if layout == 'C' else ',predictions handed in ' + LAYOUTS[layout]}]"
        self.kind = spec.KIND[cls]
        self.needA = cls in ("MMDGEMINI", "WassersteinGEMINI")

    def patches(self):
        p = np_patches(FD, GD)
        if self.cls == "WassersteinGEMINI":
            p.append((GD, "ot", self.stub))
        return p

    def build(self, ctx):
        self.ctx = ctx
        self.stub = EmdStub(ctx)
        eps = symbolic_eps(ctx, self.K)
        P = simplex_reduced(ctx, self.n, self.K, eps=eps)
        if self.structure == "clipped":
            # row 0 is a concrete one-hot row: entries at / beyond the epsilon bounds
            P = P.copy()
            for k in range(self.K):
                P[0, k] = sx.Sx(dag.const(1 if k == 0 else 0))
        self.tvars = []
        if self.structure == "clipped-sym":
            # row 0 lies beyond the clipping bounds but is SYMBOLIC: entries eps*t_k (t_k in (0, 1/K)) and 1 - eps*sum t_k;
            # the returned score must not depend on the t_k (their returned gradient is zero)
            P = P.copy()
            ts = [ctx.var(f"t_{k}", "+", lo=0.05, hi=0.9 / self.K) for k in range(1, self.K)]
            for t in ts:
                ctx.assume(sx.Sx(dag.const(1)) / self.K - t, "+")
            self.tvars = [f"t_{k}" for k in range(1, self.K)]
            for k in range(1, self.K):
                P[0, k] = eps * ts[k - 1]
            P[0, 0] = 1 - sum((eps * t for t in ts[1:]), eps * ts[0])
        self.mixed = None
        if self.structure == "clipped-mixed" and self.K >= 3:
            # row 0 mixes a clipped entry with interior ones: P[0,0] = eps*t (beyond the bound), P[0,1] = q free, P[0,K-1] = 1 - q - eps*t - ...;
            # the chain rule through the RETURNED gradient must give the derivative of the returned score along t and q as well
            # (a per-row constant missing from the gradient cancels only when every entry of the row carries a gradient)
            P = P.copy()
            t = ctx.var("t_0", "+", lo=0.05, hi=0.9)
            ctx.assume(1 - t, "+")
            P[0, 0] = eps * t
            rest = P[0, 1]
            for k in range(2, self.K - 1):
                rest = rest + P[0, k]
            P[0, self.K - 1] = 1 - eps * t - rest
            ctx.assume(P[0, self.K - 1] - eps, "+")
            ctx.assume(1 - eps - P[0, self.K - 1], "+")
            self.mixed = ["t_0"] + [f"p_0_{k}" for k in range(1, self.K - 1)]
        A = sx.sym_symmetric(ctx, "a", self.n, lo=-1.0, hi=2.0) if self.needA else None
        self.g = getattr(G, self.cls)(ovo=self.ovo)
        self.g.epsilon = eps          # symbolic clipping precision (the default 1e-12 is one instance)
        return {"P": P, "A": A}

    def body(self, inp):
        P, A = inp["P"], inp["A"]
        out = {}
        self.stub.calls = []
        out["score"] = self.g.evaluate(hand_in(P, self.layout), None if A is None else A.copy())
        out["calls0"] = list(self.stub.calls)
        if self.mode == "C02":
            self.stub.calls = []
            out["score_g"], out["grad"] = self.g.evaluate(hand_in(P, self.layout), None if A is None else A.copy(), return_grad=True)
        if self.mode == "C01" and self.kind != "wasserstein":
            out["spec"] = spec.score(self.kind, self.ovo, tolist(P), None if A is None else tolist(A))
        return out

    def ensures(self, inp, out):
        n, K = self.n, self.K
        P = inp["P"]
        if self.kind == "wasserstein":
            yield ("ot.emd2 is called with the library's default solver options (precondition of its assumed optimality contract: no iteration cap, "
                   "no alternative solver)"), prove.holds(not self.stub.options, f"options passed: {sorted(set(self.stub.options))}")
        if self.mode == "C01":
            if self.kind != "wasserstein":
                yield "score==spec", prove.eq(out["score"], out["spec"])
            else:
                yield from self._wasserstein_score(inp, out)
            return
        yield "score(return_grad)==score", prove.eq(out["score_g"], out["score"])
        grad = out["grad"]
        yield "grad.shape==P.shape", prove.holds(getattr(grad, "shape", None) == P.shape,
                                                 f"grad shape {getattr(grad, 'shape', None)} vs {P.shape}")
        if getattr(grad, "shape", None) != P.shape:
            return
        sn = sx.lift(out["score_g"])
        rows = range(1, n) if self.structure in ("clipped", "clipped-sym", "clipped-mixed") else range(n)
        if self.mixed:
            yield "clipped-grad[0,0]==0", prove.eq(grad[0, 0], 0)
            for v in self.mixed:
                chain = dag.ZERO
                for k in range(K):
                    chain = dag.add(chain, dag.mul(sx.lift(grad[0, k]), dag.diff(sx.lift(P[0, k]), v, {})))
                yield f"row with a clipped entry: d score / d {v} == sum_k grad[0,k] * dP[0,k]/d{v}", prove.eq(dag.diff(sn, v, {}), chain, smooth_only=True)
        for i in rows:
            for k in range(K - 1):
                lhs = dag.diff(sn, f"p_{i}_{k}", {})
                rhs = dag.sub(sx.lift(grad[i, k]), sx.lift(grad[i, K - 1]))
                yield f"dscore/dP[{i},{k}]", prove.eq(lhs, rhs, smooth_only=True)
        if self.structure in ("clipped", "clipped-sym"):
            for k in range(K):
                yield f"clipped-grad[0,{k}]==0", prove.eq(grad[0, k], 0)
        for tv in self.tvars:
            yield f"the returned score does not depend on an entry beyond the clipping bounds (d score / d {tv} == 0, as its returned gradient)", \
                prove.eq(dag.diff(sn, tv, {}), 0, smooth_only=True)

    def _wasserstein_score(self, inp, out):
        n, K = self.n, self.K
        P, A = tolist(inp["P"]), inp["A"]
        pi, q = spec.cluster_conditionals(P)
        calls = out["calls0"]
        pairs = [(a, b) for a in range(K) for b in range(a + 1, K)] if self.ovo else [(k, None) for k in range(K)]
        yield "emd2-call-count", prove.holds(len(calls) == len(pairs), f"{len(calls)} calls for {len(pairs)} distances")
        if len(calls) != len(pairs):
            return
        total = 0
        for (ka, kb), (a, b, M, c, u, v) in zip(pairs, calls):
            for i in range(n):
                yield f"emd2[{ka},{kb}].a[{i}]==q", prove.eq(a[i], q[ka][i])
                yield f"emd2[{ka},{kb}].b[{i}]", prove.eq(b[i], (q[kb][i] if kb is not None else sx.Sx(dag.const(1)) / n))
            same = getattr(M, "shape", None) == (n, n) and all(
                nf.equal(sx.lift(M[i, j]), sx.lift(A[i, j])) for i in range(n) for j in range(n))
            yield f"emd2[{ka},{kb}].M is the affinity", prove.holds(same)
            if self.ovo:
                total = total + 2 * pi[ka] * pi[kb] * c      # W symmetric, W(q,q) = 0
            else:
                total = total + pi[ka] * c
        yield "score==sum pi W", prove.eq(out["score"], total)

    def native_variants(self, env):
        yield env
        if self.needA:
            for sc in (1e-9, 1e-18, 1e3):
                yield {k: (v * sc if k.startswith("a_") else v) for k, v in env.items()}

    # ---- float replay on the real, unpatched code
    def native(self, env, inp):
        P = sx.to_float(inp["P"], env)
        A = None if inp["A"] is None else sx.to_float(inp["A"], env)
        g = getattr(G, self.cls)(ovo=self.ovo, epsilon=min(max(float(env.get("eps", 1e-12)), 1e-300), 0.49))
        res = {}
        s0 = float(np.asarray(g.evaluate(hand_in(P, self.layout), A)).item())
        if self.mode == "C01":
            if self.kind == "wasserstein":
                # independent reference for the optimal-transport cost: the transport LP solved by scipy's HiGHS (not POT);
                # this also exercises, natively, the optimality contract that the symbolic run only assumes of ot.emd2
                sp = wasserstein_reference(P, A, self.ovo)
                res["score==spec (transport LPs solved by scipy.optimize.linprog)"] = (
                    close(s0, sp, rtol=1e-6, atol=1e-8), {"P": P.tolist(), "A": A.tolist(), "code": s0, "spec": sp})
                return res
            sp = float(spec.score(self.kind, self.ovo, P.tolist(), None if A is None else A.tolist()))
            res["score==spec"] = (close(s0, sp), {"P": P.tolist(), "A": None if A is None else A.tolist(),
                                                  "code": s0, "spec": sp})
            return res
        s1, gr = g.evaluate(hand_in(P, self.layout), A, return_grad=True)
        s1 = float(np.asarray(s1).item())
        res["score(return_grad)==score"] = (close(s0, s1), {"P": P.tolist(), "with": s1, "without": s0})
        gr = np.asarray(gr, dtype=float)
        if gr.shape != P.shape:
            res["*"] = (False, {"P": P.tolist(), "grad_shape": list(gr.shape)})
            return res
        # central differences along the simplex-tangent directions e_ik - e_iK, at two step sizes: the Richardson value is compared
        # with the returned gradient, and the gap between the two estimates bounds the error of the differences themselves
        # (entries next to the boundary of the simplex have large higher derivatives: an unreliable difference never fails a clause)
        K = self.K

        def score_at(i, k, t):
            Q_ = P.copy()
            Q_[i, k] += t
            Q_[i, K - 1] -= t
            return float(np.asarray(g.evaluate(hand_in(Q_, self.layout), A)).item())
        rows = list(range(1, self.n) if self.structure == "clipped" else range(self.n))
        if len(rows) > 40:       # large shapes of the size ladder: a spread of 12 rows, first and last included
            rows = sorted({rows[int(j)] for j in np.linspace(0, len(rows) - 1, 12)})
        for i in rows:
            for k in range(K - 1):
                # TV is piecewise linear: a tiny step has no truncation error and almost never straddles a kink
                h = 1e-9 if self.kind == "tv" else min(1e-6, 0.01 * min(P[i, k], P[i, K - 1]))
                if h <= 0:
                    continue
                fd1 = (score_at(i, k, h) - score_at(i, k, -h)) / (2 * h)
                fd2 = (score_at(i, k, h / 2) - score_at(i, k, -h / 2)) / h
                fd = (4 * fd2 - fd1) / 3
                an = float(gr[i, k] - gr[i, K - 1])
                res[f"dscore/dP[{i},{k}]"] = (abs(fd - an) <= (1e-4 if self.kind == "tv" else 1e-5) * (1 + abs(fd) + abs(an)) + 10 * abs(fd2 - fd1),
                                              {"P": P.tolist(), "A": None if A is None else A.tolist(),
                                               "finite_difference": fd, "from_returned_gradient": an, "difference_error_estimate": abs(fd2 - fd1)})
        return res


def wasserstein_reference(P, A, ovo):
    """sum_k pi_k W(q_k, r) resp. sum_{a,b} pi_a pi_b W(q_a, q_b), W = minimal transport cost for the cost matrix A (scipy HiGHS)."""
    from scipy.optimize import linprog
    from scipy.sparse import lil_matrix
    n, K = P.shape
    pi = P.mean(0)
    q = P / (n * pi)
    r = np.full(n, 1.0 / n)
    Aeq = lil_matrix((2 * n, n * n))
    for i in range(n):
        Aeq[i, i * n:(i + 1) * n] = 1.0
        Aeq[n + i, i::n] = 1.0
    Aeq = Aeq.tocsr()

    def W(a, b):
        res = linprog(np.asarray(A, dtype=float).ravel(), A_eq=Aeq, b_eq=np.concatenate([a, b]), bounds=(0, None), method="highs")
        if res.status != 0:
            raise RuntimeError("reference LP not solved: " + str(res.message))
        return float(res.fun)
    if not ovo:
        return float(sum(pi[k] * W(q[:, k], r) for k in range(K)))
    return float(sum(2 * pi[a] * pi[b] * W(q[:, a], q[:, b]) for a in range(K) for b in range(a + 1, K)))


def task(cls, ovo, n, K, mode, structure="interior", seed=0, layout="C"):
    return run_sx(Evaluate(cls, ovo, n, K, mode, structure, layout), seed=seed)
