"""Contracts on _infer of the inductive models (properties C18, C04): row-locality, order equivariance,
independence of the retain flag and of previously retained state.

  _infer(X)[i] depends only on row i:  _infer([x0; x1])[0] == _infer([x0])[0]
  _infer(X[perm]) == _infer(X)[perm]
  _infer(X, retain=True) == _infer(X, retain=False), also after a retaining call on other data
  every row of _infer(X) sums to 1 (with the softmax contract, entries are positive)
"""
import itertools

import numpy as np

from .common import *  # noqa
from .models_vjp import std_patches, LG, MG, SM, SL, CM, DG


def make_model(ctx, family, d, K, h=2, cuts=1):
    if family == "linear":
        m = LG.LinearModel(n_clusters=K)
        m.W_ = sx.sym_array(ctx, "w", (d, K))
        m.b_ = sx.sym_array(ctx, "b", (1, K))
    elif family == "mlp":
        m = MG.MLPModel(n_clusters=K, n_hidden_dim=h)
        m.W1_ = sx.sym_array(ctx, "u", (d, h))
        m.b1_ = sx.sym_array(ctx, "c", (1, h))
        m.W2_ = sx.sym_array(ctx, "v", (h, K))
        m.b2_ = sx.sym_array(ctx, "e", (1, K))
    elif family == "sparse_mlp":
        m = SM.SparseMLPModel(n_clusters=K, n_hidden_dim=h)
        m.W1_ = sx.sym_array(ctx, "u", (d, h))
        m.b1_ = sx.sym_array(ctx, "c", (1, h))
        m.W2_ = sx.sym_array(ctx, "v", (h, K))
        m.b2_ = sx.sym_array(ctx, "e", (1, K))
        m.W_skip_ = sx.sym_array(ctx, "s", (d, K))
    elif family == "sparse_linear":
        m = SL.SparseLinearModel(n_clusters=K)
        m.W_ = sx.sym_array(ctx, "w", (d, K))
        m.b_ = sx.sym_array(ctx, "b", (1, K))
    elif family == "douglas":
        m = DG.Douglas(n_clusters=K, n_cuts=cuts)
        m.temperature = ctx.var("T", "+", lo=0.05, hi=1.5)
        m.cut_points_list_ = [(j, sx.sym_array(ctx, f"cut{j}", (cuts,))) for j in range(d)]
        m.leaf_scores_ = sx.sym_array(ctx, "ls", ((cuts + 1) ** d, K))
    else:
        raise ValueError(family)
    return m


class RowLocal(SxContract):
    max_paths = 5000

    def __init__(self, family, n, d, K, h=2, cuts=1):
        self.family, self.n, self.d, self.K, self.h, self.cuts = family, n, d, K, h, cuts
        self.label = f"{family}._infer[n={n},d={d},K={K},h={h},cuts={cuts}]"
        self.fn = {"linear": "gemclus.linear._linear_geminis.LinearModel._infer",
                   "sparse_linear": "gemclus.linear._linear_geminis.LinearModel._infer",
                   "mlp": "gemclus.mlp._mlp_geminis.MLPModel._infer",
                   "sparse_mlp": "gemclus.sparse._mlp_sparse.SparseMLPModel._infer",
                   "douglas": "gemclus.tree.douglas.Douglas._infer"}[family]

    def patches(self):
        return std_patches()

    def build(self, ctx):
        self.model = make_model(ctx, self.family, self.d, self.K, self.h, self.cuts)
        return {"X": sx.sym_array(ctx, "x", (self.n, self.d)), "Z": sx.sym_array(ctx, "z", (2, self.d))}

    def body(self, inp):
        m, X = self.model, inp["X"]
        out = {"full": m._infer(X.copy())}
        out["rows"] = [m._infer(X[i:i + 1].copy(), retain=False) for i in range(self.n)]
        perm = list(range(1, self.n)) + [0]
        out["perm"] = (perm, m._infer(X[perm].copy(), retain=False))
        m._infer(inp["Z"].copy(), retain=True)             # leaves retained state of other data behind
        out["after"] = m._infer(X.copy(), retain=False)
        out["retain"] = m._infer(X.copy(), retain=True)
        return out

    def ensures(self, inp, out):
        n, K = self.n, self.K
        full = out["full"]
        yield "shape", prove.holds(getattr(full, "shape", None) == (n, K))
        for i in range(n):
            tot = full[i, 0]
            for k in range(1, K):
                tot = tot + full[i, k]
            yield f"row {i} sums to 1", prove.eq(tot, 1)
            for k in range(K):
                yield f"single row [{i},{k}] == row of the whole array", prove.eq(out["rows"][i][0, k], full[i, k])
                p, yp = out["perm"]
                yield f"reordered rows [{i},{k}]", prove.eq(yp[i, k], full[p[i], k])
                yield f"retain=False after a retaining call on other data [{i},{k}]", prove.eq(out["after"][i, k], full[i, k])
                yield f"retain=True == retain=False [{i},{k}]", prove.eq(out["retain"][i, k], full[i, k])


def task(family, n, d, K, h=2, cuts=1, seed=0):
    return run_sx(RowLocal(family, n, d, K, h, cuts), seed=seed)
