"""Contracts on _infer of the inductive models (properties C18, C04): row-locality, order equivariance,
independence of the retain flag and of previously retained state.

  _infer(X)[i] depends only on row i:  _infer([x0; x1])[0] == _infer([x0])[0]
  _infer(X[perm]) == _infer(X)[perm]
  _infer(X, retain=True) == _infer(X, retain=False), also after a retaining call on other data
  every row of _infer(X) sums to 1 (with the softmax contract, entries are positive)
"""
import itertools

import numpy as np

from .common import *  # noqa
from .models_vjp import std_patches, LG, MG, SM, SL, CM, DG


def make_model(ctx, family, d, K, h=2, cuts=1):
    if family == "linear":
        m = LG.LinearModel(n_clusters=K)
        m.W_ = sx.sym_array(ctx, "w", (d, K))
        m.b_ = sx.sym_array(ctx, "b", (1, K))
    elif family == "mlp":
        m = MG.MLPModel(n_clusters=K, n_hidden_dim=h)
        m.W1_ = sx.sym_array(ctx, "u", (d, h))
        m.b1_ = sx.sym_array(ctx, "c", (1, h))
        m.W2_ = sx.sym_array(ctx, "v", (h, K))
        m.b2_ = sx.sym_array(ctx, "e", (1, K))
    elif family == "sparse_mlp":
        m = SM.SparseMLPModel(n_clusters=K, n_hidden_dim=h)
        m.W1_ = sx.sym_array(ctx, "u", (d, h))
        m.b1_ = sx.sym_array(ctx, "c", (1, h))
        m.W2_ = sx.sym_array(ctx, "v", (h, K))
        m.b2_ = sx.sym_array(ctx, "e", (1, K))
        m.W_skip_ = sx.sym_array(ctx, "s", (d, K))
    elif family == "sparse_linear":
        m = SL.SparseLinearModel(n_clusters=K)
        m.W_ = sx.sym_array(ctx, "w", (d, K))
        m.b_ = sx.sym_array(ctx, "b", (1, K))
    elif family == "douglas":
        m = DG.Douglas(n_clusters=K, n_cuts=cuts)
        m.temperature = ctx.var("T", "+", lo=0.05, hi=1.5)
        m.cut_points_list_ = [(j, sx.sym_array(ctx, f"cut{j}", (cuts,))) for j in range(d)]
        m.leaf_scores_ = sx.sym_array(ctx, "ls", ((cuts + 1) ** d, K))
    else:
        raise ValueError(family)
    return m


class RowLocal(SxContract):
    float_replay = True
    max_paths = 400
    budget_s = 90

    def __init__(self, family, n, d, K, h=2, cuts=1):
        self.family, self.n, self.d, self.K, self.h, self.cuts = family, n, d, K, h, cuts
        self.label = f"{family}._infer[n={n},d={d},K={K},h={h},cuts={cuts}]"
        self.fn = {"linear": "gemclus.linear._linear_geminis.LinearModel._infer",
                   "sparse_linear": "gemclus.linear._linear_geminis.LinearModel._infer",
                   "mlp": "gemclus.mlp._mlp_geminis.MLPModel._infer",
                   "sparse_mlp": "gemclus.sparse._mlp_sparse.SparseMLPModel._infer",
                   "douglas": "gemclus.tree.douglas.Douglas._infer"}[family]

    def patches(self):
        return std_patches()

    def build(self, ctx):
        self.model = make_model(ctx, self.family, self.d, self.K, self.h, self.cuts)
        return {"X": sx.sym_array(ctx, "x", (self.n, self.d)), "Z": sx.sym_array(ctx, "z", (2, self.d))}

    def body(self, inp):
        m, X = self.model, inp["X"]
        out = {"full": m._infer(X.copy())}
        out["rows"] = [m._infer(X[i:i + 1].copy(), retain=False) for i in range(self.n)]
        perm = list(range(1, self.n)) + [0]
        out["perm"] = (perm, m._infer(X[perm].copy(), retain=False))
        m._infer(inp["Z"].copy(), retain=True)             # leaves retained state of other data behind
        out["after"] = m._infer(X.copy(), retain=False)
        out["retain"] = m._infer(X.copy(), retain=True)
        return out

    def ensures(self, inp, out):
        n, K = self.n, self.K
        full = out["full"]
        yield "shape", prove.holds(getattr(full, "shape", None) == (n, K))
        for i in range(n):
            tot = full[i, 0]
            for k in range(1, K):
                tot = tot + full[i, k]
            yield f"row {i} sums to 1", prove.eq(tot, 1)
            for k in range(K):
                yield f"single row [{i},{k}] == row of the whole array", prove.eq(out["rows"][i][0, k], full[i, k])
                p, yp = out["perm"]
                yield f"reordered rows [{i},{k}]", prove.eq(yp[i, k], full[p[i], k])
                yield f"retain=False after a retaining call on other data [{i},{k}]", prove.eq(out["after"][i, k], full[i, k])
                yield f"retain=True == retain=False [{i},{k}]", prove.eq(out["retain"][i, k], full[i, k])


def task(family, n, d, K, h=2, cuts=1, seed=0):
    return run_sx(RowLocal(family, n, d, K, h, cuts), seed=seed)


def native_locality(seed, tier):
    """B: on real fitted models, predict_proba / predict of a row do not depend on the other rows of the array --
    including arrays that mix ordinary rows with rows of very large magnitude (float-level row coupling such as a
    batch-wide softmax shift is invisible to real-arithmetic contracts)."""
    import warnings
    from gemclus.linear import LinearMMD, KernelRIM, RIM
    from gemclus.mlp import MLPMMD
    from gemclus.sparse import SparseLinearMMD, SparseMLPMMD
    from gemclus.tree import Douglas, Kauri
    obs = []
    rs = np.random.RandomState(seed)
    Xtr = rs.normal(size=(20, 3))
    Z = np.vstack([rs.normal(size=(6, 3)), np.array([[4000., -4000., 4000.], [-4000., 4000., 2500.]]), rs.normal(size=(3, 3)) * 0.01])
    mk = {"LinearMMD": lambda: LinearMMD(n_clusters=3, max_iter=5, random_state=seed), "RIM": lambda: RIM(n_clusters=3, max_iter=5, random_state=seed),
          "KernelRIM(rbf, gamma=4)": lambda: KernelRIM(n_clusters=3, max_iter=5, random_state=seed, base_kernel="rbf", base_kernel_params={"gamma": 4.0}),
          "KernelRIM(poly)": lambda: KernelRIM(n_clusters=2, max_iter=5, random_state=seed, base_kernel="polynomial", base_kernel_params={"degree": 2, "coef0": 0.5}),
          "MLPMMD": lambda: MLPMMD(n_clusters=3, max_iter=5, random_state=seed, n_hidden_dim=5),
          "SparseLinearMMD": lambda: SparseLinearMMD(n_clusters=3, max_iter=5, random_state=seed),
          "SparseMLPMMD": lambda: SparseMLPMMD(n_clusters=3, max_iter=5, random_state=seed, n_hidden_dim=5),
          "Douglas": lambda: Douglas(n_clusters=3, max_iter=5, random_state=seed, gemini="mmd_ova", n_cuts=2),
          "Kauri": lambda: Kauri(max_clusters=3, random_state=seed)}
    for name, f in mk.items():
        why = []
        try:
            with warnings.catch_warnings(), np.errstate(all="ignore"):
                warnings.simplefilter("ignore")
                m = f().fit(Xtr)
                if not np.array_equal(m.predict(Xtr), m.labels_):
                    why.append("predict(X_train) != labels_")
                for A in (Z, Xtr):
                    whole = m.predict(A)
                    single = np.array([m.predict(A[i:i + 1])[0] for i in range(len(A))])
                    perm = rs.permutation(len(A))
                    if not np.array_equal(whole, single):
                        why.append("predict differs between the whole array and single rows")
                    if not np.array_equal(m.predict(A[perm]), whole[perm]):
                        why.append("predict differs under a reordering of the rows")
                    if hasattr(m, "predict_proba"):
                        Pw = m.predict_proba(A)
                        Ps = np.vstack([m.predict_proba(A[i:i + 1]) for i in range(len(A))])
                        if not (np.all(np.isfinite(Pw)) and np.allclose(Pw, Ps, rtol=1e-9, atol=1e-12)):
                            why.append("predict_proba differs between the whole array and single rows (or is not finite)")
                        sub = [0, 6, 7, 9]
                        if not np.allclose(m.predict_proba(A[sub]), Pw[sub], rtol=1e-9, atol=1e-12):
                            why.append("predict_proba of a subset differs")
        except Exception as e:
            why.append("raised " + repr(e)[:120])
        obs.append(Ob(f"native row-locality {name}: whole array == single rows == subset == reordered, training predictions == labels_, with extreme rows mixed in",
                      PROVED if not why else REFUTED, "native", "B", {"failed": sorted(set(why)), "replayed": True}, fn=f"{name}.predict_proba"))
    return obs


def native_locality_large(seed, tier):
    """B, size ladder of C18 / C09 / C15 / C19: predictions of LARGE batches (more than 1024 / 2048 rows, not a multiple of any
    power of two; Douglas with thousands of leaves so that rows x leaves exceeds 2^20; Kauri trees that are deep and unbalanced)
    must be, row by row, the predictions of the same rows taken alone or in small blocks -- block-wise or level-wise
    implementations of predict have no small counterexample."""
    import warnings
    from gemclus.linear import LinearMMD, KernelRIM
    from gemclus.mlp import MLPMMD
    from gemclus.sparse import SparseMLPMMD
    from gemclus.nonparametric import CategoricalMMD
    from gemclus.tree import Douglas, Kauri
    obs = []
    rs = np.random.RandomState(seed + 17)
    Xtr = rs.normal(size=(60, 3)) + 3.0 * rs.randint(0, 3, size=(60, 1))
    big = np.vstack([Xtr, rs.normal(size=(2540, 3)) * 2.0 + 1.0])         # 2600 rows
    x = np.cumsum(2.0 ** np.arange(12))[:, None]
    comb = np.vstack([x, x + 0.1, x + 0.2])                                # Kauri grows a comb of depth 8 on it
    comb_q = np.vstack([comb, comb + 0.05, rs.uniform(0, 5000, size=(1100, 1))])
    t0_ = 1.7e9 + np.sort(np.concatenate([k * 3600.0 + 60.0 * np.arange(8) for k in range(4)]))
    Xts = np.column_stack([t0_, rs.normal(size=len(t0_))])
    Xts_q = np.vstack([Xts, Xts + np.array([30.0, 0.0]), Xts + np.array([1.0, 0.0])])
    X6 = rs.normal(size=(40, 6))
    big6 = rs.normal(size=(700, 6)) * 1.5
    cases = [
        ("LinearMMD, 2600 rows", lambda: LinearMMD(n_clusters=3, max_iter=3, random_state=seed), Xtr, big),
        ("KernelRIM(rbf), 2600 rows", lambda: KernelRIM(n_clusters=3, max_iter=3, random_state=seed, base_kernel="rbf"), Xtr, big),
        ("MLPMMD, 2600 rows", lambda: MLPMMD(n_clusters=3, max_iter=3, random_state=seed, n_hidden_dim=6), Xtr, big),
        ("SparseMLPMMD, 2600 rows", lambda: SparseMLPMMD(n_clusters=3, max_iter=3, random_state=seed, n_hidden_dim=6), Xtr, big),
        ("Douglas(n_cuts=2), 2600 rows", lambda: Douglas(n_clusters=3, max_iter=3, random_state=seed, gemini="mmd_ova", n_cuts=2), Xtr, big),
        ("Douglas(6 features, n_cuts=3: 4096 leaves), 700 rows", lambda: Douglas(n_clusters=3, max_iter=1, random_state=seed, gemini="mi", n_cuts=3), X6, big6),
        ("Kauri, 2600 rows", lambda: Kauri(max_clusters=4, random_state=seed), Xtr, big),
        ("Kauri(comb data: deep unbalanced tree), 1136 rows", lambda: Kauri(max_clusters=12, kernel="linear", random_state=seed), comb, comb_q),
        ("Kauri(24 leaves), 2600 rows", lambda: Kauri(max_clusters=24, max_leaves=24, random_state=seed), Xtr, big),
        # large magnitudes with small gaps (time stamps in seconds around 1.7e9, sessions one minute apart): single precision cannot tell
        # a sample from the threshold next to it
        ("Kauri(time stamps around 1.7e9)", lambda: Kauri(max_clusters=4, kernel="linear", random_state=seed), Xts, Xts_q),
    ]
    for name, f, Xfit, A in cases:
        why = []
        det = {}
        try:
            with warnings.catch_warnings(), np.errstate(all="ignore"):
                warnings.simplefilter("ignore")
                m = f().fit(Xfit)
                if not np.array_equal(m.predict(Xfit), m.labels_):
                    why.append("predict(X_train) != labels_")
                if isinstance(m, Kauri):
                    det["tree depth"] = int(m.tree_.get_depth())
                whole = m.predict(A)
                idx = sorted(set([0, 1, len(A) - 1, len(A) - 2, 1023, 1024, 1025, 2047, 2048, 2049, 255, 256, 257, 511, 512, 513]
                                 + [int(i) for i in rs.randint(0, len(A), size=60)]))
                idx = [i for i in idx if i < len(A)]
                single = np.array([m.predict(A[i:i + 1])[0] for i in idx])
                if whole.shape != (len(A),) or not np.array_equal(whole[idx], single):
                    bad = [i for i, a, b in zip(idx, whole[idx] if whole.shape == (len(A),) else [], single) if a != b]
                    why.append("predict of a large batch differs from the prediction of its rows taken alone")
                    det["first differing rows"] = bad[:5]
                blocks = np.concatenate([m.predict(A[j:j + 97]) for j in range(0, len(A), 97)])
                if not np.array_equal(blocks, whole):
                    why.append("predict of a large batch differs from predictions by blocks of 97 rows")
                if hasattr(m, "predict_proba"):
                    Pw = m.predict_proba(A)
                    Ps = np.vstack([m.predict_proba(A[i:i + 1]) for i in idx])
                    if Pw.shape[0] != len(A) or not (np.all(np.isfinite(Pw)) and np.allclose(Pw[idx], Ps, rtol=1e-9, atol=1e-12)
                                                      and np.allclose(Pw.sum(1), 1.0, atol=1e-9)):
                        why.append("predict_proba of a large batch: rows are not the probability vectors of the rows taken alone")
                s_all = m.score(A) if not isinstance(m, KernelRIM) else None
                if s_all is not None and not np.isfinite(s_all):
                    why.append("score of a large batch is not finite")
        except Exception as e:
            why.append("raised " + repr(e)[:160])
        obs.append(Ob(f"size ladder: row-locality on large batches, {name}: whole batch == rows taken alone == blocks of 97 rows; training predictions == labels_",
                      PROVED if not why else REFUTED, "native", "B", dict(det, failed=sorted(set(why)), replayed=True), fn="predict / predict_proba"))
    # Categorical models (transductive): one row of probabilities per training sample, whatever the number of samples
    for n in (300, 1100):
        why = []
        try:
            with warnings.catch_warnings():
                warnings.simplefilter("ignore")
                Xc = rs.normal(size=(n, 2))
                m = CategoricalMMD(n_clusters=3, max_iter=2, random_state=seed).fit(Xc)
                P = m.predict_proba(Xc)
                if m.labels_.shape != (n,) or P.shape != (n, 3) or not np.array_equal(m.predict(Xc), m.labels_):
                    why.append(f"labels_ {m.labels_.shape}, predict_proba {P.shape} for {n} samples")
        except Exception as e:
            why.append("raised " + repr(e)[:160])
        obs.append(Ob(f"size ladder: CategoricalMMD on {n} samples: one label and one probability row per sample, predict == labels_",
                      PROVED if not why else REFUTED, "native", "B", {"failed": why, "replayed": True}, fn="CategoricalModel.fit"))
    return obs
