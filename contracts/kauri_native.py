"""B tier for C08 / C09 / C04: real Kauri fits (compiled extension) on small data over a grid of structural
limits, with run-time contracts:
  structure   leaves <= max_leaves, depth <= max_depth, clusters <= max_clusters and labelled contiguously from 0,
              every leaf >= min_samples_leaf, no node with < min_samples_split samples is split, thresholds are observed
              feature values, nodes == 2*leaves-1, every leaf in exactly one cluster, predict(X) == labels_,
              score == objective(labels), a tree_ is present
  greedy      at every step (find_best_split intercepted at module attribute gemclus.tree.kauri.find_best_split):
              reported gain == real increase of the objective for the returned split, and no admissible alternative
              (brute force over explorable leaves, features, data thresholds, star / double-star / switch / reallocation
              assignments) has a larger increase; final score == root score + sum of gains; the loop stops only when
              no admissible split has positive gain or a structural limit is hit
Bounded: never counted as proved.
"""
import itertools
import warnings

import numpy as np

from .common import *  # noqa
from specs import kauri as spec


def admissible(X, kernel, Z, Y, leaves, ncl, Kmax, min_leaf, features):
    """yield (leaf, feature, threshold, lt, rt, kind, real_increase) for every admissible candidate."""
    n = X.shape[0]
    nleaves = int(Z.sum(1).astype(bool).sum())
    leaf_of = Z[:nleaves].argmax(0)
    cl_of = Y[:, :nleaves].argmax(0)
    labels = [int(cl_of[leaf_of[i]]) for i in range(n)]
    Kl = kernel.tolist()
    base = spec.objective(labels, Kl)
    sizes = [labels.count(c) for c in range(ncl)]
    for leaf in leaves:
        members = [i for i in range(n) if leaf_of[i] == leaf]
        k = int(cl_of[leaf])
        whole = len(members) == sizes[k]
        for f in features:
            vals = sorted(set(X[i, f] for i in members))
            for t in vals[:-1]:
                L = [i for i in members if X[i, f] <= t]
                R = [i for i in members if X[i, f] > t]
                if len(L) < min_leaf or len(R) < min_leaf:
                    continue
                cands = []
                if ncl < Kmax - 1 and not whole:
                    cands.append((ncl, ncl + 1, "double-star"))
                if ncl < Kmax:
                    cands += [(ncl, k, "star"), (k, ncl, "star")]
                for kp in range(ncl):
                    if kp != k:
                        cands += [(kp, k, "switch"), (k, kp, "switch")]
                if ncl >= 3 and not whole:
                    for a in range(ncl):
                        for b in range(ncl):
                            if a != b and a != k and b != k:
                                cands.append((a, b, "reallocation"))
                for lt, rt, kind in cands:
                    inc = spec.objective(spec.apply_split(labels, L, R, lt, rt), Kl) - base
                    yield leaf, f, float(t), lt, rt, kind, inc


def audit_fit(X, params, kernel_override=None):
    """returns dict category -> (ok, detail)"""
    import gemclus.tree.kauri as KA
    res = {}
    steps = []
    real = KA.find_best_split

    def spy(kernel, Xa, leaves, Y, Z, ncl, Kmax, nleaves, min_leaf, feats):
        s = real(kernel, Xa, leaves, Y, Z, ncl, Kmax, nleaves, min_leaf, feats)
        steps.append((kernel.copy(), Xa.copy(), leaves.copy(), Y.copy(), Z.copy(), int(ncl), int(Kmax), int(nleaves), int(min_leaf), feats.copy(), s))
        return s
    KA.find_best_split = spy
    try:
        with warnings.catch_warnings():
            warnings.simplefilter("ignore")
            m = KA.Kauri(**params)
            y = kernel_override
            m.fit(X, y)
    finally:
        KA.find_best_split = real
    n = len(X)
    t = m.tree_
    labels = m.labels_
    leaves = [i for i in range(t.n_nodes) if t.children_left[i] == -1]
    nl = len(leaves)
    ok = True
    why = []

    def req(c, msg):
        nonlocal ok
        if not c:
            ok = False
            why.append(msg)
    max_leaves = params.get("max_leaves") or n
    max_depth = params.get("max_depth") or n
    req(nl <= max_leaves, f"{nl} leaves > max_leaves")
    req(max(t.depths) <= max_depth, "depth > max_depth")
    ks = sorted(set(int(x) for x in labels))
    req(len(ks) <= params.get("max_clusters", 3) and ks == list(range(len(ks))), f"clusters {ks}")
    req(t.n_nodes == 2 * nl - 1, "nodes != 2*leaves-1")
    # route training data, count samples per node
    count = {i: 0 for i in range(t.n_nodes)}
    leaf_of = []
    for i in range(n):
        node = 0
        count[0] += 1
        while t.children_left[node] != -1:
            node = t.children_left[node] if X[i, t.features[node]] <= t.thresholds[node] else t.children_right[node]
            count[node] += 1
        leaf_of.append(node)
    msl, mss = params.get("min_samples_leaf", 1), params.get("min_samples_split", 2)
    req(all(count[l] >= msl for l in leaves), "a leaf holds fewer than min_samples_leaf samples")
    req(all(count[i] >= mss for i in range(t.n_nodes) if t.children_left[i] != -1), "a node with < min_samples_split samples was split")
    req(all(t.thresholds[i] in set(X[:, t.features[i]]) for i in range(t.n_nodes) if t.children_left[i] != -1), "threshold not an observed value")
    req(all(len({int(labels[i]) for i in range(n) if leaf_of[i] == l}) <= 1 for l in leaves), "a leaf spans two clusters")
    req(all(int(labels[i]) == t.target[leaf_of[i]] for i in range(n)), "labels_ differ from the leaf targets")
    pred = m.predict(X)
    req(np.array_equal(pred, labels), "predict(X) != labels_")
    kern = steps[0][0] if steps else None
    if kern is not None:
        sc = m.score(X, kernel_override)
        req(abs(sc - spec.objective([int(x) for x in labels], kern.tolist())) <= 1e-8 * (1 + abs(sc)), "score != objective(labels)")
    res["structure"] = (ok, {"why": why, "params": params})
    # greedy audit
    gok, gwhy, dstar_seen = True, [], False
    total_gain = 0.0
    for si, (kernel, Xa, lv, Y, Z, ncl, Kmax, nleaves, min_leaf, feats, s) in enumerate(steps):
        cands = list(admissible(Xa, kernel, Z, Y, [int(x) for x in lv], ncl, Kmax, min_leaf, [int(f) for f in feats]))
        best = max((c[6] for c in cands), default=0.0)
        dstar_adm = any(c[5] == "double-star" for c in cands)
        dstar_seen = dstar_seen or dstar_adm
        if s.gain > 0:
            total_gain += s.gain
            mine = [c for c in cands if (c[0], c[1], c[2], c[3], c[4]) == (s.leaf, s.feature, float(s.threshold), s.left_target, s.right_target)]
            if not mine:
                gok = False
                gwhy.append({"step": si, "problem": "returned split is not an admissible candidate", "split": [s.leaf, s.feature, s.threshold, s.left_target, s.right_target]})
                continue
            inc = mine[0][6]
            tol = 1e-8 * (1 + abs(inc))
            if abs(inc - s.gain) > tol:
                gok = False
                gwhy.append({"step": si, "problem": "reported gain != real increase", "gain": float(s.gain), "real": float(inc), "kind": mine[0][5], "double_star_admissible": dstar_adm})
            if best > inc + 1e-8 * (1 + abs(best)):
                gok = False
                gwhy.append({"step": si, "problem": "an admissible alternative has a larger increase", "chosen": float(inc), "best": float(best), "double_star_admissible": dstar_adm})
        else:
            if best > 1e-8:
                gok = False
                gwhy.append({"step": si, "problem": "stopped although an admissible split has positive gain", "best": float(best), "double_star_admissible": dstar_adm})
    if steps:
        kern = steps[0][0]
        root = spec.objective([0] * n, kern.tolist())
        fin = spec.objective([int(x) for x in labels], kern.tolist())
        if abs(root + total_gain - fin) > 1e-7 * (1 + abs(fin)):
            gok = False
            gwhy.append({"problem": "final score != root score + sum of gains", "root+gains": float(root + total_gain), "final": float(fin), "double_star_admissible": dstar_seen})
    res["greedy"] = (gok, {"why": gwhy[:3], "params": params, "X": X.tolist()})
    res["greedy_dstar"] = dstar_seen
    return res


def datasets(seed, tier):
    rs = np.random.RandomState(seed)
    out = [np.array([[0.], [1.], [2.], [3.], [4.]]),
           np.array([[0., 1.], [0., 0.], [1., 1.], [1., 0.], [0., 1.], [2., 2.]]),          # ties and duplicates
           np.array([[0., 5.], [1., 5.], [0., 5.], [1., 5.], [1., 5.]]),                     # constant feature, binary feature
           np.round(rs.normal(size=(7, 2)), 1), np.round(rs.normal(size=(6, 3)) * 3, 0)]
    if tier == "thorough":
        out += [np.round(rs.normal(size=(9, 2)), 1), np.round(rs.uniform(-1, 1, size=(8, 2)), 1), rs.normal(size=(10, 3))]
    return out


def obligations(tier, seed):
    obs = []
    grid = []
    for mc in (1, 2, 3, 4):
        for md in (None, 1, 2):
            for mss, msl in ((2, 1), (4, 1), (4, 2), (6, 3)):
                for ml in (None, 2, 3):
                    grid.append(dict(max_clusters=mc, max_depth=md, min_samples_split=mss, min_samples_leaf=msl, max_leaves=ml))
    if tier == "quick":
        grid = grid[::3]
    kernels = ["linear", "rbf"]
    bad_struct, bad_greedy, bad_greedy_dstar = [], [], []
    nfit = 0
    for X in datasets(seed, tier):
        for p in grid:
            if p["min_samples_leaf"] > len(X):
                continue
            for kname in kernels:
                params = dict(p, kernel=kname, random_state=seed)
                try:
                    r = audit_fit(X, params)
                except Exception as e:
                    bad_struct.append({"params": params, "X": X.tolist(), "exception": repr(e)})
                    continue
                nfit += 1
                if not r["structure"][0]:
                    bad_struct.append(dict(r["structure"][1], X=X.tolist()))
                if not r["greedy"][0]:
                    only_dstar = all(w.get("double_star_admissible") for w in r["greedy"][1]["why"])
                    (bad_greedy_dstar if only_dstar else bad_greedy).append(r["greedy"][1])
    # non-PSD precomputed kernel
    rs = np.random.RandomState(seed + 1)
    for _ in range(6 if tier == "quick" else 30):
        X = np.round(rs.normal(size=(6, 2)), 1)
        A = rs.normal(size=(6, 6))
        Kp = A + A.T
        params = dict(max_clusters=int(rs.randint(1, 4)), kernel="precomputed", random_state=seed, min_samples_leaf=int(rs.randint(1, 3)),
                      min_samples_split=int(rs.choice([2, 4])))
        if params["min_samples_leaf"] * 2 > params["min_samples_split"]:
            params["min_samples_split"] = 2 * params["min_samples_leaf"]
        try:
            r = audit_fit(X, params, kernel_override=Kp)
        except Exception as e:
            bad_struct.append({"params": params, "exception": repr(e)})
            continue
        nfit += 1
        if not r["structure"][0]:
            bad_struct.append(dict(r["structure"][1], X=X.tolist()))
        if not r["greedy"][0]:
            only_dstar = all(w.get("double_star_admissible") for w in r["greedy"][1]["why"])
            (bad_greedy_dstar if only_dstar else bad_greedy).append(r["greedy"][1])
    fn = "gemclus.tree.kauri.Kauri.fit"
    obs.extend(size_ladder(seed, tier))
    obs.append(Ob(f"native fits: structural limits, self-consistent partition, predict == labels_, score == objective ({nfit} fits)",
                  PROVED if not bad_struct else REFUTED, "native", "B", {"fits": nfit, "failing": bad_struct[:3], "replayed": True}, fn=fn))
    obs.append(Ob(f"native fits: gain == real increase, chosen split is the best admissible one, telescoping, stopping rule -- steps where no double-star is admissible ({nfit} fits)",
                  PROVED if not bad_greedy else REFUTED, "native", "B", {"fits": nfit, "failing": bad_greedy[:3], "replayed": True}, fn=fn))
    obs.append(Ob("native fits: same audit on steps where a double-star assignment is admissible",
                  PROVED if not bad_greedy_dstar else REFUTED, "native", "B",
                  {"fits": nfit, "failing": bad_greedy_dstar[:2], "count": len(bad_greedy_dstar), "replayed": True}, fn=fn))
    return obs


def size_ladder(seed, tier):
    """B: the same audit on LARGER fits than the exhaustive small states: more than 16 leaves / clusters, trees deeper than 5
    (comb-like data), a few hundred samples -- stand-in for the missing induction over the number of samples, leaves and the depth."""
    rs = np.random.RandomState(seed + 11)
    c = rs.normal(scale=5, size=(8, 3))
    blobs = np.vstack([c[i] + rs.normal(size=(6, 3)) for i in range(8)])
    x = np.cumsum(2.0 ** np.arange(12))[:, None]
    comb = np.vstack([x, x + 0.1, x + 0.2])
    wide = rs.normal(size=(40, 9))
    cases = [("48 samples, 24 leaves / clusters", blobs, dict(max_clusters=24, max_leaves=24, kernel="linear")),
             ("48 samples, 20 clusters, rbf", blobs, dict(max_clusters=20, kernel="rbf")),
             ("comb data (depth 8)", comb, dict(max_clusters=12, kernel="linear")),
             ("comb data, min_samples_leaf 2", comb, dict(max_clusters=9, kernel="linear", min_samples_leaf=2, min_samples_split=4)),
             ("9 features, 5 drawn", wide, dict(max_clusters=6, kernel="linear", max_features=5))]
    if tier != "quick":
        big = np.vstack([rs.normal(size=(150, 2)) + 6 * np.array([np.cos(a), np.sin(a)]) for a in (0.0, 2.1, 4.2)])[::2]
        cases.append(("225 samples", big, dict(max_clusters=5, kernel="linear", max_depth=7)))
    bad_s, bad_g = [], []
    n = 0
    for tag, X, params in cases:
        params = dict(params, random_state=seed)
        try:
            r = audit_fit(X, params)
        except Exception as e:
            bad_s.append({"case": tag, "params": params, "exception": repr(e)[:300]})
            continue
        n += 1
        if not r["structure"][0]:
            bad_s.append(dict(r["structure"][1], case=tag))
        if not r["greedy"][0] and not all(w.get("double_star_admissible") for w in r["greedy"][1]["why"]):
            bad_g.append(dict(r["greedy"][1], case=tag))
    fn = "gemclus.tree.kauri.Kauri.fit"
    return [Ob(f"size ladder: larger native fits (> 16 leaves, depth > 5, 9 features): structural limits, self-consistent partition, predict == labels_, score == objective ({n} fits)",
               PROVED if not bad_s else REFUTED, "native", "B", {"fits": n, "failing": bad_s[:2], "replayed": True}, fn=fn),
            Ob(f"size ladder: larger native fits: gain == real increase, chosen split is the best admissible one, telescoping, stopping rule (steps without admissible double-star; {n} fits)",
               PROVED if not bad_g else REFUTED, "native", "B", {"fits": n, "failing": bad_g[:2], "replayed": True}, fn=fn)]


def selection_search(seed, tries=400):
    """native search for a state where the compiled find_best_split does not return the maximum over the
    admissible candidates although every candidate gain is exact (no double-star admissible): replay of Lemma B."""
    from gemclus.tree import _utils as SO
    rs = np.random.RandomState(seed)
    found = None
    for _ in range(tries):
        n = int(rs.randint(8, 12))
        ncl = 4
        nleaves = int(rs.randint(5, 7))
        leaf_of = rs.randint(0, nleaves, size=n)
        leaf_of[:nleaves] = np.arange(nleaves)
        cl_of = rs.randint(0, ncl, size=nleaves)
        cl_of[:ncl] = np.arange(ncl)
        X = np.round(rs.normal(size=(n, 1)), 2)
        A = rs.normal(size=(n, n))
        Kn = A @ A.T
        Kmax = ncl
        Z = np.zeros((n, n), dtype=np.int64)
        Z[leaf_of, np.arange(n)] = 1
        Y = np.zeros((Kmax, n), dtype=np.int64)
        Y[cl_of, np.arange(nleaves)] = 1
        leaves = np.array([j for j in range(nleaves) if Z[j].sum() >= 2], dtype=np.int64)
        if not len(leaves):
            continue
        s = SO.find_best_split(Kn, X, leaves, Y, Z, ncl, Kmax, nleaves, 1, np.array([0], dtype=np.intp))
        cands = list(admissible(X, Kn, Z, Y, [int(x) for x in leaves], ncl, Kmax, 1, [0]))
        best = max((c[6] for c in cands), default=0.0)
        if best > max(s.gain, 0) + 1e-7 * (1 + abs(best)):
            bc = max(cands, key=lambda c: c[6])
            found = {"kernel": Kn.tolist(), "X": X.tolist(), "leaf_of": leaf_of.tolist(), "cluster_of_leaf": cl_of.tolist(), "n_clusters": ncl, "K_max": Kmax,
                     "returned_gain": float(s.gain), "returned": [int(s.leaf), float(s.threshold), int(s.left_target), int(s.right_target)],
                     "better_candidate": [int(bc[0]), bc[2], bc[3], bc[4], bc[5]], "better_gain": float(bc[6])}
            break
    return found
