"""Contracts on the validation half of gemclus.mlcl (property C14).

ghost typing (FX, P-inf)   in _check_structural_constraint every value has a ghost kind -- `id` (a sample index taken
                           from the user's pairs) or `pos` (a position in unique_indices / a node of the must-link
                           graph).  Obligation: no comparison mixes the two kinds, and positions are turned back
                           into ids only through unique_indices[pos].
exhaustive (B)             accept / reject against the union-find specification over all small ML / CL sets on
                           contiguous, non-contiguous and unordered id universes
malformed (TB)             scalars, flat lists, single-column arrays, self pairs are rejected; None / empty accepted
"""
import itertools

import numpy as np

from .common import *  # noqa
from engine import fx
from specs import mlcl as spec


def kind(t, env_kinds):
    """ghost kind of a term: 'id', 'pos', ('list', k), ('pair', k) or None (unknown / other)."""
    if not isinstance(t, tuple) or not t:
        return None
    k = t[0]
    if k in ("loopvar", "loopout"):
        return kind(t[3], env_kinds)
    if k == "var":
        return env_kinds.get(t[1])
    if k == "iter":
        kk = kind(t[1], env_kinds)
        return kk[1] if isinstance(kk, tuple) and kk[0] == "list" else None
    if k == "item":
        base = kind(t[1], env_kinds)
        if isinstance(base, tuple) and base[0] == "pair":
            return base[1]
        if isinstance(base, tuple) and base[0] == "list":
            return base[1]
        return None
    if k == "tuple":
        ks = {kind(x, env_kinds) for x in t[1]}
        return ("pair", ks.pop()) if len(ks) == 1 else None
    if k == "list":
        ks = {kind(x, env_kinds) for x in t[1]}
        return ("list", ks.pop()) if len(ks) == 1 else ("list", None)
    if k == "comp":
        return ("list", kind(t[2], env_kinds))
    if k == "binop" and t[1] == "Add":
        a, b = kind(t[2], env_kinds), kind(t[3], env_kinds)
        return a if a == b else None
    if k == "callres":
        name = t[2]
        if name.endswith(".index"):
            return "pos"
        if name in ("list", "set", "sorted"):
            return kind(t[3][0], env_kinds) if t[3] else None
        if name == "range":
            return ("list", "pos")
        if name == "len":
            return "count"
        if name.endswith("breadth_first_order"):
            return ("list", "pos")
        if name == "itertools.combinations":
            kk = kind(t[3][0], env_kinds)
            return ("list", ("pair", kk[1])) if isinstance(kk, tuple) and kk[0] == "list" else None
    return None


def _cmps(t, acc):
    if isinstance(t, tuple):
        if t and t[0] == "cmp":
            acc.append(t)
        for x in t:
            _cmps(x, acc)
    return acc


def ghost_typing():
    import gemclus.mlcl as ML
    fn = "gemclus.mlcl._check_structural_constraint"
    it = fx.Interp(None)
    try:
        sts = it.run_function(ML._check_structural_constraint)
    except fx.FxUnsupported as e:
        return [Ob("ghost typing: analysable", UNDECIDED, "fx", "P", {"why": str(e)}, fn=fn)]
    env_kinds = {"must_link": ("list", ("pair", "id")), "cannot_link": ("list", ("pair", "id"))}
    mixed, same, unknown = [], 0, []
    for st in sts:
        for c, _ in st.pc:
            for cmp_ in _cmps(c, []):
                if cmp_[1] not in (("Eq",), ("NotEq",)):
                    continue
                a, b = cmp_[2]
                ka, kb = kind(a, env_kinds), kind(b, env_kinds)
                if ka in ("id", "pos") and kb in ("id", "pos"):
                    if ka != kb:
                        mixed.append(fx.show(cmp_)[:200])
                    else:
                        same += 1
                elif not (fx.is_const(a) or fx.is_const(b)):
                    unknown.append(fx.show(cmp_)[:200])
    obs = [Ob("ghost typing: no comparison between a position in the must-link graph and a raw sample id",
              PROVED if not mixed and same > 0 and not unknown else (REFUTED if mixed else UNDECIDED), "fx-ghost-typing", "P",
              {"mixed": sorted(set(mixed))[:4], "well-typed comparisons": same, "untyped": sorted(set(unknown))[:4]}, fn=fn)]
    # exploration loop: runs while unexplored nodes remain, each round starts a BFS from an unexplored node and
    # removes exactly the reached nodes (so every must-link component is examined)
    okloop = False
    det = {}
    for st in sts:
        guards = [e for e in st.events if e[0] == "loop-guard"]
        bfs = [e for e in st.events if e[0] == "call" and e[2].endswith("breadth_first_order")]
        rem = [e for e in st.events if e[0] == "call" and isinstance(e[6], tuple) and e[6][0] == "attr" and e[6][2] == "remove"]
        if not (guards and bfs and rem):
            continue
        g = guards[0][2]
        queue = None
        # "nodes remain": len(q) != 0, len(q) > 0, len(q) >= 1, len(q) or q itself
        lq = None
        if g[0] == "cmp" and len(g[1]) == 1 and ((g[1][0] in ("NotEq", "Gt") and g[2][1] == fx.C(0)) or (g[1][0] == "GtE" and g[2][1] == fx.C(1))):
            lq = g[2][0]
        elif g[:1] == ("callres",) and g[2] == "len":
            lq = g
        if lq is not None and lq[:1] == ("callres",) and lq[2] == "len":
            queue = lq[3][0]
        elif lq is None and g[0] in ("var", "loopvar", "list", "callres"):
            queue = g                          # `while q:` -- the list itself is the guard
        start = bfs[0][3][1] if len(bfs[0][3]) > 1 else dict(bfs[0][4]).get("i_start")        # second positional argument or its keyword
        reach = ("callres", bfs[0][1], bfs[0][2], bfs[0][3], bfs[0][4])
        ok = (queue is not None and start == ("item", queue, fx.C(0)) and len(rem) == 1 and rem[0][6][1] == queue and rem[0][3][0][:1] == ("iter",)
              and rem[0][3][0][1] == reach and dict(bfs[0][4]).get("directed") == fx.C(False))
        det = {"guard": fx.show(g)[:120], "start": fx.show(start)[:80]}
        okloop = ok
        if not ok:
            break
    obs.append(Ob("component exploration: while unexplored nodes remain, BFS (undirected) from the first unexplored node, remove exactly the reached nodes",
                  PROVED if okloop else REFUTED, "fx-dataflow", "P", det, fn=fn))
    # raising path exists and raises ValueError
    rs = [s for s in sts if s.ended == "raise"]
    okr = bool(rs) and all([e for e in s.events if e[0] == "raise"][0][1][2] == "ValueError" for s in rs)
    obs.append(Ob("a contradiction raises ValueError", PROVED if okr else REFUTED, "fx", "P", {}, fn=fn))
    return obs


UNIVERSES = {"quick": [(0, 1, 2), (3, 7, 10, 20)], "thorough": [(0, 1, 2), (3, 7, 10, 20), (5, 2, 9), (4, 0, 8, 1)]}
U6 = (4, 0, 8, 1, 6, 3)        # three and more must-link components, unordered non-contiguous ids
U6_ML = [(4, 0), (8, 1), (6, 3), (0, 8), (1, 6), (3, 4)]


def exhaustive(tier):
    import gemclus.mlcl as ML
    fn = "gemclus.mlcl._check_linking_constraint"
    obs = []
    for U in UNIVERSES[tier]:
        pairs = [(a, b) for a in U for b in U]            # ordered, self pairs included
        mlmax, clmax = (2, 2) if (tier == "quick" or len(U) > 3) else (3, 2)
        if tier == "thorough" and len(U) == 4:
            mlmax = 3
            pairs_ml = [(a, b) for a in U for b in U if a < b or a == b and a == U[0]] + [(U[1], U[0])]
        else:
            pairs_ml = pairs
        bad = []
        total = 0
        for r in range(0, mlmax + 1):
            for ml in itertools.combinations(pairs_ml, r):
                for q in range(0, clmax + 1):
                    for cl in itertools.combinations(pairs, q):
                        total += 1
                        want = spec.acceptable(ml, cl)
                        try:
                            ML._check_linking_constraint([list(p) for p in ml] or None, [list(p) for p in cl] or None)
                            got = True
                        except ValueError:
                            got = False
                        except Exception as e:
                            got = repr(e)
                        if got != want and len(bad) < 5:
                            bad.append({"must_link": list(ml), "cannot_link": list(cl), "accepted": got, "spec": want})
                        elif got != want:
                            bad.append(None)
        obs.append(Ob(f"validation iff not contradictory: ids {U}, all ML sets <= {mlmax} pairs x CL sets <= {clmax} pairs ({total} cases)",
                      PROVED if not bad else REFUTED, "enumeration", "B", {"cases": total, "mismatches": len(bad), "failing": [b for b in bad if b][:3], "replayed": True}, fn=fn))
    bad, total = [], 0
    allp = [(a, b) for a in U6 for b in U6 if a != b]
    for r in range(1, 5):
        for ml in itertools.combinations(U6_ML, r):
            for cl in [()] + [(p,) for p in allp]:
                total += 1
                want = spec.acceptable(ml, cl)
                try:
                    ML._check_linking_constraint([list(p) for p in ml], [list(p) for p in cl] or None)
                    got = True
                except ValueError:
                    got = False
                if got != want:
                    bad.append({"must_link": list(ml), "cannot_link": list(cl), "accepted": got, "spec": want})
    obs.append(Ob(f"validation iff not contradictory: ids {U6}, up to 4 must-link edges (up to 3 components) x one cannot-link pair ({total} cases)",
                  PROVED if not bad else REFUTED, "enumeration", "B", {"cases": total, "mismatches": len(bad), "failing": bad[:3], "replayed": True}, fn=fn))
    return obs


def malformed():
    import gemclus.mlcl as ML
    from gemclus.linear import LinearModel
    fn = "gemclus.mlcl.add_mlcl_constraint"
    obs = []
    bads = {"scalar": 3, "flat list": [0, 1], "single-column array": np.array([[0], [1]]), "1-d array": np.array([0, 1]),
            "self pair": [[2, 2]], "3-d": np.zeros((2, 2, 2), dtype=int), "strings": [["a", "b"]]}
    for which in ("must_link", "cannot_link"):
        for name, v in bads.items():
            try:
                ML.add_mlcl_constraint(LinearModel(), **{which: v})
                ok, exc = False, None
            except (ValueError, TypeError) as e:
                ok, exc = True, repr(e)[:120]
            except Exception as e:
                ok, exc = False, repr(e)[:120]
            obs.append(Ob(f"add_mlcl_constraint({which}=<{name}>) is rejected with a ValueError/TypeError", PROVED if ok else REFUTED,
                          "enumeration", "P", {"exception": exc, "replayed": True}, fn=fn))
    for name, kw in {"None": {}, "empty lists": dict(must_link=[], cannot_link=[]), "valid pairs": dict(must_link=[[0, 1]], cannot_link=[[1, 2]]),
                     "valid arrays": dict(must_link=np.array([[4, 9]]), cannot_link=np.array([[9, 7], [4, 1]]))}.items():
        try:
            m = ML.add_mlcl_constraint(LinearModel(), **kw)
            ok = isinstance(m, LinearModel)
        except Exception as e:
            ok = False
        obs.append(Ob(f"add_mlcl_constraint({name}) is accepted", PROVED if ok else REFUTED, "enumeration", "P", {"replayed": True}, fn=fn))
    for bad_factor in (0, -1.0, "x", None):
        try:
            ML.add_mlcl_constraint(LinearModel(), must_link=[[0, 1]], factor=bad_factor)
            ok = False
        except (ValueError, TypeError):
            ok = True
        obs.append(Ob(f"add_mlcl_constraint(factor={bad_factor!r}) is rejected", PROVED if ok else REFUTED, "enumeration", "P", {"replayed": True}, fn=fn))
    try:
        ML.add_mlcl_constraint(object(), must_link=[[0, 1]])
        ok = False
    except (ValueError, TypeError):
        ok = True
    obs.append(Ob("add_mlcl_constraint(<not a DiscriminativeModel>) is rejected", PROVED if ok else REFUTED, "enumeration", "P", {"replayed": True}, fn=fn))
    return obs
