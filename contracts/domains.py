"""Documented hyper-parameter domains (property C16), transcribed from the docstrings of /repo and reconciled with
the property statements.  Reconciliations (where a docstring only gives a type, the natural range is used):
  * counts (n_clusters, max_iter, batch_size, n_hidden_dim, n_cuts, max_* ...) are integers >= 1 (min_samples_split >= 2,
    max_leaves >= 2: a tree needs two leaves to hold a split);
  * learning_rate, temperature > 0; alpha, M, reg >= 0 (C05 / C06 quantify over alpha >= 0, M >= 0);
  * kernel / metric: the scikit-learn names, 'precomputed', or a callable (C11 says callables are honoured, even where a
    docstring omits them); metric names are those scikit-learn's pairwise_distances accepts;
  * random_state: int >= 0, a RandomState instance, or None (docstrings: "int, RandomState instance, default=None");
  * n_cuts: the docstring says "int": None is NOT in the documented domain.
"""
import numpy as np

INT = lambda lo, none=False: ("int", lo, none)
REAL = lambda lo, closed, none=False: ("real", lo, closed, none)


def kernels():
    from sklearn.metrics.pairwise import PAIRWISE_KERNEL_FUNCTIONS
    return set(PAIRWISE_KERNEL_FUNCTIONS)


def metrics():
    from sklearn.metrics.pairwise import PAIRWISE_DISTANCE_FUNCTIONS
    return set(PAIRWISE_DISTANCE_FUNCTIONS)


def geminis():
    return {"mmd_ova", "mmd_ovo", "wasserstein_ova", "wasserstein_ovo", "kl_ova", "kl_ovo", "mi", "tv_ova", "tv_ovo",
            "hellinger_ova", "hellinger_ovo", "chi2_ova", "chi2_ovo"}


DOC = {
    "n_clusters": INT(1), "max_clusters": INT(1), "max_iter": INT(1), "n_hidden_dim": INT(1), "n_cuts": INT(1),
    "batch_size": INT(1, True), "max_depth": INT(1, True), "max_features": INT(1, True), "max_leaves": INT(2, True),
    "min_samples_split": INT(2), "min_samples_leaf": INT(1),
    "learning_rate": REAL(0, False), "temperature": REAL(0, False),
    "alpha": REAL(0, True), "M": REAL(0, True), "reg": REAL(0, True),
    "solver": ("options", {"sgd", "adam"}, False, False),
    "kernel": ("options", lambda: kernels() | {"precomputed"}, True, False),
    "base_kernel": ("options", kernels, True, False),
    "metric": ("options", lambda: metrics() | {"precomputed"}, True, False),
    "gemini": ("gemini",),
    "verbose": ("bool",), "ovo": ("bool",), "dynamic": ("bool",),
    "kernel_params": ("type", (dict,), True), "metric_params": ("type", (dict,), True), "base_kernel_params": ("type", (dict,), True),
    "groups": ("type", (list,), True),
    "feature_mask": ("type", (np.ndarray,), True),
    "random_state": ("random_state",),
}


class _Dummy:
    pass


def probes(spec):
    """(value, in_domain) pairs: just inside / outside every bound, None, wrong types"""
    kind = spec[0]
    out = []
    if kind == "int":
        _, lo, none = spec
        out += [(lo, True), (lo + 1, True), (lo + 1000, True), (lo - 1, False), (-5, False), (lo + 0.5, False), (float(lo), False),
                ("3", False), ([lo], False), (None, none)]
    elif kind == "real":
        _, lo, closed, none = spec
        out += [(lo, closed), (lo + 1e-9, True), (lo + 1.0, True), (5, True), (lo - 1e-9, False), (-1.0, False), ("0.1", False), ([0.1], False), (None, none)]
    elif kind == "options":
        _, opts, call_ok, none = spec
        opts = opts() if callable(opts) else opts
        out += [(o, True) for o in sorted(opts)]
        out += [("no_such_option", False), (3, False), (None, none), ((lambda X, Y=None: np.zeros((len(X), len(X)))), call_ok)]
    elif kind == "bool":
        out += [(True, True), (False, True), (None, False), ("yes", False), (1.5, False)]
    elif kind == "type":
        _, types, none = spec
        ok_vals = {dict: {"gamma": 0.5}, list: [[0]], np.ndarray: np.array([True])}
        out += [(ok_vals[t], True) for t in types]
        out += [(None, none), ("text", False), (3, False)] + [(v, False) for t, v in ok_vals.items() if t not in types and not (t is list and np.ndarray in types)]
    elif kind == "gemini":
        from gemclus.gemini import MMDGEMINI
        out += [(g, True) for g in sorted(geminis())] + [(None, True), (MMDGEMINI(), True), ("mmd", False), (3, False), (_Dummy(), False)]
    elif kind == "random_state":
        out += [(0, True), (7, True), (None, True), (np.random.RandomState(0), True), (-1, False), ("seed", False), (1.5, False)]
    return out


def numeric_formula(spec, v, is_int):
    """z3 formula of the documented numeric domain over a real variable v (is_int: Bool 'v is an integer')"""
    import z3
    if spec[0] == "int":
        return z3.And(is_int, v >= spec[1])
    if spec[0] == "real":
        return (v >= spec[1]) if spec[2] else (v > spec[1])
    return None
