"""B-tier: the documented zero case of the hierarchical prox (v = 0, u = 0, alpha > 0) relies on IEEE
arithmetic (alpha / 0 = inf, max(-inf, 0) = 0); it is checked natively, never counted as proved."""
import warnings

import numpy as np

from .common import *  # noqa


def zero_case():
    import gemclus.sparse._prox_grad as PG
    obs = []
    for k, h, alpha, M in [(1, 1, 0.5, 1.0), (2, 3, 1e-3, 10.0), (3, 2, 7.0, 0.0)]:
        with warnings.catch_warnings(), np.errstate(all="ignore"):
            warnings.simplefilter("ignore")
            b, t = PG.mlp_prox_grad(np.zeros((2, k)), np.zeros((2, h)), alpha, M)
            gb, gt = PG.group_mlp_prox_grad([[0, 1]], np.zeros((2, k)), np.zeros((2, h)), alpha, M)
        ok = bool(np.all(b == 0) and np.all(t == 0) and np.all(gb == 0) and np.all(gt == 0))
        obs.append(Ob(f"mlp_prox_grad zero case v=0,u=0,alpha={alpha},M={M},k={k},h={h} -> (0,0)", PROVED if ok else REFUTED,
                      "native", "B", {"beta": b.tolist(), "theta": t.tolist(), "replayed": True},
                      fn="gemclus.sparse._prox_grad.mlp_prox_grad"))
    return obs
