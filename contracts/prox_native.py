"""B-tier: the documented zero case of the hierarchical prox (v = 0, u = 0, alpha > 0) relies on IEEE
arithmetic (alpha / 0 = inf, max(-inf, 0) = 0); it is checked natively, never counted as proved."""
import warnings

import numpy as np

from .common import *  # noqa


def zero_case():
    import gemclus.sparse._prox_grad as PG
    obs = []
    for k, h, alpha, M in [(1, 1, 0.5, 1.0), (2, 3, 1e-3, 10.0), (3, 2, 7.0, 0.0)]:
        with warnings.catch_warnings(), np.errstate(all="ignore"):
            warnings.simplefilter("ignore")
            b, t = PG.mlp_prox_grad(np.zeros((2, k)), np.zeros((2, h)), alpha, M)
            gb, gt = PG.group_mlp_prox_grad([[0, 1]], np.zeros((2, k)), np.zeros((2, h)), alpha, M)
        ok = bool(np.all(b == 0) and np.all(t == 0) and np.all(gb == 0) and np.all(gt == 0))
        obs.append(Ob(f"mlp_prox_grad zero case v=0,u=0,alpha={alpha},M={M},k={k},h={h} -> (0,0)", PROVED if ok else REFUTED,
                      "native", "B", {"beta": b.tolist(), "theta": t.tolist(), "replayed": True},
                      fn="gemclus.sparse._prox_grad.mlp_prox_grad"))
    return obs



def unordered_groups(seed=0):
    """B: a group is a set of feature indices; listed in any order (unordered, interleaved, 'spanning' lists such as [0, 3, 2]) both group
    wrappers must return, for every feature, the row operator applied to its flattened group -- and must not touch other rows"""
    import itertools
    import gemclus.sparse._prox_grad as PG
    rs = np.random.RandomState(seed)
    obs = []
    d, h, k = 6, 2, 3
    W = rs.normal(size=(d, k)) * 2
    Ws, W1 = rs.normal(size=(d, k)), rs.normal(size=(d, h)) * 2
    parts = [[[0, 3, 2], [1], [4, 5]], [[0, 4, 2], [1, 3], [5]], [[2, 5, 4], [0, 1, 3]], [[5, 0], [3, 1], [4, 2]], [[0, 5, 6 - 3, 1 + 1], [1, 4]],
             [[1, 0], [2], [3], [5, 4]], [np.array([2, 0, 1]), np.array([5, 3, 4])]]
    bad_l = bad_h = None
    for part in parts:
        Z = PG.group_linear_prox_grad(part, W.copy(), 1.3)
        B, T = PG.group_mlp_prox_grad(part, Ws.copy(), W1.copy(), 0.6, 1.5)
        for g in part:
            g = list(g)
            want = PG.linear_prox_grad(W[g].reshape(1, -1), 1.3).reshape(len(g), -1)
            if not np.allclose(Z[g], want, rtol=1e-12, atol=1e-12) and bad_l is None:
                bad_l = {"groups": [list(map(int, x)) for x in part], "group": g, "got": np.asarray(Z[g]).tolist(), "row operator on the flattened group": want.tolist()}
            b, t = PG.mlp_prox_grad(Ws[g].reshape(1, -1), W1[g].reshape(1, -1), 0.6, 1.5)
            if not (np.allclose(B[g], b.reshape(len(g), -1), rtol=1e-12, atol=1e-12) and np.allclose(T[g], t.reshape(len(g), -1), rtol=1e-12, atol=1e-12)) and bad_h is None:
                bad_h = {"groups": [list(map(int, x)) for x in part], "group": g, "got beta": np.asarray(B[g]).tolist(), "want beta": b.reshape(len(g), -1).tolist()}
    obs.append(Ob("group_linear_prox_grad: unordered / interleaved group lists (7 partitions of 6 features) == row operator on each flattened group",
                  PROVED if bad_l is None else REFUTED, "native", "B", dict(bad_l or {}, replayed=bad_l is not None), fn="gemclus.sparse._prox_grad.group_linear_prox_grad"))
    obs.append(Ob("group_mlp_prox_grad: unordered / interleaved group lists (7 partitions of 6 features) == row operator on each flattened group",
                  PROVED if bad_h is None else REFUTED, "native", "B", dict(bad_h or {}, replayed=bad_h is not None), fn="gemclus.sparse._prox_grad.group_mlp_prox_grad"))
    return obs
