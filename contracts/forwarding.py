"""Contracts for C11: kernel / metric / GEMINI choices are forwarded faithfully (FX on the real AST, TB tables).

compute_affinity   callable -> kernel(X); 'precomputed' -> y, and y None -> ValueError; otherwise
                   pairwise_kernels / pairwise_distances(X, metric=self.<kernel|metric>, **(params or {}))
constructors       every GEMINI constructor stores ovo / kernel / kernel_params / metric / metric_params / epsilon unchanged
get_gemini         None -> registry('mmd_ova'); str -> registry(self.gemini); instance -> itself;
                   *MMD / *Wasserstein estimators build the GEMINI from exactly self.ovo, self.kernel|metric, self.*_params
domains            every kernel / metric value an estimator's validation accepts is accepted by the GEMINI constructor it
                   is forwarded to (callee precondition follows from the caller's validated domain)
Kauri              _compute_kernel: 'precomputed' -> y, and y None -> error; otherwise pairwise_kernels(X, metric=self.kernel)
read-sets          fit / path / score use the kernel choice only through compute_affinity(X, y) (lemma L7)
"""
import inspect

import numpy as np

from .common import *  # noqa
from engine import fx

SELF = ("var", "self")


def A(name):
    return ("attr", SELF, name)


def estimators_all():
    from .fit_loop import gradient_estimators
    from gemclus.tree import Kauri
    return gradient_estimators() + [Kauri]


def affinity_obligations():
    from gemclus.gemini import MMDGEMINI, WassersteinGEMINI, KLGEMINI, TVGEMINI, HellingerGEMINI, ChiSquareGEMINI
    obs = []
    for cls, attr, pattr, fname in ((MMDGEMINI, "kernel", "kernel_params", "pairwise_kernels"),
                                    (WassersteinGEMINI, "metric", "metric_params", "pairwise_distances")):
        fn = f"gemclus.gemini.{cls.__name__}.compute_affinity"
        it = fx.Interp(cls, inline_filter=lambda o, m: False)
        sts = it.run_method("compute_affinity")

        def ob(name, ok, det=None):
            obs.append(Ob(f"{cls.__name__}.compute_affinity:{name}", PROVED if ok else REFUTED, "fx-dataflow", "P", det or {}, fn=fn))
        kinds = {}
        for st in sts:
            is_call = None
            pre = None
            none_y = None
            for c, b in st.pc:
                if c[:1] == ("callres",) and c[2] == "callable" and c[3] == (A(attr),):
                    is_call = b
                if c == ("cmp", ("Eq",), (A(attr), fx.C("precomputed"))):
                    pre = b
                if c == ("cmp", ("Is",), (("var", "y"), fx.C(None))):
                    none_y = b
            if is_call:
                ok = st.ended == "return" and st.ret[:1] == ("callres",) and st.ret[2] == f"self.{attr}" and st.ret[3] == (("var", "X"),)
                kinds.setdefault("callable -> the callable applied to X", []).append(ok)
            elif pre and none_y:
                exc = [e for e in st.events if e[0] == "raise"]
                kinds.setdefault("'precomputed' without a matrix raises ValueError", []).append(
                    st.ended == "raise" and bool(exc) and exc[0][1][2] == "ValueError")
            elif pre:
                kinds.setdefault("'precomputed' -> the user's matrix y, unchanged", []).append(st.ended == "return" and st.ret == ("var", "y"))
            elif pre is False and is_call is False:
                r = st.ret if st.ended == "return" else None
                ok = (r is not None and r[:1] == ("callres",) and r[2] == fname and r[3] == (("var", "X"),)
                      and dict((k, v) for k, v in r[4] if k is not None).get("metric") == A(attr))
                star = [v for k, v in (r[4] if ok else ()) if k is None]
                pnone = None
                for c, b in st.pc:
                    if c == ("cmp", ("Is",), (A(pattr), fx.C(None))):
                        pnone = b
                if ok:
                    want = ("ite", ("cmp", ("Is",), (A(pattr), fx.C(None))), ("dict", ()), A(pattr))       # dict() and {} are one term
                    ok = len(star) == 1 and fx.strip(star[0]) == want
                kinds.setdefault(f"named -> {fname}(X, metric=self.{attr}, **(self.{pattr} or {{}}))", []).append(ok)
            else:
                kinds.setdefault("unclassified path", []).append(False)
        want_kinds = 4
        for k, v in kinds.items():
            ob(k, all(v), {"paths": len(v)})
        ob("all four cases present", len([k for k in kinds if k != "unclassified path"]) == want_kinds, {"cases": sorted(kinds)})
    for cls in (KLGEMINI, TVGEMINI, HellingerGEMINI, ChiSquareGEMINI):
        it = fx.Interp(cls, inline_filter=lambda o, m: False)
        sts = it.run_method("compute_affinity")
        obs.append(Ob(f"{cls.__name__}.compute_affinity: returns None (f-divergences need no affinity)",
                      PROVED if all(s.ended == "return" and s.ret == fx.C(None) for s in sts) else REFUTED, "fx-dataflow", "P", {},
                      fn=f"gemclus.gemini.{cls.__name__}.compute_affinity"))
    return obs


def init_obligations(classes=None):
    """__init__ stores every parameter unchanged under its own name; inherited parameters go to super().__init__ by keyword."""
    from gemclus import gemini as G
    obs = []
    classes = classes or ([getattr(G, n) for n in ("KLGEMINI", "MI", "TVGEMINI", "HellingerGEMINI", "ChiSquareGEMINI", "MMDGEMINI", "WassersteinGEMINI")]
                          + estimators_all())
    for cls in classes:
        fn = f"{cls.__module__}.{cls.__name__}.__init__"
        params = [p for p in inspect.signature(cls.__init__).parameters if p != "self"]
        it = fx.Interp(cls, inline_filter=lambda o, m: m == "__init__", max_depth=5)
        try:
            sts = it.run_method("__init__")
        except fx.FxUnsupported as e:
            obs.append(Ob(f"{cls.__name__}.__init__: analysable", UNDECIDED, "fx", "P", {"why": str(e)}, fn=fn))
            continue
        ok = len(sts) == 1
        det = {}
        if ok:
            stores = fx.stores(sts[0])
            got = {}
            for a, v in stores:
                got[a] = v
            fixed = {"MI": {"ovo": fx.C(False)}}.get(cls.__name__, {})
            bad = {}
            for p in params:
                if got.get(p) != ("var", p):
                    bad[p] = fx.show(got.get(p))
            # attributes that are not parameters: only documented fixed choices (MI fixes ovo=False; RIM-family fixes gemini='mi')
            extra = {a: fx.show(v) for a, v in got.items() if a not in params}
            allowed_extra = {"MI": {"ovo"}, "RIM": {"gemini", "batch_size"}, "KernelRIM": {"gemini", "batch_size"}, "SparseLinearMI": {"gemini"}}
            for a in list(extra):
                # a base-class option this class does not expose may only be FIXED to a constant (an object built from the other
                # parameters at construction time would not follow set_params)
                if (a in allowed_extra.get(cls.__name__, set()) or a in _inherited_fixed(cls)) and fx.is_const(got[a]):
                    extra.pop(a)
            ok = not bad and not extra
            det = {"not stored unchanged": bad, "unexpected attributes": extra}
        obs.append(Ob(f"{cls.__name__}.__init__: every constructor parameter is stored unchanged under its own name", PROVED if ok else REFUTED,
                      "fx-frame", "P", det, fn=fn))
    return obs


def update_step_obligations():
    """every _update_weights (base class and overrides) hands (weights, gradients) to the optimiser exactly once on EVERY path:
    the number of optimiser steps of a fit is the number of mini-batches drawn, whatever the state of the model"""
    obs = []
    seen = set()
    for cls in estimators_all():
        f = getattr(cls, "_update_weights", None)
        if f is None or f in seen:
            continue
        seen.add(f)
        owner = f.__qualname__.split(".")[0]
        fn = f"{f.__module__}.{f.__qualname__}"
        try:
            sts = fx.Interp(cls, inline_filter=lambda o, m: m == "_update_weights", max_depth=4).run_method("_update_weights")
        except fx.FxUnsupported as e:
            obs.append(Ob(f"{owner}._update_weights: analysable", UNDECIDED, "fx", "P", {"why": str(e)}, fn=fn))
            continue
        counts = [sum(1 for e in st.events if e[0] == "call" and e[2] == "self.optimiser_.update_params") for st in sts if st.ended != "raise"]
        obs.append(Ob(f"{owner}._update_weights: one optimiser step on every path ({len(counts)} paths)", PROVED if counts and all(c == 1 for c in counts) else REFUTED,
                      "fx-dataflow", "P", {"optimiser steps per path": counts}, fn=fn))
    return obs


def _inherited_fixed(cls):
    """parameters of base-class constructors that this class does not expose (set to a fixed value through super().__init__)"""
    own = set(inspect.signature(cls.__init__).parameters)
    out = set()
    for k in cls.__mro__[1:]:
        if "__init__" in k.__dict__ and k.__module__.startswith("gemclus"):
            out |= set(inspect.signature(k.__init__).parameters) - own
    return out


def get_gemini_obligations():
    obs = []
    from gemclus._base_gemini import DiscriminativeModel
    for cls in estimators_all():
        if not hasattr(cls, "get_gemini"):
            continue
        fn = f"{cls.__module__}.{cls.__name__}.get_gemini"
        owner = [k for k in cls.__mro__ if "get_gemini" in k.__dict__][0]
        it = fx.Interp(cls, inline_filter=lambda o, m: False)
        sts = it.run_method("get_gemini")

        def ob(name, ok, det=None):
            obs.append(Ob(f"{cls.__name__}.get_gemini:{name}", PROVED if ok else REFUTED, "fx-dataflow", "P", det or {}, fn=fn))
        if owner is DiscriminativeModel:
            cases = {}
            for st in sts:
                isnone = isstr = None
                for c, b in st.pc:
                    if c == ("cmp", ("Is",), (A("gemini"), fx.C(None))):
                        isnone = b
                    if c[:1] == ("callres",) and c[2] == "isinstance" and c[3] == (A("gemini"), ("builtin", "str")):
                        isstr = b
                r = st.ret if st.ended == "return" else None
                if isnone:
                    cases["None"] = r is not None and r[:1] == ("callres",) and r[2] == "_str_to_gemini" and r[3] == (fx.C("mmd_ova"),)
                elif isstr:
                    cases["str"] = r is not None and r[:1] == ("callres",) and r[2] == "_str_to_gemini" and r[3] == (A("gemini"),)
                else:
                    cases["instance"] = r == A("gemini")
            ob("None -> registry('mmd_ova'), name -> registry(name), instance -> itself", cases == {"None": True, "str": True, "instance": True}, {"cases": cases})
        else:
            ok = len(sts) == 1 and sts[0].ended == "return"
            det = {}
            if ok:
                r = sts[0].ret
                # by keyword or by position: the arguments are read by parameter name
                if r[:1] == ("callres",) and r[2] == "MMDGEMINI":
                    ok = fx.argmap(r, ("ovo", "kernel", "kernel_params", "epsilon")) == {"ovo": A("ovo"), "kernel": A("kernel"), "kernel_params": A("kernel_params")}
                elif r[:1] == ("callres",) and r[2] == "WassersteinGEMINI":
                    ok = fx.argmap(r, ("ovo", "metric", "metric_params", "epsilon")) == {"ovo": A("ovo"), "metric": A("metric"), "metric_params": A("metric_params")}
                else:
                    ok = False
                det = {"returns": fx.show(r)}
            ob("builds the GEMINI from exactly self.ovo, self.kernel|metric and self.*_params", ok, det)
    return obs


def copy_obligations():
    """`gemini given as ... instance`: the objective a model trains with after the model object has been copied the way scikit-learn
    copies estimators (sklearn.base.clone: GridSearchCV, cross_validate, every meta-estimator), deep-copied or pickled is the one
    its parameters described -- same class, every constructor option equal.  All GEMINI classes, every option off its default."""
    import copy
    import inspect
    import pickle
    from sklearn.base import clone
    from gemclus import gemini as G_
    from gemclus.linear import LinearModel
    from gemclus.tree import Douglas
    obs = []
    off_default = {"ovo": True, "epsilon": 1e-7, "kernel": "rbf", "kernel_params": {"gamma": 0.37}, "metric": "euclidean",
                   "metric_params": {"squared": True}}
    for cname in ("KLGEMINI", "TVGEMINI", "HellingerGEMINI", "ChiSquareGEMINI", "MMDGEMINI", "WassersteinGEMINI", "MI"):
        cls = getattr(G_, cname)
        params = [p_ for p_ in inspect.signature(cls.__init__).parameters if p_ != "self"]
        kw = {p_: off_default[p_] for p_ in params if p_ in off_default}
        fn = f"gemclus.gemini.{cname}"
        for host in (LinearModel, Douglas):
            bad = None
            name = f"{host.__name__}(gemini={cname} instance): after clone / deepcopy / pickle the model's objective has the same class and the same options"
            try:
                g = cls(**kw)
                opts = {k_: copy.deepcopy(v_) for k_, v_ in vars(g).items()}
                m = host(gemini=g)
            except Exception as e:
                obs.append(Ob(name, UNDECIDED, "native-history", "P", {"why": "the probe model could not be built: " + repr(e)[:200]}, fn=fn))
                continue
            try:
                for how, cp in (("sklearn.base.clone", clone), ("copy.deepcopy", copy.deepcopy), ("pickle round trip", lambda o: pickle.loads(pickle.dumps(o)))):
                    g2 = cp(m).get_gemini()
                    diff = {k_: (repr(v_), repr(getattr(g2, k_, "<missing>"))) for k_, v_ in opts.items() if getattr(g2, k_, "<missing>") != v_}
                    if type(g2) is not type(g) or diff:
                        bad = {"copied by": how, "model": f"{host.__name__}(gemini={cname}(**{kw}))", "class after copy": type(g2).__name__,
                               "options that changed (before, after)": diff}
                        break
            except Exception as e:
                bad = {"exception": repr(e)[:300]}
            obs.append(Ob(name,
                          PROVED if bad is None else REFUTED, "native-history", "P", dict(bad or {}, replayed=bad is not None), fn=fn))
    return obs


def domain_linkage():
    """TB: every kernel/metric value accepted by an estimator's own validation builds a GEMINI (the constructor's
    precondition follows from the validated domain); fixed-GEMINI estimators resolve to the GEMINI they name."""
    from gemclus import gemini as G
    from sklearn.utils._param_validation import StrOptions
    obs = []
    for cls in estimators_all():
        pc = getattr(cls, "_parameter_constraints", {})
        for attr in ("kernel", "metric"):
            if attr not in pc or not hasattr(cls, "get_gemini"):
                continue
            fn = f"{cls.__module__}.{cls.__name__}.get_gemini"
            values = []
            for c in pc[attr]:
                if isinstance(c, StrOptions):
                    values += sorted(c.options)
                elif c is callable:
                    values.append(lambda X, Y=None: np.zeros((len(X), len(X))))
            bad = []
            for v in values:
                for ovo in (False, True):
                    m = cls(**{attr: v, "ovo": ovo})
                    try:
                        m._validate_params()
                        g = m.get_gemini()
                        ok = getattr(g, attr) is v or getattr(g, attr) == v
                        ok = ok and g.ovo is ovo
                    except Exception as e:
                        ok = False
                        bad.append({"value": v if isinstance(v, str) else "<callable>", "exception": repr(e)[:200]})
                        continue
                    if not ok:
                        bad.append({"value": v if isinstance(v, str) else "<callable>", "got": repr(getattr(g, attr))})
            obs.append(Ob(f"{cls.__name__}: every validated {attr} value ({len(values)} values x ovo) yields a GEMINI carrying exactly that {attr} and ovo",
                          PROVED if not bad else REFUTED, "enumeration", "P", {"failing": bad[:4], "replayed": True}, fn=fn))
    from gemclus.linear import RIM, KernelRIM
    from gemclus.sparse import SparseLinearMI
    for cls in (RIM, KernelRIM, SparseLinearMI):
        g = cls().get_gemini()
        obs.append(Ob(f"{cls.__name__}: uses the mutual information (KL one-vs-all)", PROVED if isinstance(g, G.KLGEMINI) and g.ovo is False else REFUTED,
                      "enumeration", "P", {"got": repr(g), "replayed": True}, fn=f"{cls.__module__}.{cls.__name__}.__init__"))
    return obs


def kauri_kernel_obligations():
    from gemclus.tree import Kauri
    fn = "gemclus.tree.kauri.Kauri._compute_kernel"
    it = fx.Interp(Kauri, inline_filter=lambda o, m: False)
    sts = it.run_method("_compute_kernel")
    obs = []
    cases = {}
    for st in sts:
        pre = none_y = None
        for c, b in st.pc:
            if c == ("cmp", ("Eq",), (A("kernel"), fx.C("precomputed"))):
                pre = b
            if c == ("cmp", ("Is",), (("var", "y"), fx.C(None))):
                none_y = b
        if pre and none_y:
            cases["precomputed without a matrix is an error"] = st.ended == "raise"
        elif pre:
            cases["precomputed -> the user's matrix"] = st.ended == "return" and st.ret == ("var", "y")
        else:
            r = st.ret if st.ended == "return" else None
            cases["named -> pairwise_kernels(X, metric=self.kernel)"] = (r is not None and r[:1] == ("callres",) and r[2] == "pairwise_kernels"
                                                                        and r[3] == (("var", "X"),) and dict(r[4]).get("metric") == A("kernel"))
    for k in ("precomputed without a matrix is an error", "precomputed -> the user's matrix", "named -> pairwise_kernels(X, metric=self.kernel)"):
        obs.append(Ob(f"Kauri._compute_kernel: {k}", PROVED if cases.get(k) else REFUTED, "fx-dataflow", "P", {"cases": {a: bool(b) for a, b in cases.items()}}, fn=fn))
    # the kernel is a function of (X, y) and of the constructor options only: nothing is cached on, or read back from, the estimator
    import inspect
    hp = set(inspect.signature(Kauri.__init__).parameters) - {"self"}
    reads = {e[2] for st in sts for e in st.events if e[0] == "read" and e[1] == SELF and not callable(getattr(Kauri, e[2], None))}
    writes = {e[2] for st in sts for e in st.events if e[0] == "store" and e[1] == SELF}
    hidden = set()
    for st in sts:
        for c, _ in st.pc:
            _self_names(c, hidden)
    state = sorted((reads | hidden) - hp)
    obs.append(Ob("Kauri._compute_kernel: stateless (writes nothing on the estimator, reads and tests only constructor options)",
                  PROVED if sts and not writes and not state else REFUTED, "fx-frame", "P", {"writes": sorted(writes), "state read": state}, fn=fn))
    return obs


def _self_names(t, acc):
    """attributes of self a term mentions, also through getattr / hasattr with a constant name"""
    if isinstance(t, tuple):
        if t[:1] == ("attr",) and len(t) == 3 and t[1] == SELF and isinstance(t[2], str):
            acc.add(t[2])
        if t[:1] == ("callres",) and len(t) >= 4 and t[2] in ("getattr", "hasattr") and t[3] and t[3][0] == SELF and len(t[3]) > 1:
            x = t[3][1]
            acc.add(str(x[1]) if isinstance(x, tuple) and len(x) > 1 else str(x))
        for x in t:
            _self_names(x, acc)
    return acc


def read_set_obligations():
    """L7: fit / score read the kernel choice only inside get_gemini (and compute_affinity of the object it returns)."""
    obs = []
    choice = {"kernel", "kernel_params", "metric", "metric_params", "ovo"}
    for cls in estimators_all():
        if cls.__name__ in ("Kauri", "KernelRIM"):
            continue
        for meth in ("fit", "score"):
            it = fx.Interp(cls, inline_filter=lambda o, m: m not in ("get_gemini",))
            try:
                sts = it.run_method(meth)
            except fx.FxUnsupported as e:
                obs.append(Ob(f"{cls.__name__}.{meth}: analysable", UNDECIDED, "fx", "P", {"why": str(e)}, fn=f"{cls.__module__}.{cls.__name__}.{meth}"))
                continue
            reads = {e[2] for s in sts for e in s.events if e[0] == "read" and e[1] == SELF}
            bad = sorted(reads & choice)
            obs.append(Ob(f"{cls.__name__}.{meth}: the kernel / metric / ovo choice is read only by get_gemini()", PROVED if not bad else REFUTED,
                          "fx-frame", "P", {"read outside get_gemini": bad}, fn=f"{cls.__module__}.{cls.__name__}.{meth}"))
    return obs


def native_equivalence(seed, tier):
    """B: a precomputed matrix equal to the named kernel / metric yields the same fitted model and score."""
    from gemclus.linear import LinearMMD, LinearWasserstein
    from gemclus.sparse import SparseLinearMMD
    from gemclus.tree import Kauri
    from sklearn.metrics import pairwise_kernels, pairwise_distances
    obs = []
    rs = np.random.RandomState(seed)
    X = rs.normal(size=(14, 3))
    cfg = [(LinearMMD, "kernel", "rbf", dict(gamma=0.5), pairwise_kernels), (LinearMMD, "kernel", "polynomial", dict(degree=2, coef0=1.0), pairwise_kernels),
           (LinearWasserstein, "metric", "manhattan", None, pairwise_distances), (SparseLinearMMD, "kernel", "laplacian", None, pairwise_kernels)]
    for cls, attr, name, params, f in cfg:
        pk = {attr + "_params": params} if params else {}
        kw = dict(n_clusters=2, max_iter=5, random_state=seed, batch_size=5)
        a = cls(**{attr: name}, **pk, **kw).fit(X)
        M = f(X, metric=name, **(params or {}))
        b = cls(**{attr: "precomputed"}, **kw).fit(X, M)
        ok = all(np.array_equal(u, v) for u, v in zip(a._get_weights(), b._get_weights())) and np.array_equal(a.labels_, b.labels_) \
            and abs(a.score(X) - b.score(X, M)) < 1e-12
        obs.append(Ob(f"{cls.__name__}: precomputed {name} matrix == naming {name} (same weights, labels, score)", PROVED if ok else REFUTED, "native", "B",
                      {"replayed": True}, fn=f"{cls.__module__}.{cls.__name__}.fit"))
    # ... and the same PATH: histories and returned weights, with several training batches and several validation blocks per epoch
    import warnings
    from gemclus.sparse import SparseMLPMMD
    for cls, name, params, extra in ((SparseLinearMMD, "rbf", dict(gamma=0.4), {}), (SparseMLPMMD, "laplacian", None, dict(n_hidden_dim=3))):
        for bs in (5, None):
            pk = {"kernel_params": params} if params else {}
            kw = dict(n_clusters=2, max_iter=4, random_state=seed, batch_size=bs, alpha=0.3, learning_rate=0.05, **extra)
            pa = dict(alpha_multiplier=1.6, min_features=1)
            try:
                with warnings.catch_warnings():
                    warnings.simplefilter("ignore")
                    ra = cls(kernel=name, **pk, **kw).path(X, **pa)
                    M = pairwise_kernels(X, metric=name, **(params or {}))
                    rb = cls(kernel="precomputed", **kw).path(X, M, **pa)
                same_hist = all(len(u) == len(v) and np.allclose(np.asarray(u, float), np.asarray(v, float), rtol=1e-12, atol=1e-12, equal_nan=True)
                                for u, v in zip(ra[1:], rb[1:]))
                same_w = all(np.array_equal(u, v) for u, v in zip(ra[0], rb[0]))
                ok, det = same_hist and same_w, {"scores named": [float(x) for x in ra[1]][:4], "scores precomputed": [float(x) for x in rb[1]][:4]}
            except Exception as e:
                ok, det = False, {"exception": repr(e)[:300]}
            obs.append(Ob(f"{cls.__name__}.path(batch_size={bs}): precomputed {name} matrix == naming {name} (same histories, same best weights)",
                          PROVED if ok else REFUTED, "native", "B", {**det, "replayed": True}, fn="gemclus.sparse._base_sparse._path"))
    a = Kauri(max_clusters=3, kernel="rbf", random_state=seed).fit(X)
    M = pairwise_kernels(X, metric="rbf")
    b = Kauri(max_clusters=3, kernel="precomputed", random_state=seed).fit(X, M)
    ok = np.array_equal(a.labels_, b.labels_) and a.tree_.thresholds == b.tree_.thresholds and abs(a.score(X) - b.score(X, M)) < 1e-12
    obs.append(Ob("Kauri: precomputed rbf matrix == naming rbf (same tree, labels, score)", PROVED if ok else REFUTED, "native", "B", {"replayed": True},
                  fn="gemclus.tree.kauri.Kauri.fit"))
    return obs
