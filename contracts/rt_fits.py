"""RT: bounded run-time contracts on real fits (B tier of C04 and C17; never counted as proved).

post-conditions of a fit on finite data with n >= n_clusters (C04): no exception; labels_ has one entry per sample in
[0, n_clusters); predict_proba rows are probability vectors of length n_clusters; predict == argmax(predict_proba)
and reproduces labels_ on the training data; score == GEMINI(predict_proba) on the given data; n_iter_ == max_iter;
optimiser_ is SGD iff solver == 'sgd'; Kauri: labels in [0, max_clusters) and a tree.
finiteness (C17): every learned parameter, probability and score is finite.
"""
import itertools
import warnings

import numpy as np

GEMINIS = ["mmd_ova", "mmd_ovo", "wasserstein_ova", "wasserstein_ovo", "kl_ova", "kl_ovo", "mi", "tv_ova", "tv_ovo",
           "hellinger_ova", "hellinger_ovo", "chi2_ova", "chi2_ovo"]


def estimators():
    from gemclus.linear import LinearModel, LinearMMD, LinearWasserstein, RIM, KernelRIM
    from gemclus.mlp import MLPModel, MLPMMD, MLPWasserstein
    from gemclus.sparse import SparseLinearModel, SparseLinearMMD, SparseLinearMI, SparseMLPModel, SparseMLPMMD
    from gemclus.nonparametric import CategoricalModel, CategoricalMMD, CategoricalWasserstein
    from gemclus.tree import Douglas, Kauri
    return dict(LinearModel=LinearModel, LinearMMD=LinearMMD, LinearWasserstein=LinearWasserstein, RIM=RIM, KernelRIM=KernelRIM,
                MLPModel=MLPModel, MLPMMD=MLPMMD, MLPWasserstein=MLPWasserstein, SparseLinearModel=SparseLinearModel,
                SparseLinearMMD=SparseLinearMMD, SparseLinearMI=SparseLinearMI, SparseMLPModel=SparseMLPModel, SparseMLPMMD=SparseMLPMMD,
                CategoricalModel=CategoricalModel, CategoricalMMD=CategoricalMMD, CategoricalWasserstein=CategoricalWasserstein,
                Douglas=Douglas, Kauri=Kauri)


def configs(name, cls, n, d, rs, tier):
    """valid configurations of one estimator (covering array: each option value appears, pairs sampled)."""
    import inspect
    params = inspect.signature(cls.__init__).parameters
    space = {}
    if "n_clusters" in params:
        space["n_clusters"] = [1, 2, 3, n] if tier == "thorough" else [1, 2, 3]
    if "gemini" in params:
        from gemclus.gemini import MMDGEMINI, WassersteinGEMINI
        space["gemini"] = GEMINIS + [None, MMDGEMINI(kernel="rbf", ovo=True), WassersteinGEMINI(metric="manhattan")]
    if "solver" in params:
        space["solver"] = ["sgd", "adam"]
    if "batch_size" in params:
        space["batch_size"] = [1, 2, n - 1, n, n + 1, None]
    if "ovo" in params:
        space["ovo"] = [False, True]
    if "kernel" in params:
        space["kernel"] = ["linear", "rbf", "sigmoid", "precomputed", "laplacian"] + (["callable"] if name != "Kauri" else [])
    if "metric" in params:
        space["metric"] = ["euclidean", "manhattan", "cosine", "precomputed", "callable"]
    if "groups" in params:
        space["groups"] = [None, [[0, 1]], [[0], [1, 2]][:1 + (d > 2)]]
    if "dynamic" in params:
        space["dynamic"] = [False, True]
    if "alpha" in params:
        space["alpha"] = [0.0, 0.01, 5.0]
    if "n_cuts" in params:
        space["n_cuts"] = [1, 2, 3]
        space["temperature"] = [0.1, 1.0]
        space["feature_mask"] = [None, np.array([True] + [False] * (d - 1)), np.array([True] * d)]
    if "n_hidden_dim" in params:
        space["n_hidden_dim"] = [1, 4]
    if "reg" in params:
        space["reg"] = [0.0, 0.1]
    if "base_kernel" in params:
        space["base_kernel"] = ["linear", "rbf"]
    if name == "Kauri":
        space.update(max_clusters=[1, 2, 3, 5], max_depth=[None, 1, 2], min_samples_split=[2, 4], min_samples_leaf=[1, 2],
                     max_features=[None, 1, d, d + 2, 3 * d + 2], max_leaves=[None, 2, 4])
    keys = sorted(space)
    m = 36 if tier == "quick" else 160
    out = []
    # each value of each option at least once, then random combinations
    for k in keys:
        for v in space[k]:
            cfg = {kk: space[kk][rs.randint(len(space[kk]))] for kk in keys}
            cfg[k] = v
            out.append(cfg)
    while len(out) < m:
        out.append({kk: space[kk][rs.randint(len(space[kk]))] for kk in keys})
    return out[:max(m, sum(len(v) for v in space.values()))]


def realise(name, cls, cfg, X, seed):
    """turn a configuration into (estimator, fit args); returns None for inconsistent combinations the validation rejects by design"""
    kw = dict(cfg)
    y = None
    n = len(X)
    if kw.get("kernel") == "callable":
        kw["kernel"] = lambda A, B=None: (A @ A.T if B is None else A @ B.T)
    if kw.get("metric") == "callable":
        kw["metric"] = lambda A: np.abs(A[:, None, :] - A[None, :, :]).sum(-1)
    if kw.get("kernel") == "precomputed":
        y = X @ X.T
    if kw.get("metric") == "precomputed":
        y = np.sqrt(((X[:, None, :] - X[None, :, :]) ** 2).sum(-1))
    if name == "Kauri":
        if kw["min_samples_leaf"] * 2 > kw["min_samples_split"]:
            kw["min_samples_split"] = 2 * kw["min_samples_leaf"]
        kw["random_state"] = seed
    else:
        kw.update(max_iter=2, random_state=seed, learning_rate=0.05)
    if kw.get("dynamic") and y is not None:
        kw["dynamic"] = False
    g = kw.get("gemini")
    if g is not None and not isinstance(g, str):
        pass
    if isinstance(g, str) and g.startswith("wasserstein") and name.startswith("Categorical") is False:
        pass
    return cls(**kw), (X, y), kw


def check_fit(name, m, args, kw):
    """returns list of violated post-conditions"""
    from sklearn.neural_network._stochastic_optimizers import SGDOptimizer, AdamOptimizer
    X, y = args
    n = len(X)
    bad = []
    with warnings.catch_warnings():
        warnings.simplefilter("ignore")
        m.fit(X, y)
        labels = m.labels_
        K = kw.get("n_clusters", kw.get("max_clusters", 3))
        if labels.shape != (n,) or labels.min() < 0 or labels.max() >= K:
            bad.append(f"labels_ not in [0,{K}) or wrong length")
        if name == "Kauri":
            if not hasattr(m, "tree_"):
                bad.append("no tree_")
            if not np.array_equal(m.predict(X), labels):
                bad.append("predict(X) != labels_")
            s = m.score(X, y)
            if not np.isfinite(s):
                bad.append("score not finite")
            return bad
        P = m.predict_proba(X)
        if P.shape != (n, K) or not np.all(np.isfinite(P)) or np.any(P < 0) or not np.allclose(P.sum(1), 1, atol=1e-9):
            bad.append("predict_proba rows are not probability vectors of length n_clusters")
        pred = m.predict(X)
        if not np.array_equal(pred, P.argmax(1)):
            bad.append("predict != argmax predict_proba")
        if not np.array_equal(pred, labels):
            bad.append("predict(X_train) != labels_")
        g = m.get_gemini()
        want = float(np.asarray(g(P, g.compute_affinity(X, y))).item())
        s = m.score(X, y)
        if not (abs(s - want) <= 1e-9 * (1 + abs(want)) or (np.isnan(s) and np.isnan(want))):
            bad.append(f"score {s} != GEMINI(predict_proba) {want}")
        if m.n_iter_ != kw.get("max_iter"):
            bad.append("n_iter_ != max_iter")
        if not isinstance(m.optimiser_, SGDOptimizer if kw.get("solver", "adam") == "sgd" else AdamOptimizer):
            bad.append("optimiser_ does not reflect solver")
        ws = m._get_weights()
        if not all(np.all(np.isfinite(w)) for w in ws) or not np.isfinite(s):
            bad.append("non-finite parameters or score")
    return bad


def lattice(seed, tier, only=None):
    """C04: covering set of valid configurations of all 18 estimators on small finite data."""
    rs = np.random.RandomState(seed)
    n, d = 9, 3
    X = rs.normal(size=(n, d))
    res = {}
    for name, cls in estimators().items():
        if only and name not in only:
            continue
        fails, nfit = [], 0
        for cfg in configs(name, cls, n, d, rs, tier):
            m, args, kw = realise(name, cls, cfg, X, seed)
            K = kw.get("n_clusters", 1)
            if K > n:
                continue
            nfit += 1
            try:
                bad = check_fit(name, m, args, kw)
            except Exception as e:
                bad = ["raised " + repr(e)[:160]]
            if bad:
                fails.append({"config": {k: (v if isinstance(v, (int, float, str, bool, type(None))) else repr(v)[:60]) for k, v in cfg.items()}, "violations": bad})
        res[name] = (nfit, fails)
    return res


def ladder(seed, tier):
    """C04 / C10 (B), size ladder: the lattice above uses 9 samples; here every estimator is fitted at larger, awkward sizes --
    a short remainder batch of a large batch size, a batch count that does not divide n, more than 256 samples, more features
    than a block of rows, more clusters -- with the same post-conditions and, in addition, the exact number of optimiser steps
    max_iter * ceil(n / batch_size)."""
    from sklearn.neural_network import _stochastic_optimizers as SO
    rs = np.random.RandomState(seed + 5)
    sizes = [(41, 4, 20), (90, 3, 25), (300, 3, None), (300, 3, 128), (33, 12, 7), (70, 5, None)]
    if tier != "quick":
        sizes += [(130, 5, 64), (600, 2, 256), (83, 6, 40)]
    res = {}
    for name, cls in estimators().items():
        import inspect
        params = inspect.signature(cls.__init__).parameters
        fails, nfit = [], 0
        for n, d, bs in sizes:
            X = rs.normal(size=(n, d)) + 3.0 * rs.randint(0, 3, size=(n, 1))
            kw = {}
            if name == "Kauri":
                kw.update(max_clusters=6, random_state=seed)
                if bs is not None:
                    continue
            else:
                kw.update(n_clusters=4, max_iter=2, random_state=seed, learning_rate=0.01)
                if "batch_size" in params:
                    kw["batch_size"] = bs
                elif bs is not None:
                    continue
            if name.endswith("Wasserstein") and n > 150:
                continue            # the exact transport solver on a few hundred samples is slow; covered at the smaller sizes
            nfit += 1
            steps = []
            orig = SO.BaseOptimizer.update_params

            def counting(self_, p, g, _o=orig):
                steps.append(1)
                return _o(self_, p, g)
            SO.BaseOptimizer.update_params = counting
            try:
                bad = check_fit(name, cls(**kw), (X, None), kw)
            except Exception as e:
                bad = ["raised " + repr(e)[:160]]
            finally:
                SO.BaseOptimizer.update_params = orig
            if name != "Kauri" and not name.startswith("Categorical") and "batch_size" in params and not bad:
                want = 2 * (-(-n // (bs or n)))
                if len(steps) != want:
                    bad.append(f"{len(steps)} optimiser steps, expected max_iter * ceil(n / batch_size) = {want}")
            if bad:
                fails.append({"n": n, "d": d, "config": {k: v for k, v in kw.items() if k != "random_state"}, "violations": bad})
        res[name] = (nfit, fails)
    return res


def degenerate(seed, tier):
    """C17: legal but awkward inputs; every learned parameter, probability and score must be finite."""
    rs = np.random.RandomState(seed)
    n, d = 10, 3
    base = rs.normal(size=(n, d))
    fams = {
        "scaled x1000": base * 1000.0, "scaled x30": base * 30.0,
        "constant column": np.column_stack([base[:, 0], np.ones(n) * 2.5, base[:, 2]]),
        "duplicated column": np.column_stack([base[:, 0], base[:, 0], base[:, 1]]),
        "duplicated samples": np.vstack([base[:5], base[:5]]),
        "all samples identical": np.ones((n, d)) * 0.5,
    }
    res = {}
    for name, cls in estimators().items():
        fails, nfit = [], 0
        for fam, X in fams.items():
            for extra in ({}, {"n_clusters": 1}, {"n_clusters": len(X)}, {"batch_size": 1}):
                import inspect
                params = inspect.signature(cls.__init__).parameters
                kw = {k: v for k, v in extra.items() if k in params}
                if extra and not kw:
                    continue
                gems = ["mmd_ova", "tv_ovo", "wasserstein_ova", "kl_ovo", "chi2_ovo"] if "gemini" in params else [None]
                if tier == "quick":
                    gems = gems[:3]
                for g in gems:
                    kk = dict(kw)
                    if g is not None:
                        kk["gemini"] = g
                    if name == "Kauri":
                        kk.update(max_clusters=3, random_state=seed)
                    else:
                        kk.update(max_iter=3, random_state=seed)
                    if "ovo" in params:
                        kk["ovo"] = True
                    nfit += 1
                    try:
                        with warnings.catch_warnings(), np.errstate(all="ignore"):
                            warnings.simplefilter("ignore")
                            m = cls(**kk).fit(X)
                            vals = [np.asarray(m.score(X), dtype=float)]
                            if name != "Kauri":
                                vals += [m.predict_proba(X)] + list(m._get_weights())
                            ok = all(np.all(np.isfinite(v)) for v in vals)
                            bad = [] if ok else ["non-finite parameter / probability / score"]
                    except Exception as e:
                        bad = ["raised " + repr(e)[:160]]
                    if bad:
                        fails.append({"family": fam, "config": {k: v for k, v in kk.items() if k != "random_state"}, "violations": bad})
        # as many clusters as samples, more than 64 of them (K*K beyond 4096 entries per sample in the one-vs-one tensors)
        if name in ("LinearModel", "MLPModel", "CategoricalModel"):
            Xm = rs.normal(size=(70, 2))
            for g in ("tv_ovo", "kl_ovo", "hellinger_ovo", "chi2_ovo", "mmd_ovo"):
                nfit += 1
                try:
                    with warnings.catch_warnings(), np.errstate(all="ignore"):
                        warnings.simplefilter("ignore")
                        m = cls(n_clusters=70, gemini=g, max_iter=2, random_state=seed).fit(Xm)
                        vals = [np.asarray(m.score(Xm), dtype=float), m.predict_proba(Xm)] + list(m._get_weights())
                        bad = [] if all(np.all(np.isfinite(v)) for v in vals) else ["non-finite parameter / probability / score"]
                except Exception as e:
                    bad = ["raised " + repr(e)[:160]]
                if bad:
                    fails.append({"family": "70 samples, 70 clusters", "config": {"gemini": g, "n_clusters": 70}, "violations": bad})
        res[name] = (nfit, fails)
    return res


def int_data(seed):
    """C04 (B): integer-typed finite data is legal; it must give the same model as its float copy (no silent truncation)"""
    rs = np.random.RandomState(seed)
    n, d = 12, 3
    Xi = rs.randint(-6, 7, size=(n, d))
    res = {}
    for name, cls in estimators().items():
        kw = dict(max_clusters=3, random_state=seed) if name == "Kauri" else dict(n_clusters=2, max_iter=3, random_state=seed)
        try:
            with warnings.catch_warnings():
                warnings.simplefilter("ignore")
                a = cls(**kw).fit(Xi)
                b = cls(**kw).fit(Xi.astype(float))
                ok = np.array_equal(a.labels_, b.labels_)
                if name != "Kauri":
                    ok = ok and all(np.allclose(u, v, rtol=1e-10, atol=1e-12) for u, v in zip(a._get_weights(), b._get_weights()))
                    ok = ok and np.allclose(a.predict_proba(Xi), b.predict_proba(Xi.astype(float)), rtol=1e-10, atol=1e-12)
                det = {} if ok else {"X": Xi.tolist(), "labels int": a.labels_.tolist(), "labels float": b.labels_.tolist()}
        except Exception as e:
            ok, det = False, {"raised": repr(e)[:200], "X": Xi.tolist()}
        res[name] = (ok, det)
    return res


def offset_data(seed):
    """C04 (B): finite data of large range (two groups of samples 1e5 units apart, un-centred) is valid data: fit must still
    leave a coherent model (probability rows, finite score)"""
    rs = np.random.RandomState(seed)
    n, d = 16, 3
    X = rs.normal(size=(n, d))
    X[n // 2:] += 1.0e5
    res = {}
    for name, cls in estimators().items():
        fails = []
        for extra in ({}, {"batch_size": 5}):
            import inspect
            params = inspect.signature(cls.__init__).parameters
            kw = {k: v for k, v in extra.items() if k in params}
            if extra and not kw:
                continue
            if name == "Kauri":
                kw.update(max_clusters=3, random_state=seed)
            else:
                kw.update(n_clusters=2, max_iter=2, random_state=seed)
            try:
                bad = check_fit(name, cls(**kw), (X, None), kw)
            except Exception as e:
                bad = ["raised " + repr(e)[:160]]
            if bad:
                fails.append({"config": {k: v for k, v in kw.items() if k != "random_state"}, "violations": bad})
        res[name] = fails
    return res


def mlcl_degenerate(seed):
    """C17 (B): must-link / cannot-link decoration on degenerate constrained pairs -- duplicated samples declared must-link (their
    predictions are identical: the pairwise term is exactly 0), pairs whose predictions saturate to the same one-hot row on badly
    scaled data -- must leave finite parameters, probabilities and scores"""
    import gemclus
    from gemclus.linear import LinearMMD, LinearModel
    from gemclus.mlp import MLPMMD
    rs = np.random.RandomState(seed)
    base = rs.normal(size=(14, 3))
    base[1] = base[0]
    base[5] = base[4]
    res = {}
    for name, mk in (("LinearMMD", lambda: LinearMMD(n_clusters=3, max_iter=4, random_state=seed)),
                     ("LinearModel(mi,batch 5)", lambda: LinearModel(n_clusters=3, max_iter=4, random_state=seed, gemini="mi", batch_size=5)),
                     ("MLPMMD", lambda: MLPMMD(n_clusters=2, max_iter=3, random_state=seed, n_hidden_dim=4))):
        fails = []
        for fam, X in (("duplicated samples", base), ("duplicated samples x1000", base * 1000.0)):
            for ml, cl in (([(0, 1)], [(2, 3)]), ([(0, 1), (4, 5)], None), (None, [(0, 1)])):
                try:
                    with warnings.catch_warnings(), np.errstate(all="ignore"):
                        warnings.simplefilter("ignore")
                        m = gemclus.add_mlcl_constraint(mk(), must_link=ml, cannot_link=cl)
                        m.fit(X)
                        vals = [np.asarray(m.score(X), dtype=float), m.predict_proba(X)] + list(m._get_weights())
                        ok = all(np.all(np.isfinite(v)) for v in vals)
                        bad = [] if ok else ["non-finite parameter / probability / score"]
                except Exception as e:
                    bad = ["raised " + repr(e)[:160]]
                if bad:
                    fails.append({"family": fam, "must_link": ml, "cannot_link": cl, "violations": bad})
        res[name] = fails
    return res
