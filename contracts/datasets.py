"""Contracts on the synthetic data generators (property C20) with a ghost random generator (engine/ghost_rng.py).

"Within sampling error" is replaced by an exact statement about which distribution every returned entry is drawn
from: the real generator is run with the ghost RandomState; the returned X is an array of symbolic expressions
over tagged primitive draws, and the recorded sampler calls carry the distribution parameters.
"""
import itertools

import numpy as np

from .common import *  # noqa
from engine.ghost_rng import GhostRandomState
from specs import datasets as spec
import gemclus.data.synthetic_data as SD


def _is_sym(x, name):
    return isinstance(x, sx.Sx) and x.n.op == "v" and x.n.args[0] == name


class DrawGmm(SxContract):
    fn = "gemclus.data.synthetic_data.draw_gmm"
    safety = False

    def __init__(self, d, labels, K):
        self.d, self.labels, self.K = d, tuple(labels), K
        self.label = f"draw_gmm[d={d},K={K},labels={list(labels)}]"

    def build(self, ctx):
        self.ctx = ctx
        K, d = self.K, self.d
        rs = np.random.RandomState(5)
        self.loc = np.round(rs.normal(size=(K, d)) * 3, 1)
        if d == 1:
            self.scale = np.array([4.0, 9.0, 0.25][:K])           # documented as (co)variances
        else:
            self.scale = np.array([np.diag(np.arange(1, d + 1) * (k + 1.0)) + 0.5 * (k % 2) * (np.ones((d, d)) - np.eye(d)) for k in range(K)])
        self.pvals = np.array([0.5, 0.25, 0.25][:K]) if K == 3 else np.array([0.5, 0.5])
        return {}

    def body(self, inp):
        g = GhostRandomState(self.ctx, labels=self.labels)
        X, y = SD.draw_gmm(len(self.labels), self.loc, self.scale if self.d > 1 else self.scale.reshape(-1, 1), self.pvals, g)
        return {"X": X, "y": y, "calls": g.calls, "law": g.law}

    def ensures(self, inp, out):
        n, d, K = len(self.labels), self.d, self.K
        X, y, calls = out["X"], out["y"], out["calls"]
        yield "shape (n, d) and labels returned as drawn, in range", prove.holds(
            getattr(X, "shape", None) == (n, d) and list(y) == list(self.labels) and all(0 <= int(v) < K for v in y))
        ch = [c for c in calls if c[0] == "choice"]
        yield "components drawn once by choice(K, p=pvals, size=(n,))", prove.holds(
            len(ch) == 1 and ch[0][1] == K and np.allclose(ch[0][2], self.pvals) and tuple(np.atleast_1d(ch[0][3])) == (n,))
        comp_calls = [c for c in calls if c[0] in ("normal", "multivariate_normal")]
        yield "one sampler call per component", prove.holds(len(comp_calls) == K)
        if len(comp_calls) != K:
            return
        for k, c in enumerate(comp_calls):
            if d > 1:
                yield f"component {k}: drawn from N(loc[{k}], scale[{k}])", prove.holds(
                    c[0] == "multivariate_normal" and np.array_equal(c[1], self.loc[k]) and np.array_equal(c[2], self.scale[k]))
            else:
                # value = loc + s * xi with xi ~ N(0,1): mean loc, variance s^2 must be the documented variance scale[k]
                v = c[4][0]
                xi = [nm for nm in dag.variables(sx.lift(v))]
                coeff = dag.diff(sx.lift(v), xi[0], {}) if xi else dag.ZERO
                mean = dag.substitute(sx.lift(v), {xi[0]: dag.ZERO}) if xi else sx.lift(v)
                yield f"component {k}: mean is loc[{k}]", prove.eq(mean, float(self.loc[k, 0]))
                yield f"component {k}: variance is the documented scale[{k}]", prove.eq(dag.mul(coeff, coeff), float(self.scale[k]))
        for i in range(n):
            k = int(self.labels[i])
            src = comp_calls[k][4]
            for j in range(d):
                want = src[i, j] if d > 1 else src[i]
                yield f"row {i} is the {i}-th draw of the component named by its label [{j}]", prove.eq(X[i, j], want)


def _gmm_native(self, env, inp):
    """float replay on the real generator: same seed, same stream -> the documented construction (choice of the components,
    then one Gaussian sampler call per component in order, row i taken from the draws of component y[i]) reproduced with
    NumPy's RandomState must give the same array -- for float parameters and for integer-typed arrays / plain lists"""
    K, d = self.K, self.d
    n = max(len(self.labels), 40)
    scale = self.scale if d > 1 else self.scale.reshape(-1, 1)
    # integer-valued covariances: diagonal 1..d times (k+1) (variances 1, 2, 3 for d == 1), all positive definite
    iscale = (np.array([np.diag(np.arange(1, d + 1) * (k + 1)) for k in range(K)]) if d > 1 else np.arange(1, K + 1).reshape(-1, 1)).astype(int)
    variants = {"float arrays": (self.loc, scale),
                "integer arrays": (np.round(self.loc).astype(int), iscale),
                "lists of ints": (np.round(self.loc).astype(int).tolist(), iscale.tolist())}
    bad = None
    for vname, (loc, sc) in variants.items():
        for seed in (0, 1):
            # an integer seed and a generator instance started from it denote the same stream
            X, y = SD.draw_gmm(n, loc, sc, self.pvals, seed if vname == "float arrays" else np.random.RandomState(seed))
            rs = np.random.RandomState(seed)
            locf, scf = np.asarray(loc, dtype=float), np.asarray(sc, dtype=float)
            yr = rs.choice(K, p=self.pvals, size=(n,))
            draws = [rs.multivariate_normal(locf[k], scf[k], size=n) if d > 1 else rs.normal(locf[k, 0], np.sqrt(scf[k, 0]), size=(n,)).reshape(-1, 1)
                     for k in range(K)]
            Xr = np.array([draws[yr[i]][i] for i in range(n)])
            ok = np.array_equal(np.asarray(y), yr) and np.shape(X) == (n, d) and np.allclose(np.asarray(X, dtype=float), Xr, rtol=1e-12, atol=1e-12)
            if not ok and bad is None:
                bad = {"parameters": vname, "seed": seed, "loc": np.asarray(loc).tolist(), "scale": np.asarray(sc).tolist(),
                       "X[:3]": np.asarray(X)[:3].tolist(), "reference[:3]": Xr[:3].tolist(), "dtype": str(np.asarray(X).dtype)}
    return {"*": (bad is None, bad or {"variants": list(variants)})}


DrawGmm.native = _gmm_native


class StudentT(SxContract):
    fn = "gemclus.data.synthetic_data.multivariate_student_t"
    safety = True

    def __init__(self, n, d):
        self.n, self.d = n, d
        self.label = f"multivariate_student_t[n={n},d={d}]"

    def build(self, ctx):
        self.ctx = ctx
        self.loc = np.array([1.5, -2.0, 0.5][:self.d])
        self.scale = np.diag([1.0, 2.0, 0.5][:self.d]) + 0.25 * (np.ones((self.d, self.d)) - np.eye(self.d))
        self.df = 3
        return {}

    def body(self, inp):
        g = GhostRandomState(self.ctx)
        X = SD.multivariate_student_t(self.n, self.loc, self.scale, self.df, g)
        return {"X": X, "calls": g.calls}

    def ensures(self, inp, out):
        X, calls = out["X"], out["calls"]
        n, d = self.n, self.d
        yield "shape (n, d)", prove.holds(getattr(X, "shape", None) == (n, d))
        mv = [c for c in calls if c[0] == "multivariate_normal"]
        ch = [c for c in calls if c[0] == "chisquare"]
        ok = len(mv) == 1 and len(ch) == 1 and np.array_equal(mv[0][1], np.zeros(d)) and np.array_equal(mv[0][2], self.scale) \
            and mv[0][3] == (n,) and ch[0][1] == self.df and ch[0][3] == (n,)
        yield "draws: nx ~ N(0, scale) (n vectors) and u ~ chi2(df) (n scalars)", prove.holds(ok)
        if not ok:
            return
        nx, u = mv[0][4], ch[0][4]
        for i in range(n):
            for j in range(d):
                dev = X[i, j] - float(self.loc[j])
                yield f"(X[{i},{j}] - loc)^2 * u[{i}] / df == nx[{i},{j}]^2  (normal / sqrt(chi2/df) construction)", prove.eq(dev * dev * u[i] / self.df, nx[i, j] * nx[i, j])
                yield f"X[{i},{j}] - loc has the sign of nx[{i},{j}]", prove.eq(dev * nx[i, j] * u[i], nx[i, j] * nx[i, j] * (u[i] * (sx.Sx(dag.const(self.df)) / u[i]).sqrt()))


class Composite(SxContract):
    """gstm, celeux_one, celeux_two: the calls they make on the generator and the affine structure of X."""
    safety = False

    def __init__(self, which, n, labels, perm=None):
        self.which, self.n, self.labels, self.perm = which, n, tuple(labels), perm
        self.fn = f"gemclus.data.synthetic_data.{which}"
        self.label = f"{which}[n={n},labels={list(labels)},perm={perm}]"

    def build(self, ctx):
        self.ctx = ctx
        return {}

    def body(self, inp):
        g = GhostRandomState(self.ctx, labels=self.labels, perm=self.perm)
        if self.which == "gstm":
            r = SD.gstm(n=self.n, alpha=2.5, df=2, random_state=g)
        elif self.which == "celeux_one":
            r = SD.celeux_one(n=self.n, p=2, mu=1.7, random_state=g)
        else:
            r = SD.celeux_two(n=self.n, random_state=g)
        return {"X": r[0], "y": r[1], "calls": g.calls}

    def ensures(self, inp, out):
        X, y, calls = out["X"], out["y"], out["calls"]
        n = self.n
        mvn = [c for c in calls if c[0] == "multivariate_normal"]
        ch = [c for c in calls if c[0] == "choice"]
        if self.which == "gstm":
            ng = 3 * n // 4
            locs = spec.gstm(2.5)
            yield "shape (n, 2), labels in 0..3", prove.holds(X.shape == (n, 2) and len(y) == n and all(0 <= int(v) <= 3 for v in y))
            yield "3n//4 Gaussian samples with proportions 1/3 each", prove.holds(
                len(ch) == 1 and ch[0][1] == 3 and np.allclose(ch[0][2], np.ones(3) / 3) and tuple(np.atleast_1d(ch[0][3])) == (ng,))
            ok = len(mvn) == 4 and all(np.allclose(mvn[k][1], locs[k]) and np.array_equal(mvn[k][2], np.eye(2)) for k in range(3)) \
                and np.array_equal(mvn[3][1], np.zeros(2)) and np.array_equal(mvn[3][2], np.eye(2)) and mvn[3][3] == (n - ng,)
            yield "Gaussian components N(alpha*(+-1,+-1), I), Student component built from N(0, I) and chi2(df)", prove.holds(ok)
            cs = [c for c in calls if c[0] == "chisquare"]
            yield "Student-t degrees of freedom as given", prove.holds(len(cs) == 1 and cs[0][1] == 2 and cs[0][3] == (n - ng,))
            perm = list(self.perm)
            stacked_y = list(self.labels) + [3] * (n - ng)
            yield "labels permuted with the samples", prove.holds([int(v) for v in y] == [stacked_y[p] for p in perm])
            if ok and len(cs) == 1:
                for r in range(n):
                    src = perm[r]
                    for j in range(2):
                        if src < ng:
                            yield f"row {r} is Gaussian draw {src} of component {stacked_y[src]} [{j}]", prove.eq(X[r, j], mvn[stacked_y[src]][4][src, j])
                        else:
                            i = src - ng
                            dev = X[r, j] - float(locs[3][j])
                            yield f"row {r} is Student draw {i} located at alpha*(-1,-1) [{j}]", prove.eq(dev * dev * cs[0][4][i] / 2, mvn[3][4][i, j] * mvn[3][4][i, j])
        elif self.which == "celeux_one":
            mus = spec.celeux_one(1.7)
            yield "shape (n, 5+p)", prove.holds(X.shape == (n, 7) and [int(v) for v in y] == list(self.labels))
            yield "3 equiprobable components", prove.holds(len(ch) == 1 and ch[0][1] == 3 and np.allclose(ch[0][2], np.ones(3) / 3))
            ok = len(mvn) == 3 and all(np.allclose(mvn[k][1], mus[k]) and np.array_equal(mvn[k][2], np.eye(5)) for k in range(3))
            yield "informative variables ~ N(mu*1 / -mu*1 / 0, I_5)", prove.holds(ok)
            nm = [c for c in calls if c[0] == "normal"]
            okn = len(nm) == 1 and nm[0][3] == (n, 2) and float(nm[0][1]) == 0.0 and float(nm[0][2]) == 1.0
            yield "p noise variables ~ N(0,1), independent of the label (fresh draws)", prove.holds(okn)
            if ok and okn:
                for i in range(n):
                    for j in range(5):
                        yield f"X[{i},{j}] is draw {i} of component y[{i}]", prove.eq(X[i, j], mvn[int(self.labels[i])][4][i, j])
                    for j in range(2):
                        yield f"X[{i},{5 + j}] is the noise draw", prove.eq(X[i, 5 + j], nm[0][4][i, j])
        else:
            means, b, offsets, om, m_last = spec.celeux_two()
            yield "shape (n, 14)", prove.holds(X.shape == (n, 14) and [int(v) for v in y] == list(self.labels))
            yield "4 equiprobable components", prove.holds(len(ch) == 1 and ch[0][1] == 4 and np.allclose(ch[0][2], np.ones(4) / 4))
            ok = len(mvn) == 6 and all(np.allclose(mvn[k][1], means[k]) and np.array_equal(mvn[k][2], np.eye(2)) for k in range(4))
            yield "informative variables ~ N((0,0),(4,0),(0,2),(4,2); I_2)", prove.holds(ok)
            ok2 = len(mvn) == 6 and np.array_equal(mvn[4][1], np.zeros(9)) and np.allclose(mvn[4][2], om, atol=1e-12) and mvn[4][3] == (n,)
            yield "regression noise ~ N(0, blockdiag(I_3, 0.5 I_2, R(pi/3)^T diag(1,3) R(pi/3), R(pi/6)^T diag(2,6) R(pi/6)))", prove.holds(ok2)
            ok3 = len(mvn) == 6 and np.allclose(mvn[5][1], m_last) and np.array_equal(mvn[5][2], np.eye(3)) and mvn[5][3] == (n,)
            yield "last three variables ~ N((3.2, 3.6, 4), I_3), independent of the label", prove.holds(ok3)
            if ok and ok2 and ok3:
                for i in range(n):
                    good = [mvn[int(self.labels[i])][4][i, l] for l in range(2)]
                    for l in range(2):
                        yield f"X[{i},{l}] is draw {i} of component y[{i}]", prove.eq(X[i, l], good[l])
                    for j in range(9):
                        want = float(offsets[j]) + good[0] * float(b[0, j]) + good[1] * float(b[1, j]) + mvn[4][4][i, j]
                        yield f"X[{i},{2 + j}] = offset + X_1:2 . b + noise", prove.eq(X[i, 2 + j], want)
                    for j in range(3):
                        yield f"X[{i},{11 + j}] is the independent noise draw", prove.eq(X[i, 11 + j], mvn[5][4][i, j])


def task(tier, seed=0):
    obs = []

    def run(c):
        obs.extend(o for o in run_sx(c, seed=seed) if "paths-explored" not in o.name)
    n = 3 if tier == "quick" else 4
    for d in (1, 2, 3):
        for K in (2, 3):
            labs = list(itertools.product(range(K), repeat=n))
            if tier == "quick":
                labs = labs[::3]
            for lab in labs:
                run(DrawGmm(d, lab, K))
    for nn, d in ((2, 1), (2, 2), (3, 3)):
        run(StudentT(nn, d))
    for lab in itertools.product(range(3), repeat=3):
        if tier == "quick" and sum(lab) % 2:
            continue
        for perm in ([0, 1, 2, 3], [3, 0, 2, 1], [1, 3, 0, 2]):
            run(Composite("gstm", 4, lab, perm))
        run(Composite("celeux_one", 3, lab))
    for lab in itertools.product(range(4), repeat=2):
        run(Composite("celeux_two", 2, lab))
    return obs


def flow_obligations():
    """FX: every generator draws only from check_random_state(random_state) (identical output for identical seeds)."""
    from engine import fx
    obs = []
    for name in ("draw_gmm", "multivariate_student_t", "gstm", "celeux_one", "celeux_two"):
        f = getattr(SD, name)
        fn = f"gemclus.data.synthetic_data.{name}"
        it = fx.Interp(None)
        try:
            sts = it.run_function(f)
        except fx.FxUnsupported as e:
            obs.append(Ob(f"{name}: analysable", UNDECIDED, "fx", "P", {"why": str(e)}, fn=fn))
            continue
        bad, draws, glob = [], 0, []
        root = lambda t: isinstance(t, tuple) and t[:1] == ("callres",) and t[2] == "check_random_state" and t[3] == (("var", "random_state"),)
        from .repro import _derives_from, DRAWS
        for st in sts:
            for e in st.events:
                if e[0] != "call":
                    continue
                if e[2].startswith("np.random.") or e[2].startswith("random."):
                    glob.append(e[2])
                last = e[2].rsplit(".", 1)[-1]
                if last in DRAWS and "." in e[2]:
                    draws += 1
                    recv = e[6][1] if isinstance(e[6], tuple) and e[6][0] == "attr" else None
                    if recv is None or not _derives_from(recv, root):
                        bad.append(e[2])
                if e[2] in ("draw_gmm", "multivariate_student_t"):
                    draws += 1
                    gen = dict(e[4]).get("random_state", e[3][-1] if e[3] else None)      # last positional argument or the keyword
                    if gen is None or not _derives_from(gen, root):
                        bad.append(e[2] + " receives " + fx.show(gen)[:60])
        obs.append(Ob(f"{name}: every draw comes from check_random_state(random_state); no global random state", PROVED if draws and not bad and not glob else REFUTED,
                      "fx-dataflow", "P", {"draws": draws, "bad": sorted(set(bad)), "global": glob}, fn=fn))
        # ONE generator per call: the raw random_state argument is turned into a generator exactly once and given to nothing else
        # (a helper that re-seeds from the same integer makes the label stream and the sample stream identical, i.e. dependent)
        RS = ("var", "random_state")
        n_roots = [sum(1 for e in st.events if e[0] == "call" and e[2] == "check_random_state") for st in sts if st.ended != "raise"]
        leaks = sorted({e[2] for st in sts for e in st.events if e[0] == "call" and e[2] != "check_random_state"
                        and (RS in e[3] or RS in [v for _, v in e[4]])})
        obs.append(Ob(f"{name}: one generator per call (check_random_state(random_state) once; the raw argument goes nowhere else)",
                      PROVED if n_roots and all(c == 1 for c in n_roots) and not leaks else REFUTED, "fx-dataflow", "P",
                      {"check_random_state calls per path": n_roots, "raw random_state passed to": leaks}, fn=fn))
    return obs


def native_streams():
    """B: the real draw_gmm replayed against the documented construction on NumPy's own stream, float / integer-typed / list parameters"""
    obs = []
    for d, K, lab in ((1, 2, [0, 1, 1]), (1, 3, [0, 2, 1]), (2, 2, [1, 0, 0]), (2, 3, [0, 2, 0]), (3, 2, [0, 1, 1])):
        c = DrawGmm(d, lab, K)
        c.build(None)
        try:
            ok, det = c.native({}, {})["*"]
        except Exception as e:
            ok, det = False, {"exception": repr(e)}
        det = dict(det, replayed=not ok)
        obs.append(Ob(f"draw_gmm[d={d},K={K}]: same stream as the documented construction for float, integer-typed and list parameters (40 samples x 2 seeds)",
                      PROVED if ok else REFUTED, "native", "B", det, fn=DrawGmm.fn))
    return obs


def native_int_float():
    """B: integer-typed parameters denote the same distribution as their float copies (same seed -> same samples)"""
    obs = []
    cases = [("multivariate_student_t", lambda f: SD.multivariate_student_t(30, f([1, -2]), f([[2, 1], [1, 3]]), 3, 7)),
             ("multivariate_student_t (lists)", lambda f: SD.multivariate_student_t(30, f([1, -2]).tolist(), f([[2, 1], [1, 3]]).tolist(), 3, 7)),
             ("gstm", lambda f: SD.gstm(40, f(2).item(), 3, 7)),
             ("celeux_one", lambda f: SD.celeux_one(30, 2, f(2).item(), 7)),
             ("draw_gmm", lambda f: SD.draw_gmm(30, f([[0, 0], [6, -6]]), f([[[1, 0], [0, 4]], [[2, 1], [1, 2]]]), [0.5, 0.5], 7))]
    for name, call in cases:
        try:
            a = call(lambda v: np.asarray(v, dtype=int))
            b = call(lambda v: np.asarray(v, dtype=float))
            A = a[0] if isinstance(a, tuple) else a
            Bv = b[0] if isinstance(b, tuple) else b
            ok = np.shape(A) == np.shape(Bv) and np.allclose(np.asarray(A, dtype=float), np.asarray(Bv, dtype=float), rtol=1e-12, atol=1e-12)
            det = {"dtype with integer parameters": str(np.asarray(A).dtype), "first rows": [np.asarray(A)[:2].tolist(), np.asarray(Bv)[:2].tolist()], "replayed": not ok}
        except Exception as e:
            ok, det = False, {"exception": repr(e), "replayed": True}
        obs.append(Ob(f"{name}: integer-typed parameters give the same samples as their float copies (seed 7)", PROVED if ok else REFUTED, "native", "B", det,
                      fn="gemclus.data.synthetic_data." + name.split(" ")[0]))
    return obs


def bounded_moments(seed, tier):
    """B: empirical moments of large samples within 6-sigma bands of the documented parameters; seed determinism."""
    obs = []
    N = 60000 if tier == "quick" else 200000

    def ob(name, ok, det, fn):
        obs.append(Ob(name, PROVED if ok else REFUTED, "native-sampling", "B", dict(det, replayed=True), fn=fn))

    def close(a, b, tol):
        return bool(np.all(np.abs(np.asarray(a) - np.asarray(b)) <= tol))
    loc = np.array([[0., 0.], [3., -1.]])
    sc = np.array([[[2., 0.5], [0.5, 1.]], [[1., -0.3], [-0.3, 0.5]]])
    X, y = SD.draw_gmm(N, loc, sc, [0.3, 0.7], seed)
    ok = close(np.bincount(y) / N, [0.3, 0.7], 6 * 0.5 / np.sqrt(N))
    for k in range(2):
        ok &= close(X[y == k].mean(0), loc[k], 6 * 1.5 / np.sqrt(0.3 * N)) and close(np.cov(X[y == k].T), sc[k], 0.08)
    ob("draw_gmm d=2: proportions, component means and covariances", ok, {"N": N}, "gemclus.data.draw_gmm")
    X, y = SD.draw_gmm(N, [[0.], [5.]], [[4.], [0.25]], [0.5, 0.5], seed)
    ok = close([X[y == 0].var(), X[y == 1].var()], [4., 0.25], [0.2, 0.02]) and close([X[y == 0].mean(), X[y == 1].mean()], [0, 5], 0.08)
    ob("draw_gmm d=1: component variances are the documented ones", ok, {"var": [float(X[y == 0].var()), float(X[y == 1].var())]}, "gemclus.data.draw_gmm")
    T = SD.multivariate_student_t(N, [1., -2.], np.array([[2., 0.3], [0.3, 1.]]), df=5, random_state=seed)
    ok = close(np.median(T, 0), [1., -2.], 0.05) and close(np.cov(T.T), np.array([[2., 0.3], [0.3, 1.]]) * 5 / 3, 0.25)
    ob("multivariate_student_t: location and covariance scale*df/(df-2)", ok, {}, "gemclus.data.multivariate_student_t")
    X, y = SD.gstm(N, alpha=3, df=3, random_state=seed)
    locs = spec.gstm(3)
    ok = X.shape == (N, 2) and close(np.bincount(y.astype(int)) / N, [0.25] * 4, 0.02)
    for k in range(4):
        ok &= close(np.median(X[y == k], 0), locs[k], 0.08)
    ob("gstm: four components located at alpha*(+-1,+-1), a quarter of the samples each", ok, {}, "gemclus.data.gstm")
    X, y = SD.celeux_one(N, p=3, mu=1.7, random_state=seed)
    mus = spec.celeux_one(1.7)
    ok = X.shape == (N, 8)
    for k in range(3):
        ok &= close(X[y == k][:, :5].mean(0), mus[k], 0.06) and close(np.cov(X[y == k][:, :5].T), np.eye(5), 0.08) and close(X[y == k][:, 5:].mean(0), 0, 0.06)
    ob("celeux_one: component means +-mu / 0, identity covariance, noise independent of the label", ok, {}, "gemclus.data.celeux_one")
    X, y = SD.celeux_two(N, random_state=seed)
    means, b, off, om, ml = spec.celeux_two()
    ok = X.shape == (N, 14)
    for k in range(4):
        ok &= close(X[y == k][:, :2].mean(0), means[k], 0.06)
    resid = X[:, 2:11] - off - X[:, :2] @ b
    ok &= close(resid.mean(0), 0, 0.06) and close(np.cov(resid.T), om, 0.12) and close(X[:, 11:].mean(0), ml, 0.05) and close(np.cov(X[:, 11:].T), np.eye(3), 0.06)
    ob("celeux_two: component means, regression coefficients / offsets, noise covariance blocks, independent last variables", ok, {}, "gemclus.data.celeux_two")
    same = all(np.array_equal(a, b_) for f, kw in ((SD.gstm, dict(n=40)), (SD.celeux_one, dict(n=30)), (SD.celeux_two, dict(n=30)))
               for a, b_ in zip(f(random_state=seed + 3, **kw), f(random_state=seed + 3, **kw)))
    ob("identical integer seeds give identical output", same, {}, "gemclus.data")
    return obs
