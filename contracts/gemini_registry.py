"""TB: complete finite table for the GEMINI registry (C01) -- decided by enumeration on the real code."""
from .common import *  # noqa
from specs import gemini as spec


def obligations():
    import gemclus.gemini as G
    from gemclus.gemini import _utils as U
    from gemclus.gemini._base_loss import _GEMINI
    fn = "gemclus.gemini._utils._str_to_gemini"
    obs = []
    avail = list(G.AVAILABLE_GEMINIS)
    obs.append(Ob("registry:AVAILABLE_GEMINIS==documented 13 names",
                  PROVED if sorted(avail) == sorted(spec.REGISTRY) and len(avail) == len(set(avail)) else REFUTED,
                  "enumeration", "P", {"got": avail, "replayed": True}, fn=fn))
    for name, (cls, ovo) in sorted(spec.REGISTRY.items()):
        try:
            g = U._str_to_gemini(name)
            ok = (type(g).__mro__[0].__name__ in (cls, "MI" if cls == "KLGEMINI" and not ovo else cls)
                  and isinstance(g, getattr(G, cls)) and bool(g.ovo) == ovo)
            det = {"name": name, "got": f"{type(g).__name__}(ovo={getattr(g, 'ovo', None)})", "want": f"{cls}(ovo={ovo})",
                   "replayed": True}
            # defaults: epsilon 1e-12, linear kernel / euclidean metric, no params
            if cls == "MMDGEMINI":
                ok = ok and g.kernel == "linear" and g.kernel_params is None
            if cls == "WassersteinGEMINI":
                ok = ok and g.metric == "euclidean" and g.metric_params is None
            ok = ok and g.epsilon == 1e-12
        except Exception as e:
            ok, det = False, {"name": name, "exception": repr(e), "replayed": True}
        obs.append(Ob(f"registry[{name}]->{cls}(ovo={ovo})", PROVED if ok else REFUTED, "enumeration", "P", det, fn=fn))
    # a name denotes a FRESH objective at every resolution: two models built from the same name never share a (mutable) object,
    # so what one caller does to its objective cannot change what the name means for the next one
    shared = [n for n in sorted(spec.REGISTRY) if U._str_to_gemini(n) is U._str_to_gemini(n)]
    obs.append(Ob("registry: every resolution of a name returns a new object (no shared / memoised instance)",
                  PROVED if not shared else REFUTED, "enumeration", "P", {"names resolved to a shared object": shared, "replayed": bool(shared)}, fn=fn))
    # unknown names are rejected
    try:
        U._str_to_gemini("not_a_gemini")
        ok = False
    except ValueError:
        ok = True
    obs.append(Ob("registry[unknown name] raises ValueError", PROVED if ok else REFUTED, "enumeration", "P",
                  {"replayed": True}, fn=fn))
    # every class x ovo flag constructs and stores the flag; __call__ forwards to evaluate
    for cls in ("KLGEMINI", "TVGEMINI", "HellingerGEMINI", "ChiSquareGEMINI", "MMDGEMINI", "WassersteinGEMINI"):
        for ovo in (False, True):
            fn_call = "gemclus.gemini._base_loss._GEMINI.__call__"
            name = f"{cls}(ovo={ovo}).__call__ forwards (y_pred, affinity, return_grad) to evaluate"
            # (a) with evaluate replaced by a recorder: __call__ hands its own three arguments over and returns the answer, at every
            #     probed shape -- one sample, one cluster, more clusters than samples included
            forwards, seen_bad = True, None
            rs = np.random.RandomState(5)
            probes = []
            for n, K in ((1, 3), (1, 1), (2, 2), (3, 1), (2, 5), (6, 3)):
                P = rs.dirichlet(np.ones(K), size=n)
                Xp = rs.normal(size=(n, 2))
                A = Xp @ Xp.T if cls == "MMDGEMINI" else np.sqrt(((Xp[:, None] - Xp[None]) ** 2).sum(-1))
                probes.append((P, A))
            for P, A in probes:
                g = getattr(G, cls)(ovo=ovo)
                seen = []
                g.evaluate = lambda y, a, return_grad=False, _s=seen: _s.append((y, a, return_grad)) or "R"
                try:
                    r1 = g(P, A)
                    r2 = g(P, A, return_grad=True)
                    same = (g.ovo is ovo and r1 == "R" and r2 == "R" and len(seen) == 2 and all(c[0] is P and c[1] is A for c in seen)
                            and [c[2] for c in seen] == [False, True])
                except Exception as e:
                    same, seen = False, [repr(e)]
                if not same:
                    forwards, seen_bad = False, {"shape": list(P.shape), "seen": repr(seen)[:300]}
                    break
            if forwards:
                obs.append(Ob(name, PROVED, "enumeration", "P", {"probed shapes": [list(P.shape) for P, _ in probes], "replayed": True}, fn=fn_call))
                continue
            # (b) __call__ does something of its own: it may still be right. It is wrong if it disagrees, on the real code, with
            #     evaluate (whose value is the one the contracts above tie to the definition) on the same arguments
            bad = None
            for P, A in probes:
                g = getattr(G, cls)(ovo=ovo)
                try:
                    with np.errstate(all="ignore"):
                        e0 = g.evaluate(P.copy(), A.copy())
                        e1, eg = g.evaluate(P.copy(), A.copy(), return_grad=True)
                except Exception:
                    continue
                try:
                    with np.errstate(all="ignore"):
                        c0 = g(P.copy(), A.copy())
                        c1, cg = g(P.copy(), A.copy(), return_grad=True)
                    # (gradients are compared along the simplex-tangent directions only: a per-row constant is immaterial, lemma L2)
                    tang = lambda g_: np.asarray(g_, float) - np.asarray(g_, float).mean(axis=1, keepdims=True)
                    okv = (np.allclose(np.asarray(c0, float), np.asarray(e0, float), rtol=1e-6, atol=1e-7, equal_nan=True)
                           and np.allclose(np.asarray(c1, float), np.asarray(e1, float), rtol=1e-6, atol=1e-7, equal_nan=True)
                           and np.shape(cg) == np.shape(eg) and np.allclose(tang(cg), tang(eg), rtol=1e-6, atol=1e-6, equal_nan=True))
                    got = {"__call__": repr(c0), "evaluate": repr(e0)}
                except Exception as e:
                    okv, got = False, {"__call__ raised": repr(e), "evaluate": repr(e0)}
                if not okv:
                    bad = dict(got, P=P.tolist(), A=A.tolist(), replayed=True)
                    break
            if bad is not None:
                obs.append(Ob(name, REFUTED, "enumeration", "P", dict(bad, recorder=seen_bad), fn=fn_call))
            else:
                obs.append(Ob(name, UNDECIDED, "enumeration", "P", {"why": "__call__ does not simply forward, and no probed input separates it from evaluate",
                                                                     "recorder": seen_bad}, fn=fn_call))
    mi = G.MI()
    obs.append(Ob("MI() is KLGEMINI(ovo=False)", PROVED if isinstance(mi, G.KLGEMINI) and mi.ovo is False else REFUTED,
                  "enumeration", "P", {"replayed": True}, fn="gemclus.gemini._fdivergences.MI.__init__"))
    return obs


def frame_obligations():
    """FX frame of the GEMINI objects (all classes, all paths): evaluate / compute_affinity / __call__ write no attribute of
    the object and read only options fixed at construction -- the score and the affinity are functions of their arguments and
    of the constructor options, never of earlier calls (a cached kernel statistic would make the score depend on history)."""
    import inspect
    from engine import fx
    from gemclus.gemini import MMDGEMINI, WassersteinGEMINI, KLGEMINI, TVGEMINI, HellingerGEMINI, ChiSquareGEMINI, MI
    SELF = ("var", "self")
    obs = []
    for cls in (MMDGEMINI, WassersteinGEMINI, KLGEMINI, TVGEMINI, HellingerGEMINI, ChiSquareGEMINI, MI):
        hp = set(inspect.signature(cls.__init__).parameters) - {"self"}
        init = fx.Interp(cls, inline_filter=lambda o, m: True, max_depth=6).run_method("__init__")
        # attributes set at construction: the 'options' (no method below may write them, so they keep their construction-time value)
        opts = {e[2] for st in init for e in st.events if e[0] == "store" and e[1] == SELF}
        runs = {}
        for meth in sorted(n for n in dir(cls) if callable(getattr(cls, n, None)) and n != "__init__"
                           and (getattr(getattr(cls, n), "__module__", "") or "").startswith("gemclus") and inspect.isfunction(getattr(cls, n))):
            try:
                runs[meth] = fx.Interp(cls, inline_filter=lambda o, m: True, max_depth=6).run_method(meth)
            except fx.FxUnsupported as e:
                runs[meth] = e
        # attributes written by any method after construction
        later = {e[2] for m_, sts in runs.items() if not isinstance(sts, Exception) for st in sts for e in st.events if e[0] == "store" and e[1] == SELF}
        for meth in ("evaluate", "compute_affinity", "__call__"):
            fn = f"gemclus.gemini.{cls.__name__}.{meth}"
            sts = runs.get(meth)
            if sts is None or isinstance(sts, Exception):
                obs.append(Ob(f"{cls.__name__}.{meth}: frame analysable", UNDECIDED, "fx", "P", {"why": str(sts)}, fn=fn))
                continue
            reads = {e[2] for st in sts for e in st.events if e[0] == "read" and e[1] == SELF}
            writes = {e[2] for st in sts for e in st.events if e[0] == "store" and e[1] == SELF}
            # in-place changes of an option object (the user's kernel_params / metric_params dict) -- on any branch of a conditional alias
            muts = [fx.show(e[2])[:60] for st in sts for e in st.events if e[0] == "mutate"
                    for b_ in fx.branches(e[1]) if isinstance(b_, tuple) and b_[:2] == ("attr", SELF)]
            for st in sts:
                for e in st.events:
                    if e[0] == "call" and e[2].endswith((".update", ".setdefault", ".pop", ".clear", ".popitem", ".append", ".extend", ".remove", ".insert", ".sort")) \
                            and isinstance(e[6], tuple) and e[6][0] == "attr":
                        muts += [e[2] for b_ in fx.branches(e[6][1]) if isinstance(b_, tuple) and b_[:2] == ("attr", SELF)]
            state = sorted(a for a in reads if (a not in opts or a in later) and not callable(getattr(cls, a, None)))
            from .repro import data_mutations
            args = {("var", n_) for n_ in ("X", "y", "y_pred", "affinity")}
            from .repro import may_alias
            muts += data_mutations(sts, lambda t: may_alias(t, args))       # the caller's predictions / affinity / data are never modified in place
            ok = bool(sts) and not writes and not muts and not state
            obs.append(Ob(f"{cls.__name__}.{meth}: stateless (writes nothing on the object or into its arguments, reads only constructor options)", PROVED if ok else REFUTED,
                          "fx-frame", "P", {"reads": sorted(reads), "writes": sorted(writes), "state read": state, "mutations": muts[:3],
                                            "written after construction by some method": sorted(later)}, fn=fn))
    return obs


def options_at_call_time(seed=0):
    """B: the objective evaluated is the one the object's PUBLIC option attributes name at call time -- an object whose `ovo`
    (or `epsilon`) attribute is changed after construction evaluates like a fresh object built with that value, and switching
    back restores the first value.  (P-tier counterpart: constructors store their parameters and nothing derived from them.)"""
    import gemclus.gemini as G
    rs = np.random.RandomState(seed + 3)
    n, K = 9, 3
    P = rs.dirichlet(np.ones(K) * 2.0, size=n)
    X = rs.normal(size=(n, 2))
    obs = []
    for cls in ("KLGEMINI", "TVGEMINI", "HellingerGEMINI", "ChiSquareGEMINI", "MMDGEMINI", "WassersteinGEMINI"):
        C = getattr(G, cls)
        A = X @ X.T if cls == "MMDGEMINI" else (np.abs(X[:, None, :] - X[None, :, :]).sum(-1) if cls == "WassersteinGEMINI" else None)
        bad = None
        try:
            fresh = {o: float(np.asarray(C(ovo=o)(P, A)).item()) for o in (False, True)}
            fresh_g = {o: np.asarray(C(ovo=o)(P, A, return_grad=True)[1], dtype=float) for o in (False, True)}
            for start in (False, True):
                g = C(ovo=start)
                seq = [start, not start, start]
                for o in seq:
                    g.ovo = o
                    v = float(np.asarray(g(P, A)).item())
                    gr = np.asarray(g(P, A, return_grad=True)[1], dtype=float)
                    if not close(v, fresh[o]) or not close(gr, fresh_g[o]):
                        bad = bad or {"class": cls, "constructed with ovo": start, "ovo attribute now": o, "score": v, "fresh object": fresh[o]}
            # epsilon read at call time: a hard assignment is clipped with the CURRENT epsilon
            H = np.eye(K)[rs.randint(0, K, size=n)]
            g = C()
            g.epsilon = 1e-3
            v = float(np.asarray(g(H, A)).item())
            w = float(np.asarray(C(epsilon=1e-3)(H, A)).item())
            if not close(v, w):
                bad = bad or {"class": cls, "epsilon changed after construction": 1e-3, "score": v, "fresh object": w}
        except Exception as e:
            bad = {"class": cls, "exception": repr(e)[:200]}
        obs.append(Ob(f"{cls}: options are read at call time (ovo / epsilon changed after construction == fresh object with that value; switching back restores)",
                      PROVED if bad is None else REFUTED, "native", "B", dict(bad or {}, replayed=bad is not None), fn=f"gemclus.gemini.{cls}.evaluate"))
    return obs
