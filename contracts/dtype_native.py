"""B tier: dtype invariance on the real code.  The properties quantify over real-valued inputs; an array of another numeric
dtype (integers, float32) that holds the same values is the same input, and the result must be the one obtained for its
float64 copy (exactly for integer-typed arrays, to float32 accuracy for float32 ones).  Symbolic runs use object arrays
and cannot see truncations caused by `astype(X.dtype)`, `np.empty_like(W)` or `X.dtype.type(threshold)`."""
import warnings

import numpy as np

from .common import *  # noqa


def _same(a, b, rtol=1e-10, atol=1e-12):
    a, b = np.asarray(a, dtype=float), np.asarray(b, dtype=float)
    return a.shape == b.shape and bool(np.allclose(a, b, rtol=rtol, atol=atol, equal_nan=False))


def prox_dtypes(seed=0):
    """C05 / C06: the four proximal operators on integer-typed and float32 weights"""
    import gemclus.sparse._prox_grad as PG
    rs = np.random.RandomState(seed)
    obs = []
    Wi = rs.randint(-6, 7, size=(5, 3))
    Wi[1] = 0
    Vi = rs.randint(-4, 5, size=(5, 2))
    Ui = rs.randint(-5, 6, size=(5, 4))
    groups = [[0, 3], [1], [2, 4]]
    cases = {
        "linear_prox_grad": lambda c: PG.linear_prox_grad(c(Wi), 1.5),
        "group_linear_prox_grad": lambda c: PG.group_linear_prox_grad(groups, c(Wi), 1.5),
        "mlp_prox_grad": lambda c: PG.mlp_prox_grad(c(Vi + (Vi == 0).all(1, keepdims=True)), c(Ui), 0.7, 2.0),
        "group_mlp_prox_grad": lambda c: PG.group_mlp_prox_grad(groups, c(Vi + (Vi == 0).all(1, keepdims=True)), c(Ui), 0.7, 2.0),
    }
    for name, f in cases.items():
        bad = None
        try:
            with warnings.catch_warnings(), np.errstate(all="ignore"):
                warnings.simplefilter("ignore")
                ref = f(lambda a: np.array(a, dtype=np.float64))
                for dt, tol in ((np.int64, 1e-10), (np.int32, 1e-10), (np.float32, 1e-5)):
                    got = f(lambda a: np.array(a, dtype=dt))
                    pairs = list(zip(got, ref)) if isinstance(ref, tuple) else [(got, ref)]
                    if not all(_same(g, r, rtol=tol, atol=tol) for g, r in pairs) and bad is None:
                        bad = {"dtype": np.dtype(dt).name, "got": np.asarray(pairs[0][0], dtype=float).tolist(), "float64 result": np.asarray(pairs[0][1]).tolist()}
        except Exception as e:
            bad = {"exception": repr(e)[:200]}
        obs.append(Ob(f"{name}: integer-typed / float32 weights give the minimiser computed for their float64 copy", PROVED if bad is None else REFUTED,
                      "native", "B", dict(bad or {}, replayed=bad is not None), fn=f"gemclus.sparse._prox_grad.{name}"))
    return obs


def gemini_dtypes(seed=0):
    """C01 / C02 / C13: every GEMINI on float32 predictions (near one-hot rows included) and on integer one-hot matrices"""
    import gemclus.gemini as G
    rs = np.random.RandomState(seed)
    n, K = 12, 3
    X = rs.normal(size=(n, 2))
    Kmat = X @ X.T
    D = np.sqrt(((X[:, None] - X[None]) ** 2).sum(-1))
    logits = rs.normal(size=(n, K)) * 3
    soft = np.exp(logits) / np.exp(logits).sum(1, keepdims=True)
    sharp = np.full((n, K), 3e-9)
    sharp[np.arange(n), np.arange(n) % K] = 1 - 6e-9          # inside the simplex, off-entries far above epsilon = 1e-12
    onehot = np.eye(K)[np.arange(n) % K]
    obs = []
    for cls in ("KLGEMINI", "TVGEMINI", "HellingerGEMINI", "ChiSquareGEMINI", "MMDGEMINI", "WassersteinGEMINI"):
        for ovo in (False, True):
            aff = Kmat if cls == "MMDGEMINI" else (D if cls == "WassersteinGEMINI" else None)
            bad = None
            try:
                with warnings.catch_warnings(), np.errstate(all="ignore"):
                    warnings.simplefilter("ignore")
                    g = getattr(G, cls)(ovo=ovo)
                    for label, P64, P in (("float32 soft", soft.astype(np.float32).astype(np.float64), soft.astype(np.float32)),
                                          ("float32 near one-hot", sharp.astype(np.float32).astype(np.float64), sharp.astype(np.float32)),
                                          ("int64 one-hot", onehot, onehot.astype(np.int64)), ("int32 one-hot", onehot, onehot.astype(np.int32))):
                        s0, g0 = g.evaluate(P64.copy(), None if aff is None else aff.copy(), return_grad=True)
                        s1, g1 = g.evaluate(P.copy(), None if aff is None else aff.copy(), return_grad=True)
                        tol = 2e-3 if "float32" in label else 1e-9
                        ok = (np.isfinite(s0) == np.isfinite(s1)) and (not np.isfinite(s0) or abs(float(s0) - float(s1)) <= tol * (1 + abs(float(s0))))
                        if "one-hot" in label and "near" not in label:
                            ok = ok and bool(np.isfinite(s1)) and bool(np.all(np.isfinite(g1)))
                        if "int" in label:
                            ok = ok and _same(g1, g0, rtol=1e-8, atol=1e-10)
                        if not ok and bad is None:
                            bad = {"input": label, "score": float(s1), "score for the float64 copy": float(s0)}
            except Exception as e:
                bad = {"exception": repr(e)[:200]}
            obs.append(Ob(f"{cls}[{'ovo' if ovo else 'ova'}]: float32 and integer-typed prediction matrices are scored like their float64 copies", PROVED if bad is None else REFUTED,
                          "native", "B", dict(bad or {}, replayed=bad is not None), fn=f"gemclus.gemini.{cls}.evaluate"))
    return obs


def predict_dtypes(seed=0, only=None):
    """C18 / C15 / C19 / C09: predict / predict_proba / score on integer-typed and float32 query arrays equal those on the float64 copy
    (models fitted on half-integer data, so that tree thresholds and cut points are not integers)"""
    from .rt_fits import estimators
    rs = np.random.RandomState(seed)
    n, d = 24, 3
    Xtr = rs.randint(-6, 7, size=(n, d)) + 0.5
    Xtr[: n // 2] -= 4.0
    Xq = np.vstack([rs.randint(-9, 10, size=(30, d)), np.ceil(Xtr[:8]).astype(int), np.floor(Xtr[:8]).astype(int)])
    obs = []
    for name, cls in estimators().items():
        if only and name not in only:
            continue
        kw = dict(max_clusters=4, random_state=seed) if name == "Kauri" else dict(n_clusters=3, max_iter=4, random_state=seed)
        if name == "Douglas":
            kw.update(n_cuts=2, gemini="mmd_ova")
        if name.startswith("Categorical"):
            continue                                   # transductive: no prediction on new points
        bad = None
        try:
            with warnings.catch_warnings(), np.errstate(all="ignore"):
                warnings.simplefilter("ignore")
                m = cls(**kw).fit(Xtr)
                ref = {"predict": m.predict(Xq.astype(np.float64)), "score": m.score(Xq.astype(np.float64))}
                if hasattr(m, "predict_proba"):
                    ref["predict_proba"] = m.predict_proba(Xq.astype(np.float64))
                for dt in (np.int64, np.int32, np.int8, np.float32):
                    Q = Xq.astype(dt)
                    tol = 1e-4 if dt is np.float32 else 1e-10
                    if name == "Kauri" and dt is np.float32:
                        # observation (outside the listed properties): Kauri.score on a float32 array raises "Buffer dtype mismatch"
                        # in the compiled objective; only predict is compared for that dtype
                        if not np.array_equal(m.predict(Q), ref["predict"]) and bad is None:
                            bad = {"method": "predict", "dtype": "float32"}
                        continue
                    got = {"predict": m.predict(Q), "score": m.score(Q)}
                    if "predict_proba" in ref:
                        got["predict_proba"] = m.predict_proba(Q)
                    for k in ref:
                        same = np.array_equal(got[k], ref[k]) if k == "predict" else _same(got[k], ref[k], rtol=tol, atol=tol)
                        if not same and bad is None:
                            diff = np.flatnonzero(np.asarray(got[k]).reshape(len(Xq), -1).astype(float).sum(1) != np.asarray(ref[k]).reshape(len(Xq), -1).astype(float).sum(1)) if k != "score" else []
                            bad = {"method": k, "dtype": np.dtype(dt).name, "rows that differ": [int(i) for i in diff[:5]],
                                   "query rows": Xq[diff[:3]].tolist() if len(diff) else None}
        except Exception as e:
            bad = {"exception": repr(e)[:200]}
        obs.append(Ob(f"{name}: predict / predict_proba / score on integer-typed and float32 query arrays equal those on the float64 copy",
                      PROVED if bad is None else REFUTED, "native", "B", dict(bad or {}, replayed=bad is not None), fn=f"{name}.predict"))
    return obs
