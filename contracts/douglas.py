"""Contracts on gemclus.tree.douglas.Douglas (property C15): masked features inert, valid soft bins,
active points as defined.  Back-propagation is covered by the C03 VJP contract."""
import itertools

import numpy as np

from .common import *  # noqa
from .models_vjp import std_patches, DG


class RecSoftmax:
    def __init__(self):
        self.args = []

    def __call__(self, H, copy=True):
        if sx.NATIVE:           # replay on float inputs: record, then the real scikit-learn softmax
            from sklearn.utils.extmath import softmax
            self.args.append(np.array(H, dtype=float, copy=True))
            return softmax(np.array(H, dtype=float), copy=copy)
        self.args.append(np.array(H, dtype=object, copy=True))
        return sx.softmax_stub(H)


class Bins(SxContract):
    """_infer on a model whose cut_points_list_ covers the unmasked features only."""
    float_replay = True
    max_paths = 5000

    def __init__(self, n, d, K, cuts, mask):
        self.n, self.d, self.K, self.cuts, self.mask = n, d, K, cuts, tuple(mask)
        self.label = f"Douglas._infer[n={n},d={d},K={K},cuts={cuts},mask={list(mask)}]"
        self.fn = "gemclus.tree.douglas.Douglas._infer"

    def patches(self):
        self.rec = RecSoftmax()
        return [p for p in std_patches() if not (p[0] is DG and p[1] == "softmax")] + [(DG, "softmax", self.rec)]

    def build(self, ctx):
        used = [j for j in range(self.d) if self.mask[j]]
        m = DG.Douglas(n_clusters=self.K, n_cuts=self.cuts)
        m.temperature = ctx.var("T", "+", lo=0.05, hi=1.5)
        m.cut_points_list_ = [(j, sx.sym_array(ctx, f"cut{j}", (self.cuts,))) for j in used]
        m.leaf_scores_ = sx.sym_array(ctx, "ls", ((self.cuts + 1) ** len(used), self.K))
        self.model, self.used = m, used
        return {"X": sx.sym_array(ctx, "x", (self.n, self.d))}

    def body(self, inp):
        self.rec.args = []
        m = self.model
        y = m._infer(inp["X"].copy(), retain=True)
        # sorted cut points per used feature (specification side: explicit insertion sort by comparisons)
        sorted_cuts = []
        for j, c in m.cut_points_list_:
            s = list(c)
            for a in range(1, len(s)):
                b = a
                while b > 0 and s[b] < s[b - 1]:
                    s[b], s[b - 1] = s[b - 1], s[b]
                    b -= 1
            sorted_cuts.append(s)
        res = {"y": y, "binnings": list(m._all_binnings), "leaf": m._leaf, "softmax_args": list(self.rec.args),
               "sorted_cuts": sorted_cuts}
        # the prediction-time pass (predict / predict_proba / score call _infer with retain=False) on the same parameters
        res["y_predict"] = m._infer(inp["X"].copy(), retain=False)
        return res

    def ensures(self, inp, out):
        n, K, X = self.n, self.K, inp["X"]
        m = self.model
        y = out["y"]
        nb = self.cuts + 1
        yield "predict_proba shape", prove.holds(getattr(y, "shape", None) == (n, K))
        yield "number of leaves == (n_cuts+1)^(used features)", prove.holds(
            out["leaf"].shape == (n, nb ** len(self.used)) and m.leaf_scores_.shape[0] == nb ** len(self.used))
        for f in range(self.d):
            if not self.mask[f]:
                for i in range(n):
                    for k in range(K):
                        for i2 in range(n):
                            yield f"masked feature {f}: y[{i},{k}] independent of x[{i2},{f}]", prove.indep(y[i, k], f"x_{i2}_{f}")
        for u, (f, _) in enumerate(m.cut_points_list_):
            B = out["binnings"][u]
            H = out["softmax_args"][u]
            yield f"feature {f}: binning shape", prove.holds(B.shape == (n, nb) and H.shape == (n, nb))
            for i in range(n):
                tot = B[i, 0]
                for j in range(1, nb):
                    tot = tot + B[i, j]
                yield f"feature {f}: memberships of sample {i} sum to 1", prove.eq(tot, 1)
                for j in range(nb):
                    yield f"feature {f}: membership [{i},{j}] > 0", prove.rel(B[i, j], "+")
                for j in range(1, nb):
                    want = (X[i, f] - out["sorted_cuts"][u][j - 1]) / m.temperature
                    yield f"feature {f}: logit[{i},{j}]-logit[{i},{j - 1}] == (x - c_({j}))/T", prove.eq(H[i, j] - H[i, j - 1], want)
        for i in range(n):
            tot = out["leaf"][i, 0]
            for j in range(1, out["leaf"].shape[1]):
                tot = tot + out["leaf"][i, j]
            yield f"leaf memberships of sample {i} sum to 1", prove.eq(tot, 1)
            tot = y[i, 0]
            for k in range(1, K):
                tot = tot + y[i, k]
            yield f"predict_proba row {i} sums to 1", prove.eq(tot, 1)
        yp = out["y_predict"]
        yield "prediction-time pass (retain=False): shape", prove.holds(getattr(yp, "shape", None) == (n, K))
        if getattr(yp, "shape", None) == (n, K):
            for i in range(n):
                for k in range(K):
                    yield (f"prediction-time pass (retain=False) == training-time pass on the same parameters [{i},{k}] (same bins, whatever the "
                           "order the cut points are stored in)"), prove.eq(yp[i, k], y[i, k])


class ActivePoints(SxContract):
    """find_active_points(X) returns feature f iff some cut point lies strictly inside (min_i x_if, max_i x_if)."""
    fn = "gemclus.tree.douglas.Douglas.find_active_points"
    boundaries = True       # <= versus <: points ON a threshold / cut are part of the contract, not a measure-zero set
    safety = False
    tie_variants = True     # "strictly inside the range": a cut point equal to the column minimum / maximum is the boundary case
    max_paths = 20000

    def __init__(self, n, d, cuts):
        self.n, self.d, self.cuts = n, d, cuts
        self.label = f"Douglas.find_active_points[n={n},d={d},cuts={cuts}]"

    def patches(self):
        return std_patches() + [(DG, "check_array", lambda X, **k: X), (DG, "check_is_fitted", lambda *a, **k: None)]

    def build(self, ctx):
        m = DG.Douglas(n_cuts=self.cuts)
        m.cut_points_list_ = [(j, sx.sym_array(ctx, f"cut{j}", (self.cuts,), lo=-1, hi=1)) for j in range(self.d)]
        m.leaf_scores_ = np.zeros(((self.cuts + 1) ** self.d, 3))
        self.model = m
        return {"X": sx.sym_array(ctx, "x", (self.n, self.d), lo=-1.5, hi=1.5)}

    def body(self, inp):
        X = inp["X"]
        got = self.model.find_active_points(X.copy())
        want = []
        for f, cuts in self.model.cut_points_list_:
            col = [X[i, f] for i in range(self.n)]
            lo, hi = col[0], col[0]
            for v in col[1:]:
                if v < lo:
                    lo = v
                if v > hi:
                    hi = v
            if any(bool(c > lo) and bool(c < hi) for c in cuts):
                want.append(f)
        return {"got": list(got), "want": want}

    def ensures(self, inp, out):
        yield "active features == features with a cut strictly inside the data range", prove.holds(
            sorted(out["got"]) == sorted(out["want"]), f"got {out['got']} want {out['want']}")

    def native(self, env, inp):
        import copy
        X = sx.to_float(inp["X"], env)
        m = copy.copy(self.model)
        m.cut_points_list_ = [(j, sx.to_float(c, env)) for j, c in self.model.cut_points_list_]
        got = m.find_active_points(X)
        want = [f for f, c in m.cut_points_list_ if np.any((c > X[:, f].min()) & (c < X[:, f].max()))]
        return {"*": (sorted(got) == sorted(want), {"X": X.tolist(), "cuts": [c.tolist() for _, c in m.cut_points_list_],
                                                    "got": list(map(int, got)), "want": want})}


def task(kind, args, seed=0):
    return run_sx({"bins": Bins, "active": ActivePoints}[kind](*args), seed=seed)


def init_params_table():
    """TB: the real Douglas._init_params for every feature mask over d <= 3 and n_cuts in {1,2,3}."""
    obs = []
    fn = "gemclus.tree.douglas.Douglas._init_params"
    for d in (1, 2, 3):
        for cuts in (1, 2, 3):
            masks = [None] + [np.array(m) for m in itertools.product([True, False], repeat=d)]
            # a 0/1 mask of integer dtype is a legal ndarray mask too (entry-wise truth value), it must select the same features
            masks += [np.array(m).astype(t) for m in itertools.product([True, False], repeat=d) for t in (np.int64, np.uint8)][:: (1 if d < 3 else 3)]
            for mask in masks:
                m = DG.Douglas(n_clusters=3, n_cuts=cuts, feature_mask=mask)
                X = np.zeros((4, d))
                used = list(range(d)) if mask is None else [j for j in range(d) if mask[j]]
                try:
                    m._init_params(np.random.RandomState(0), X)
                    ok = ([j for j, _ in m.cut_points_list_] == used and all(c.shape == (cuts,) for _, c in m.cut_points_list_)
                          and m.leaf_scores_.shape == ((cuts + 1) ** len(used), 3)
                          and len(m._get_weights()) == 1 + len(used))
                    det = {"features": [j for j, _ in m.cut_points_list_], "leaf_scores": list(m.leaf_scores_.shape)}
                except Exception as e:
                    ok, det = False, {"exception": repr(e)}
                obs.append(Ob(f"Douglas._init_params[d={d},cuts={cuts},mask={None if mask is None else mask.tolist()}{'' if mask is None or mask.dtype == bool else ' as ' + str(mask.dtype)}]: cut points only for unmasked features, (n_cuts+1)^used leaves",
                              PROVED if ok else REFUTED, "enumeration", "P", {**det, "replayed": True}, fn=fn))
            # wrong mask length is rejected
            m = DG.Douglas(n_cuts=cuts, feature_mask=np.array([True] * (d + 1)))
            try:
                m._init_params(np.random.RandomState(0), np.zeros((4, d)))
                ok = False
            except ValueError:
                ok = True
            obs.append(Ob(f"Douglas._init_params[d={d},cuts={cuts}]: mask of the wrong length raises ValueError",
                          PROVED if ok else REFUTED, "enumeration", "P", {"replayed": True}, fn=fn))
    return obs


def lemma_link_L9(obs):
    """Lemma L9 (lean/Lemmas.lean bin_argmax, any number of cut points, any T > 0) has as its only code-facing hypothesis the
    logit-difference identity; it is tied to the clauses discharged on the real Douglas._infer: the Lean statement still has
    that hypothesis, and every explored (shape, mask) has all its logit-difference clauses PROVED."""
    import re
    text = open(os.path.join(ROOT, "lean", "Lemmas.lean")).read()
    m = re.search(r"theorem bin_argmax(.*?):= by", text, re.S)
    stmt = m.group(1) if m else ""
    want = ["(hT : 0 < T)", "(hstep : ∀ j < m, ℓ (j+1) - ℓ j = (x - c j) / T)", "(hbelow : ∀ j < r, c j < x)",
            "(habove : ∀ j, r ≤ j → j < m → x < c j)", "∀ j ≤ m, j ≠ r → ℓ j < ℓ r"]
    hyps = re.findall(r"\((h\w+) :", stmt)
    ok = all(w in stmt for w in want) and sorted(hyps) == ["hT", "habove", "hbelow", "hr", "hstep"]
    out = [Ob("lean-link: bin_argmax assumes of the code only the logit-difference identity (x - c_(j))/T, T > 0, sorted cut points",
              PROVED if ok else UNDECIDED, "text-match", "P", {"hypotheses": hyps}, fn="specs.douglas (lemma L9)")]
    mine = [o for o in obs if "logit[" in o.name and "]-logit[" in o.name]
    bad = [o.name for o in mine if o.status != PROVED]
    out.append(Ob("lean-link: every explored soft binning discharges the logit-difference hypothesis of bin_argmax",
                  PROVED if mine and not bad else UNDECIDED, "text-match", "P", {"clauses": len(mine), "not proved": bad[:5]},
                  fn="gemclus.tree.douglas.Douglas._infer"))
    return out
