"""FX contracts on the prediction glue (C18, C04, C16): for every estimator class, through the real MRO,
  predict_proba(X) = self._infer(check_array(X), retain=False)   after check_is_fitted(self)
  predict(X)       = np.argmax(self.predict_proba(check_array(X)), axis=1)   after check_is_fitted(self)
  score(X, y)      = gemini(predict_proba(X), gemini.compute_affinity(X, y)).item(), gemini = self.get_gemini()
  KernelRIM.predict_proba(X) = self._infer(self._compute_kernel(X)) with the kernel taken between X and input_data_
  Kauri.predict(X) = self.tree_.predict(check_array(X)) after check_is_fitted(self)
"""
from .common import *  # noqa
from engine import fx
from .fit_loop import gradient_estimators

SELF = ("var", "self")


def _one_return(cls, meth, inline_filter):
    it = fx.Interp(cls, inline_filter=inline_filter)
    sts = it.run_method(meth)
    return it, [s for s in sts if s.ended == "return"], sts


def _first_call_is_check_fitted(st):
    cs = [e for e in st.events if e[0] == "call"]
    return bool(cs) and cs[0][2] == "check_is_fitted" and cs[0][3][:1] == (SELF,)


def obligations():
    from gemclus.linear import KernelRIM
    from gemclus.tree import Kauri
    obs = []

    def ob(cls, meth, name, ok, det=None):
        obs.append(Ob(f"{cls.__name__}.{meth}:{name}", PROVED if ok else REFUTED, "fx-dataflow", "P", det or {},
                      fn=f"{cls.__module__}.{cls.__name__}.{meth}"))
    for cls in gradient_estimators():
        keep = lambda o, m: False          # nothing inlined: every self.<method> stays an opaque call
        # predict_proba
        it, rets, allp = _one_return(cls, "predict_proba", keep)
        ok_paths = len(rets) >= 1 and all(s.ended == "return" for s in allp)
        for st in rets:
            v = st.ret
            if cls is KernelRIM:
                good = (v[:1] == ("callres",) and v[2] == "self._infer" and len(v[3]) == 1
                        and v[3][0][:1] == ("callres",) and v[3][0][2] == "self._compute_kernel" and v[3][0][3] == (("var", "X"),))
                ob(cls, "predict_proba", "== _infer(_compute_kernel(X))", good, {"ret": fx.show(v)})
            else:
                good = (v[:1] == ("callres",) and v[2] == "self._infer" and len(v[3]) == 1
                        and v[3][0][:1] == ("callres",) and v[3][0][2] == "check_array" and v[3][0][3] == (("var", "X"),)
                        and dict(v[4]).get("retain") == fx.C(False))
                ob(cls, "predict_proba", "== _infer(check_array(X), retain=False)", good, {"ret": fx.show(v)})
                ob(cls, "predict_proba", "check_is_fitted(self) first", _first_call_is_check_fitted(st))
        # predict
        it, rets, allp = _one_return(cls, "predict", keep)
        for st in rets:
            v = st.ret
            good = (v[:1] == ("callres",) and v[2] == "np.argmax" and dict(v[4]).get("axis") == fx.C(1)
                    and len(v[3]) == 1 and v[3][0][:1] == ("callres",) and v[3][0][2] == "self.predict_proba")
            ob(cls, "predict", "== argmax(predict_proba(X), axis=1)", good, {"ret": fx.show(v)})
            ob(cls, "predict", "check_is_fitted(self) first", _first_call_is_check_fitted(st))
        # score
        it, rets, allp = _one_return(cls, "score", keep)
        for st in rets:
            v = st.ret
            # gemini(y_pred, K).item()
            cs = [e for e in st.events if e[0] == "call"]
            gem = [e for e in cs if e[2] == "self.get_gemini"]
            aff = [e for e in cs if e[2].endswith(".compute_affinity")]
            pp = [e for e in cs if e[2] == "self.predict_proba"]
            good = bool(gem and aff and pp)
            if good:
                gterm = ("callres", gem[0][1], "self.get_gemini", (), ())
                K_ = ("callres", aff[0][1], aff[0][2], aff[0][3], aff[0][4])
                yp = ("callres", pp[0][1], "self.predict_proba", pp[0][3], pp[0][4])
                call = [e for e in cs if e[6] == gterm]
                good = (aff[0][6] == ("attr", gterm, "compute_affinity") and aff[0][3] == (("var", "X"), ("var", "y"))
                        and pp[0][3] == (("var", "X"),) and len(call) == 1 and call[0][3] == (yp, K_)
                        and v[:1] == ("callres",) and v[2].endswith(".item"))
            ob(cls, "score", "== get_gemini()(predict_proba(X), gemini.compute_affinity(X, y)).item()", good, {"ret": fx.show(v)})
    # KernelRIM._compute_kernel: kernel between the argument and the stored training points, params forwarded
    it = fx.Interp(KernelRIM, inline_filter=lambda o, m: False)
    for st in it.run_method("_compute_kernel"):
        if st.ended != "return":
            continue
        v = st.ret
        inp = ("attr", SELF, "input_data_")
        if v[2] == "pairwise_kernels":
            star = [x for k, x in v[4] if k is None]
            pattr = ("attr", SELF, "base_kernel_params")
            want = ("ite", ("cmp", ("Is",), (pattr, fx.C(None))), ("callres", None, "dict", (), ()), pattr)
            good = (v[3] == (("var", "X"), inp) and dict((k, x) for k, x in v[4] if k is not None).get("metric") == ("attr", SELF, "base_kernel")
                    and len(star) == 1 and fx.strip(star[0]) == want)
        else:
            good = v[2] == "self.base_kernel" and v[3] == (("var", "X"), inp)
        ob(KernelRIM, "_compute_kernel", f"kernel between X and input_data_, with base_kernel_params forwarded ({v[2]})", good, {"ret": fx.show(v)})
    # KernelRIM.fit: the wrapper trains the linear model on the kernel of THIS call's data (no state of an earlier fit is reused)
    sts = fx.Interp(KernelRIM, inline_filter=lambda o, m: False).run_method("fit")
    rets = [st for st in sts if st.ended == "return"]
    import inspect
    hyper = set(inspect.signature(KernelRIM.__init__).parameters)

    def state_names(t, acc):
        """attributes of self (also through getattr / hasattr with a constant name) a term mentions"""
        if isinstance(t, tuple):
            if t[:1] == ("attr",) and len(t) == 3 and t[1] == SELF and isinstance(t[2], str):
                acc.add(t[2])
            if t[:1] == ("callres",) and len(t) >= 4 and t[2] in ("getattr", "hasattr") and t[3] and t[3][0] == SELF:
                acc.update(str(getattr(x, "value", x[1] if isinstance(x, tuple) and len(x) > 1 else x)) for x in t[3][1:2])
            for x in t:
                state_names(x, acc)
        return acc
    dep = set()
    for st in rets:
        for c, _ in st.pc:
            state_names(c, dep)
    dep -= hyper
    ob(KernelRIM, "fit", "the set-up never branches on state left by an earlier fit (only on hyper-parameters and arguments)", bool(rets) and not dep,
       {"paths": len(rets), "state tested": sorted(dep)})
    for st in rets:
        ev = st.events
        stores = {e[2]: (i, e[3]) for i, e in enumerate(ev) if e[0] == "store" and e[1] == SELF}
        ck = [(i, e) for i, e in enumerate(ev) if e[0] == "call" and e[2] == "self._compute_kernel"]
        inner = [(i, e) for i, e in enumerate(ev) if e[0] == "call" and e[2] in ("self.fit", "super().fit") or
                 (e[0] == "call" and isinstance(e[-1], tuple) and e[-1][:1] == ("method",) and e[-1][2] == "fit" and e[-1][1] != "KernelRIM")]
        kres = ("callres", ck[0][1][1], "self._compute_kernel", ck[0][1][3], ck[0][1][4]) if ck else None
        good = (len(ck) == 1 and ck[0][1][3] == (("var", "X"),) and "input_data_" in stores and stores["input_data_"][1] == ("var", "X")
                and stores["input_data_"][0] < ck[0][0])
        ob(KernelRIM, "fit", "input_data_ = X is stored before the training kernel _compute_kernel(X) is computed", good)
        good = bool(good and len(inner) == 1 and inner[0][1][3] == (kres, ("var", "y")) and inner[0][0] > ck[0][0])
        ob(KernelRIM, "fit", "the linear model is trained on (_compute_kernel(X) of this call, y)", good,
           {"call": fx.show(inner[0][1])[:200] if inner else None})
        good = bool(kres is not None and "_training_kernel" in stores and stores["_training_kernel"][1] == kres
                    and inner and stores["_training_kernel"][0] < inner[0][0])
        ob(KernelRIM, "fit", "_training_kernel (used by the penalty gradient) is that same kernel, stored before training", good)
        good = "n_features_in_" in stores and stores["n_features_in_"][1] == ("item", ("attr", ("var", "X"), "shape"), fx.C(1))
        ob(KernelRIM, "fit", "n_features_in_ = X.shape[1] (the data, not the kernel)", good)
    # Kauri
    it, rets, allp = _one_return(Kauri, "predict", lambda o, m: False)
    for st in rets:
        v = st.ret
        good = (v[:1] == ("callres",) and v[2] == "self.tree_.predict" and len(v[3]) == 1 and v[3][0][2] == "check_array")
        ob(Kauri, "predict", "== tree_.predict(check_array(X))", good, {"ret": fx.show(v)})
        ob(Kauri, "predict", "check_is_fitted(self) first", _first_call_is_check_fitted(st))
    return obs
