"""FX contracts on the prediction glue (C18, C04, C16): for every estimator class, through the real MRO,
  predict_proba(X) = self._infer(check_array(X), retain=False)   after check_is_fitted(self)
  predict(X)       = np.argmax(self.predict_proba(check_array(X)), axis=1)   after check_is_fitted(self)
  score(X, y)      = gemini(predict_proba(X), gemini.compute_affinity(X, y)).item(), gemini = self.get_gemini()
  KernelRIM.predict_proba(X) = self._infer(self._compute_kernel(X)) with the kernel taken between X and input_data_
  Kauri.predict(X) = self.tree_.predict(check_array(X)) after check_is_fitted(self)
"""
from .common import *  # noqa
from engine import fx
from .fit_loop import gradient_estimators

SELF = ("var", "self")


def _one_return(cls, meth, inline_filter):
    it = fx.Interp(cls, inline_filter=inline_filter)
    sts = it.run_method(meth)
    return it, [s for s in sts if s.ended == "return"], sts


def _first_call_is_check_fitted(st):
    cs = [e for e in st.events if e[0] == "call"]
    return bool(cs) and cs[0][2] == "check_is_fitted" and cs[0][3][:1] == (SELF,)


_FULL_PRECISION = (fx.C(None), fx.C("numeric"), ("attr", ("global", "np"), "float64"), ("builtin", "float"), ("attr", ("global", "np"), "double"))


def _validated_as_is(t):
    """t is check_array(X, ...) of the caller's X with options that validate but do not change the values: in particular no
    conversion to a narrower dtype (float32 routing of float64 thresholds sends rows next to a threshold to the wrong side)"""
    if not (isinstance(t, tuple) and t[:1] == ("callres",) and t[2] in ("check_array", "validate_data") and t[3] and t[3][-1 if t[2] == "validate_data" and len(t[3]) > 1 else 0] == ("var", "X")):
        return False
    kw = dict(t[4])
    return kw.get("dtype", fx.C("numeric")) in _FULL_PRECISION or (
        isinstance(kw.get("dtype"), tuple) and kw["dtype"][0] in ("list", "tuple") and kw["dtype"][1] and kw["dtype"][1][0] in _FULL_PRECISION)


def obligations():
    from gemclus.linear import KernelRIM
    from gemclus.tree import Kauri
    obs = []

    def ob(cls, meth, name, ok, det=None):
        obs.append(Ob(f"{cls.__name__}.{meth}:{name}", PROVED if ok else REFUTED, "fx-dataflow", "P", det or {},
                      fn=f"{cls.__module__}.{cls.__name__}.{meth}"))
    for cls in gradient_estimators():
        keep = lambda o, m: False          # nothing inlined: every self.<method> stays an opaque call
        # predict_proba
        it, rets, allp = _one_return(cls, "predict_proba", keep)
        ok_paths = len(rets) >= 1 and all(s.ended == "return" for s in allp)
        for st in rets:
            v = st.ret
            if cls is KernelRIM:
                good = (v[:1] == ("callres",) and v[2] == "self._infer" and len(v[3]) == 1
                        and v[3][0][:1] == ("callres",) and v[3][0][2] == "self._compute_kernel" and v[3][0][3] == (("var", "X"),))
                ob(cls, "predict_proba", "== _infer(_compute_kernel(X))", good, {"ret": fx.show(v)})
            else:
                # _infer(X, retain=False) and _infer(X, False) are one canonical call (keywords continuing the positional prefix are positional)
                good = (v[:1] == ("callres",) and v[2] == "self._infer" and len(v[3]) == 2 and not v[4]
                        and _validated_as_is(v[3][0]) and v[3][1] == fx.C(False))
                ob(cls, "predict_proba", "== _infer(check_array(X), retain=False)", good, {"ret": fx.show(v)})
                ob(cls, "predict_proba", "check_is_fitted(self) first", _first_call_is_check_fitted(st))
        # predict
        it, rets, allp = _one_return(cls, "predict", keep)
        for st in rets:
            v = st.ret
            # np.argmax(P, axis=1), P.argmax(axis=1) and P.argmax(1) are one canonical term: method form, axis positional
            callee = [e[6] for e in st.events if e[0] == "call" and e[1] == v[1]] if v[:1] == ("callres",) else []
            recv = callee[0][1] if callee and isinstance(callee[0], tuple) and callee[0][0] == "attr" and callee[0][2] == "argmax" else None
            good = (v[:1] == ("callres",) and v[2].endswith(".argmax") and v[3] == (fx.C(1),) and not v[4]
                    and recv is not None and recv[:1] == ("callres",) and recv[2] == "self.predict_proba")
            ob(cls, "predict", "== argmax(predict_proba(X), axis=1)", good, {"ret": fx.show(v)})
            ob(cls, "predict", "check_is_fitted(self) first", _first_call_is_check_fitted(st))
        # score
        it, rets, allp = _one_return(cls, "score", keep)
        for st in rets:
            v = st.ret
            # gemini(y_pred, K).item()
            cs = [e for e in st.events if e[0] == "call"]
            gem = [e for e in cs if e[2] == "self.get_gemini"]
            aff = [e for e in cs if e[2].endswith(".compute_affinity")]
            pp = [e for e in cs if e[2] == "self.predict_proba"]
            good = bool(gem and aff and pp)
            if good:
                gterm = ("callres", gem[0][1], "self.get_gemini", (), ())
                K_ = ("callres", aff[0][1], aff[0][2], aff[0][3], aff[0][4])
                yp = ("callres", pp[0][1], "self.predict_proba", pp[0][3], pp[0][4])
                call = [e for e in cs if e[6] == gterm]
                good = (aff[0][6] == ("attr", gterm, "compute_affinity") and aff[0][3] == (("var", "X"), ("var", "y"))
                        and pp[0][3] == (("var", "X"),) and len(call) == 1 and call[0][3] == (yp, K_)
                        and v[:1] == ("callres",) and v[2].endswith(".item"))
            ob(cls, "score", "== get_gemini()(predict_proba(X), gemini.compute_affinity(X, y)).item()", good, {"ret": fx.show(v)})
    # KernelRIM._compute_kernel: kernel between the argument and the stored training points, params forwarded
    it = fx.Interp(KernelRIM, inline_filter=lambda o, m: False)
    for st in it.run_method("_compute_kernel"):
        if st.ended != "return":
            continue
        v = st.ret
        inp = ("attr", SELF, "input_data_")
        if v[2] == "pairwise_kernels":
            star = [x for k, x in v[4] if k is None]
            pattr = ("attr", SELF, "base_kernel_params")
            want = ("ite", ("cmp", ("Is",), (pattr, fx.C(None))), ("dict", ()), pattr)
            am = fx.argmap(v, ("X", "Y", "metric"))
            good = (am.get("X") == ("var", "X") and am.get("Y") == inp and am.get("metric") == ("attr", SELF, "base_kernel") and "*extra" not in am
                    and len(star) == 1 and fx.strip(star[0]) == want)
        else:
            good = v[2] == "self.base_kernel" and v[3] == (("var", "X"), inp)
        ob(KernelRIM, "_compute_kernel", f"kernel between X and input_data_, with base_kernel_params forwarded ({v[2]})", good, {"ret": fx.show(v)})
    # KernelRIM.fit: the wrapper trains the linear model on the kernel of THIS call's data (no state of an earlier fit is reused)
    sts = fx.Interp(KernelRIM, inline_filter=lambda o, m: False).run_method("fit")
    rets = [st for st in sts if st.ended == "return"]
    import inspect
    hyper = set(inspect.signature(KernelRIM.__init__).parameters)

    def state_names(t, acc):
        """attributes of self (also through getattr / hasattr with a constant name) a term mentions"""
        if isinstance(t, tuple):
            if t[:1] == ("attr",) and len(t) == 3 and t[1] == SELF and isinstance(t[2], str):
                acc.add(t[2])
            if t[:1] == ("callres",) and len(t) >= 4 and t[2] in ("getattr", "hasattr") and t[3] and t[3][0] == SELF:
                acc.update(str(getattr(x, "value", x[1] if isinstance(x, tuple) and len(x) > 1 else x)) for x in t[3][1:2])
            for x in t:
                state_names(x, acc)
        return acc
    dep = set()
    for st in rets:
        for c, _ in st.pc:
            state_names(c, dep)
    dep -= hyper
    ob(KernelRIM, "fit", "the set-up never branches on state left by an earlier fit (only on hyper-parameters and arguments)", bool(rets) and not dep,
       {"paths": len(rets), "state tested": sorted(dep)})
    for st in rets:
        ev = st.events
        stores = {e[2]: (i, e[3]) for i, e in enumerate(ev) if e[0] == "store" and e[1] == SELF}
        ck = [(i, e) for i, e in enumerate(ev) if e[0] == "call" and e[2] == "self._compute_kernel"]
        inner = [(i, e) for i, e in enumerate(ev) if e[0] == "call" and e[2] in ("self.fit", "super().fit") or
                 (e[0] == "call" and isinstance(e[-1], tuple) and e[-1][:1] == ("method",) and e[-1][2] == "fit" and e[-1][1] != "KernelRIM")]
        kres = ("callres", ck[0][1][1], "self._compute_kernel", ck[0][1][3], ck[0][1][4]) if ck else None
        good = (len(ck) == 1 and ck[0][1][3] == (("var", "X"),) and "input_data_" in stores and stores["input_data_"][1] == ("var", "X")
                and stores["input_data_"][0] < ck[0][0])
        ob(KernelRIM, "fit", "input_data_ = X is stored before the training kernel _compute_kernel(X) is computed", good)
        good = bool(good and len(inner) == 1 and inner[0][1][3] == (kres, ("var", "y")) and inner[0][0] > ck[0][0])
        ob(KernelRIM, "fit", "the linear model is trained on (_compute_kernel(X) of this call, y)", good,
           {"call": fx.show(inner[0][1])[:200] if inner else None})
        good = bool(kres is not None and "_training_kernel" in stores and stores["_training_kernel"][1] == kres
                    and inner and stores["_training_kernel"][0] < inner[0][0])
        ob(KernelRIM, "fit", "_training_kernel (used by the penalty gradient) is that same kernel, stored before training", good)
        good = "n_features_in_" in stores and stores["n_features_in_"][1] == ("item", ("attr", ("var", "X"), "shape"), fx.C(1))
        ob(KernelRIM, "fit", "n_features_in_ = X.shape[1] (the data, not the kernel)", good)
    # Kauri
    it, rets, allp = _one_return(Kauri, "predict", lambda o, m: False)
    for st in rets:
        v = st.ret
        good = (v[:1] == ("callres",) and v[2] == "self.tree_.predict" and len(v[3]) == 1 and _validated_as_is(v[3][0]))
        ob(Kauri, "predict", "== tree_.predict(check_array(X))", good, {"ret": fx.show(v)})
        ob(Kauri, "predict", "check_is_fitted(self) first", _first_call_is_check_fitted(st))
    # Kauri.score: the compiled kernel-KMeans objective of the predicted labels (it sums over the clusters PRESENT in the batch)
    it, rets, allp = _one_return(Kauri, "score", lambda o, m: False)
    for st in rets:
        v = st.ret
        cs = [e for e in st.events if e[0] == "call"]
        pr = [e for e in cs if e[2] == "self.predict"]
        ck = [e for e in cs if e[2] == "self._compute_kernel"]
        good = (len(pr) == 1 and len(ck) == 1 and pr[0][3] == (("var", "X"),) and ck[0][3] == (("var", "X"), ("var", "y"))
                and fx.strip(v) == fx.strip(("callres", None, "gemini_objective", (("callres", pr[0][1], "self.predict", pr[0][3], pr[0][4]),
                                                                                      ("callres", ck[0][1], "self._compute_kernel", ck[0][3], ck[0][4])), ())))
        ob(Kauri, "score", "== gemini_objective(self.predict(X), self._compute_kernel(X, y))", good, {"ret": fx.show(v)[:200]})
    obs += kauri_score_native()
    return obs


def kauri_score_native(seed=0):
    """B: Kauri.score on sub-batches (clusters absent from the batch, one-sample batches) against the objective written with plain loops"""
    import warnings
    from gemclus.tree import Kauri
    rs = np.random.RandomState(seed)
    X = np.vstack([rs.normal(size=(12, 2)) + c for c in ([0, 0], [6, 0], [0, 6], [6, 6])])
    bad = None
    try:
        with warnings.catch_warnings():
            warnings.simplefilter("ignore")
            m = Kauri(max_clusters=4, kernel="linear", random_state=seed).fit(X)
            lab = m.labels_
            batches = [np.arange(len(X))] + [np.flatnonzero(np.isin(lab, ks)) for ks in ([1, 2], [3], [0, 3], [2, 3], [1])] + [np.array([5]), np.array([40])]
            for idx in batches:
                if len(idx) == 0:
                    continue
                Xb = X[idx]
                yp = m.predict(Xb)
                Kb = Xb @ Xb.T
                ref = 0.0
                for k in set(int(v) for v in yp):
                    mem = [i for i in range(len(yp)) if yp[i] == k]
                    ref += sum(Kb[i, j] for i in mem for j in mem) / len(mem)
                got = m.score(Xb)
                if not (np.isfinite(got) and abs(got - ref) <= 1e-8 * (1 + abs(ref))) and bad is None:
                    bad = {"batch rows": [int(i) for i in idx[:10]], "clusters in the batch": sorted(set(int(v) for v in yp)), "score": float(got), "objective": float(ref)}
    except Exception as e:
        bad = {"exception": repr(e)[:200]}
    return [Ob("Kauri.score on sub-batches (clusters absent, single samples) == kernel-KMeans objective of predict(X) computed with plain loops",
               PROVED if bad is None else REFUTED, "native", "B", dict(bad or {}, replayed=bad is not None), fn="gemclus.tree.kauri.Kauri.score")]



def infer_frame():
    """FX frame of every _infer (all estimators, all paths): the forward pass reads only constructor options, the learnt parameters
    (the attributes _init_params creates) and what it wrote itself earlier in the same call -- nothing cached by an earlier call
    (a cache that survives set_params or a refit makes predictions depend on history)."""
    import inspect
    from .fit_loop import gradient_estimators
    obs = []
    for cls in gradient_estimators():
        fn = f"{cls.__module__}.{cls.__name__}._infer"
        hp = set(inspect.signature(cls.__init__).parameters) - {"self"}
        try:
            ini = fx.Interp(cls, inline_filter=lambda o, m: True, max_depth=6).run_method("_init_params")
            sts = fx.Interp(cls, inline_filter=lambda o, m: True, max_depth=6).run_method("_infer")
        except fx.FxUnsupported as e:
            obs.append(Ob(f"{cls.__name__}._infer: frame analysable", UNDECIDED, "fx", "P", {"why": str(e)}, fn=fn))
            continue
        learnt = {e[2] for st in ini for e in st.events if e[0] == "store" and e[1] == SELF}
        # helper methods the forward pass reaches through closures / map / reduce are interpreted on their own
        import re
        todo, helpers = ["_infer"], []
        while todo:
            src = inspect.getsource(getattr(cls, todo.pop()))
            for nm in re.findall(r"self\.(_[A-Za-z]\w*)\b", src):
                if nm not in helpers and nm != "_infer" and inspect.isfunction(getattr(cls, nm, None)):
                    helpers.append(nm)
                    todo.append(nm)
        helper_writes = set()
        for nm in helpers:
            try:
                hs = fx.Interp(cls, inline_filter=lambda o, m: True, max_depth=6).run_method(nm)
            except fx.FxUnsupported:
                continue
            sts = sts + hs
            helper_writes |= {e[2] for st in hs for e in st.events if e[0] == "store" and e[1] == SELF}
        pre, hidden = set(helper_writes), set()          # a helper of the forward pass that writes on the estimator is a cache
        for st in sts:
            seen = set()
            for e in st.events:
                if e[0] == "store" and e[1] == SELF:
                    seen.add(e[2])
                if e[0] == "read" and e[1] == SELF and e[2] not in seen and not callable(getattr(cls, e[2], None)):
                    pre.add(e[2])
                if e[0] == "call" and e[2] in ("getattr", "hasattr") and len(e[3]) >= 2 and e[3][0] == SELF and fx.is_const(e[3][1]) \
                        and e[3][1][1] not in seen:
                    hidden.add(str(e[3][1][1]))
        state = sorted((pre | hidden) - hp - learnt - {"n_clusters"})
        obs.append(Ob(f"{cls.__name__}._infer: reads only constructor options, learnt parameters and state written earlier in the same call",
                      PROVED if sts and learnt and not state else REFUTED, "fx-frame", "P", {"state read or cached": state, "learnt parameters": sorted(learnt), "helpers": helpers}, fn=fn))
    return obs
