"""Contracts on Kauri.fit (C08 greedy loop, C09 structural limits, C04 glue): FX data-flow obligations on the
real AST, for every iteration (loop state havocked).

  guard      the loop runs while last_gain > 0 and n_leaves < max_leaves and leaves_to_explore is not empty
  search     find_best_split(kernel, X, array(leaves_to_explore), Y, Z, n_clusters, max_clusters, n_leaves,
             min_samples_leaf, <max_features random features>)
  apply      only if the returned gain is > 0; left = samples of the leaf with x[feature] <= threshold, right = rest;
             Z[leaf, right] = 0, Z[n_leaves, right] = 1; Y[old cluster, leaf] = 0, Y[left_target, leaf] = 1,
             Y[right_target, n_leaves] = 1; tree_._add_child(leaf2node[leaf], split); leaf2node[leaf] = 2 n_leaves - 1,
             leaf2node[n_leaves] = 2 n_leaves; n_leaves += 1; n_clusters += 2 / 1 / 0 according to the targets
  enqueue    a child is (re)queued only under  depth(parent)+1 < max_depth  and  its own size >= min_samples_split;
             the root is queued only if it may be split at all (n >= min_samples_split)
  result     labels_ = (Y @ Z).argmax(0), leaves_ = Z.argmax(0)
  validation 2*min_samples_leaf > min_samples_split raises ValueError before any tree is built
"""
from .common import *  # noqa
from engine import fx

SELF = ("var", "self")


def _attr(o, a):
    return ("attr", o, a)


def _on(e, obj):
    """method name if the call event e is a method call on the object term obj (whatever the local name)"""
    f = e[6]
    return f[2] if isinstance(f, tuple) and f[0] == "attr" and f[1] == obj else None


def _depth_of_parent(gd_event, ev, leaf):
    """the node whose depth is asked is leaf2node[leaf] read BEFORE the dictionary is updated for the children"""
    a = gd_event[3]
    return len(a) == 1 and isinstance(a[0], tuple) and a[0][0] == "item" and a[0][1][:1] == ("dict",) and a[0][2] == leaf


def _opt_default(t, attr, value_when_none=False):
    """t is `attr if attr is not None else <default>` in any of its spellings (conditions are canonical: ("ite", attr is None, default, attr));
    returns the default term, or None when t has another form.  With value_when_none the historical operand order of the depth test
    (default first) is accepted as well -- both denote the same value."""
    if isinstance(t, tuple) and t[0] == "ite" and t[1] == ("cmp", ("Is",), (attr, fx.C(None))) and t[3] == attr:
        return t[2]
    return None


def obligations():
    from gemclus.tree import Kauri
    fn = "gemclus.tree.kauri.Kauri.fit"
    it = fx.Interp(Kauri, inline_filter=lambda o, m: False)
    try:
        sts = it.run_method("fit")
    except fx.FxUnsupported as e:
        return [Ob("Kauri.fit:analysable", UNDECIDED, "fx", "P", {"why": str(e)}, fn=fn)]
    agg = {}

    def ob(name, ok, det=None):
        cur = agg.get("Kauri.fit:" + name)
        if cur is None or (not ok and cur.status != REFUTED):
            agg["Kauri.fit:" + name] = Ob(f"Kauri.fit:{name}", PROVED if ok else REFUTED, "fx-dataflow", "P", det or {}, fn=fn)
    ob("linkage (every self.<method> resolves in the real MRO)", not it.unresolved, {"unresolved": sorted(set(it.unresolved))})
    raises = [s for s in sts if s.ended == "raise"]
    okr = len(raises) == 1
    if okr:
        r = raises[0]
        cond = ("cmp", ("Gt",), (("binop", "Mult", _attr(SELF, "min_samples_leaf"), fx.C(2)), _attr(SELF, "min_samples_split")))
        exc = [e for e in r.events if e[0] == "raise"][0][1]
        okr = (r.pc == [(cond, True)] and exc[:1] == ("callres",) and exc[2] == "ValueError"
               and not any(e[0] == "store" and e[2] in ("tree_", "labels_", "leaves_") for e in r.events))
    ob("2*min_samples_leaf > min_samples_split raises ValueError before any tree state is written", okr)
    for st in sts:
        if st.ended != "return":
            continue
        ev = st.events
        calls = [e for e in ev if e[0] == "call"]
        names = [e[2] for e in calls]
        ob("_validate_params() first, data validated with ensure_min_samples=min_samples_leaf",
           names[:1] == ["self._validate_params"] and any(e[2] == "validate_data" and dict(e[4]).get("ensure_min_samples") == _attr(SELF, "min_samples_leaf") for e in calls))
        guard = [e for e in ev if e[0] == "loop-guard"]
        if len(guard) != 1:
            ob("exactly one main loop", False)
            continue
        g = guard[0][2]
        L1 = guard[0][1]
        # The loop goes on while (i) the last gain was positive, (ii) the leaf budget is not exhausted and (iii) leaves remain to explore.
        # (i) is written either as a conjunct of the guard on the gain of the previous iteration (initially +inf), or as a `break`
        # right after the search when the gain just found is not positive -- the same stopping rule; (iii) in any spelling of
        # "the queue is not empty" (len(q) != 0, len(q) > 0, q).
        conj = list(g[2]) if g[0] == "boolop" and g[1] == "And" else [g]
        gain_c = [c_ for c_ in conj if c_[:2] == ("cmp", ("Gt",)) and c_[2][0][:1] == ("loopvar",) and c_[2][1] == fx.C(0)]
        leaf_c = [c_ for c_ in conj if c_[:2] == ("cmp", ("Lt",)) and c_[2][0][:1] == ("loopvar",) and c_ not in gain_c]
        queue = None
        rest = [c_ for c_ in conj if c_ not in gain_c and c_ not in leaf_c]
        if len(rest) == 1:
            c_ = rest[0]
            if c_[0] == "cmp" and c_[1] in (("NotEq",), ("Gt",)) and c_[2][0][:1] == ("callres",) and c_[2][0][2] == "len" and c_[2][1] == fx.C(0):
                queue = c_[2][0][3][0]
            elif c_[0] in ("loopvar", "list", "ite"):
                queue = c_
        gain_lv = gain_c[0][2][0] if len(gain_c) == 1 else None          # None: the `break` style
        okg = len(leaf_c) == 1 and queue is not None and len(gain_c) <= 1 and len(conj) == len(gain_c) + 2
        if okg and gain_lv is None:
            # break style: on every path where the gain just found is not positive the body breaks out of the loop at once
            brk = [e for e in ev if e[0] == "break"]
            okg = any(c_[:2] == ("cmp", ("Gt",)) and c_[2][1] == fx.C(0) for c_, _b in st.pc) and \
                all(bool(brk) for c_, b_ in st.pc if c_[:2] == ("cmp", ("Gt",)) and c_[2][1] == fx.C(0) and b_ is False)
        if okg:
            nlv_guard = leaf_c[0][2][0]
            ml = leaf_c[0][2][1]
            # the leaf budget is the user's max_leaves, and the NUMBER OF SAMPLES when none is given (nothing else caps the tree)
            dflt = fx.strip(_opt_default(ml, _attr(SELF, "max_leaves")))
            is_n = (isinstance(dflt, tuple) and ((dflt[0] == "item" and dflt[1][:1] == ("attr",) and dflt[1][2] == "shape" and dflt[2] == fx.C(0))
                                                  or (dflt[:1] == ("callres",) and dflt[2] == "len" and len(dflt[3]) == 1)))
            okg = dflt is not None and is_n
        ob("loop guard: last_gain > 0 and n_leaves < max_leaves (n when None) and the queue is not empty", okg, {"guard": fx.show(g)[:300]})
        if not okg:
            continue
        # initial values
        lg0 = gain_lv[3] if gain_lv is not None else _attr(("global", "np"), "inf")
        ob("initially last_gain = +inf, one leaf, one cluster", lg0 == _attr(("global", "np"), "inf") and nlv_guard[3] == fx.C(1))
        # root queue entry guarded by min_samples_split
        q0 = queue[3] if queue[0] == "loopvar" else queue
        # [0] if n >= min_samples_split else []   ==   [] if n < min_samples_split else [0]
        yes, no = (q0[2], q0[3]) if isinstance(q0, tuple) and q0[0] == "ite" and q0[1][:2] == ("cmp", ("GtE",)) else \
            ((q0[3], q0[2]) if isinstance(q0, tuple) and q0[0] == "ite" and q0[1][:2] == ("cmp", ("Lt",)) else (None, None))
        root_guarded = (yes is not None and q0[1][2][1] == _attr(SELF, "min_samples_split") and yes[0] == "list" and yes[1] == (fx.C(0),)
                        and no[0] == "list" and no[1] == ())
        if root_guarded:
            nterm = q0[1][2][0]      # number of samples: n from X.shape, or len(X)
            root_guarded = "shape" in fx.show(nterm) or "len(" in fx.show(nterm)
        ob("the root is queued only if it may be split (n_samples >= min_samples_split)", root_guarded, {"initial queue": fx.show(q0)[:200]})
        # limits set-up: the feature subset is drawn among the FEATURES (columns), max_features clamped to their number
        chs = [e for e in calls if e[2].endswith(".choice")]
        okc = len(chs) == 1
        if okc:
            ncols = ("item", ("attr", Xv0, "shape"), fx.C(1)) if False else None
            a0 = chs[0][3][0] if chs[0][3] else None
            size = dict(chs[0][4]).get("size")
            okc = (isinstance(a0, tuple) and a0[0] == "item" and a0[1][:1] == ("attr",) and a0[1][2] == "shape" and a0[2] == fx.C(1)
                   and dict(chs[0][4]).get("replace") == fx.C(False)
                   and isinstance(size, tuple) and size[0] == "ite" and size[1] == ("cmp", ("Is",), (_attr(SELF, "max_features"), fx.C(None)))
                   and size[2] == a0 and size[3][:1] == ("callres",) and size[3][2] == "min" and size[3][3][0] == a0)
        ob("feature subset: choice(n_features, size=min(n_features, max(max_features, 1)) or n_features, replace=False)", okc,
           {"call": fx.show(("callres", chs[0][1], chs[0][2], chs[0][3], chs[0][4]))[:300] if chs else None})
        fb = [e for e in calls if e[2] == "find_best_split"]
        ob("one split search per iteration", len(fb) == 1 and fb[0][5] == (L1,))
        if len(fb) != 1:
            continue
        a = fb[0][3]
        bs = ("callres", fb[0][1], "find_best_split", fb[0][3], fb[0][4])
        kern = [e for e in calls if e[2] == "self._compute_kernel"]
        Xv = a[1]
        ok_args = (len(a) == 10 and kern and a[0] == ("callres", kern[0][1], "self._compute_kernel", kern[0][3], kern[0][4])
                   and kern[0][3] == (Xv, ("var", "y")) and Xv[:1] == ("callres",) and Xv[2] == "validate_data"
                   and a[2][:1] == ("callres",) and a[2][2] in ("np.array", "np.asarray")
                   and a[5][:1] == ("loopvar",) and a[5] not in (gain_lv, nlv_guard) and a[6] == _attr(SELF, "max_clusters")
                   and a[7] == nlv_guard and a[8] == _attr(SELF, "min_samples_leaf"))      # a[7]: the leaf counter of the loop guard
        ob("find_best_split(kernel(X, y), X, array(queue), Y, Z, n_clusters, max_clusters, n_leaves, min_samples_leaf, features)", ok_args)
        # the candidate features handed to the search are exactly the drawn subset (cast to intp), nothing filtered out of it
        feat = a[9] if len(a) == 10 else None
        drawn = ("callres", chs[0][1], chs[0][2], chs[0][3], chs[0][4]) if chs else None
        okf = drawn is not None and (feat == drawn or (
            isinstance(feat, tuple) and feat[:1] == ("callres",) and (
                (feat[2].endswith(".astype") and [e for e in calls if e[1] == feat[1]][0][6] == ("attr", drawn, "astype"))
                or (feat[2] in ("np.asarray", "np.array", "np.ascontiguousarray") and feat[3][:1] == (drawn,)))))
        ob("the candidate features of the search are exactly the drawn subset (every drawn feature is scanned)", bool(okc and okf),
           {"features argument": fx.show(feat)[:200] if feat is not None else None})
        if not ok_args:
            continue
        Yt, Zt, nlv, ncv = a[3], a[4], a[7], a[5]
        # the gain tested by the loop guard is the gain of the split found in this iteration
        if gain_lv is not None:
            gv_out = st.env.get(gain_lv[2])
            ob("the gain tested by the loop guard is the gain of the split just found", gv_out is not None and gv_out[:1] == ("loopout",) and gv_out[3] == _attr(bs, "gain"),
               {"got": fx.show(gv_out)[:200] if gv_out is not None else None})
        else:
            # break style: the test is made on the gain attribute of the split just returned
            ob("the gain tested by the loop guard is the gain of the split just found",
               any(c_ == ("cmp", ("Gt",), (_attr(bs, "gain"), fx.C(0))) for c_, _b in st.pc), {"style": "break right after the search"})
        gain_pos = None
        for c_, b_ in st.pc:
            if c_ == ("cmp", ("Gt",), (_attr(bs, "gain"), fx.C(0))):
                gain_pos = b_
        body_muts = [e for e in ev if e[0] == "mutate" and e[3] and e[3][-1] == L1]
        if not gain_pos:
            ob("no state change when the best gain is not positive", not body_muts and not any(_on(e, queue) for e in calls))
            continue
        leaf = _attr(bs, "leaf")
        # left / right: the samples of the chosen leaf, split by the rule x[feature] <= threshold -- written with index arrays
        # (np.where + np.setxor1d) or with a boolean mask and its complement, which select the same samples
        wh = [e for e in calls if e[2] == "np.where"]
        sx_ = [e for e in calls if e[2] == "np.setxor1d"]
        ok_lr = len(wh) >= 1
        left = right = None
        if ok_lr:
            li = ("item", ("callres", wh[0][1], "np.where", wh[0][3], wh[0][4]), fx.C(0))
            cond0 = wh[0][3][0]
            ok_lr = cond0 == ("cmp", ("Eq",), (("item", Zt, leaf), fx.C(1)))
            rule = ("cmp", ("LtE",), (("item", Xv, ("tuple", (li, _attr(bs, "feature")))), _attr(bs, "threshold")))
            if len(wh) == 2 and len(sx_) == 1:
                lw = ("item", ("callres", wh[1][1], "np.where", wh[1][3], wh[1][4]), fx.C(0))
                left = ("item", li, lw)
                right = ("callres", sx_[0][1], "np.setxor1d", sx_[0][3], sx_[0][4])
                ok_lr = ok_lr and wh[1][3][0] == rule and sx_[0][3] == (li, left)
            elif len(wh) == 1 and not sx_:
                left = ("item", li, rule)
                right = ("item", li, ("unop", "Invert", rule))
            else:
                ok_lr = False
        ob("left = samples of the chosen leaf with x[feature] <= threshold; right = the other samples of the leaf", ok_lr)
        if not ok_lr:
            continue
        zm = [e[2] for e in body_muts if e[1] == Zt]
        ob("Z: the right samples leave the old leaf and enter leaf n_leaves",
           zm == [("setitem", ("tuple", (leaf, right)), fx.C(0)), ("setitem", ("tuple", (nlv, right)), fx.C(1))], {"got": [fx.show(x)[:160] for x in zm]})
        ym = [e[2] for e in body_muts if e[1] == Yt]
        ka = [e for e in calls if e[2].endswith(".argmax") and e[5] == (L1,)]
        kterm = ("callres", ka[0][1], ka[0][2], ka[0][3], ka[0][4]) if ka else None
        ok_y = (len(ym) == 3 and ym[0] == ("setitem", ("tuple", (kterm, leaf)), fx.C(0))
                and ym[1] == ("setitem", ("tuple", (_attr(bs, "left_target"), leaf)), fx.C(1))
                and ym[2] == ("setitem", ("tuple", (_attr(bs, "right_target"), nlv)), fx.C(1))
                and ka and ka[0][6] == ("attr", ("item", Yt, ("tuple", (("slice", fx.C(None), fx.C(None), fx.C(None)), leaf))), "argmax"))
        ob("Y: the old leaf goes to left_target, the new leaf n_leaves to right_target, the old assignment is cleared", ok_y,
           {"got": [fx.show(x)[:160] for x in ym]})
        # tree and leaf2node
        ac = [e for e in calls if e[2] == "self.tree_._add_child"]
        l2n = [e for e in body_muts if e[1][:1] == ("dict",)]
        ok_t = len(ac) == 1 and len(l2n) == 2
        if ok_t:
            d = l2n[0][1]
            ok_t = (ac[0][3] == (("item", d, leaf), bs) and not ac[0][4]      # exactly (node, split): no option that changes how the rule is stored
                    and l2n[0][2] == ("setitem", leaf, ("binop", "Sub", ("binop", "Mult", fx.C(2), nlv), fx.C(1)))
                    and l2n[1][2] == ("setitem", nlv, ("binop", "Mult", fx.C(2), nlv))
                    and ev.index(ac[0]) < ev.index(l2n[0]) and d[1] == ((fx.C(0), fx.C(0)),))
        ob("tree: _add_child(leaf2node[leaf], split), then leaf2node[leaf] = 2*n_leaves-1 and leaf2node[n_leaves] = 2*n_leaves", ok_t)
        # the rule stored in the tree is the rule that partitioned the samples: between the search and _add_child the split object
        # is only read (no method called on it, nothing stored into it), so Tree.predict routes with the (feature, threshold) fit used
        touched = [fx.show(e[6])[:80] for e in calls if isinstance(e[6], tuple) and e[6][:1] == ("attr",) and e[6][1] == bs]
        touched += [fx.show(e[2])[:80] for e in ev if e[0] == "mutate" and e[1] == bs]
        touched += [e[2] for e in ev if e[0] == "store" and len(e) > 4 and e[1] == bs]
        ob("the split handed to the tree is the split returned by the search, untouched (the stored rule is the rule that partitioned the samples)", not touched,
           {"calls / writes on the split object": touched})
        # enqueue sites
        rm = [e for e in calls if _on(e, queue) == "remove"]
        ob("the split leaf leaves the queue", len(rm) == 1 and rm[0][3] == (leaf,))
        # Semantic form (engine/fxz3.py, all integers): on this path the left child -- which keeps the leaf id -- is appended to the
        # queue iff depth(parent) + 1 < max_depth (n when None) and len(left) >= min_samples_split; the right child -- leaf n_leaves --
        # iff the same depth test and len(right) >= min_samples_split.  Nested ifs, one merged condition or a hoisted flag are alike.
        from engine import fxz3
        gd = [e for e in calls if e[2] == "self.tree_.get_depth"]
        apps = [e for e in calls if _on(e, queue) == "append"]
        qname = "a child is queued iff depth allows and ITS OWN size >= min_samples_split (left child keeps the leaf id, right child gets n_leaves)"
        other_q = [e[2] for e in calls if _on(e, queue) not in (None, "append", "remove")]
        other_q += [fx.show(e[2])[:60] for e in ev if e[0] == "mutate" and e[1] == queue]
        okd = len(gd) == 1
        ob("depth test: depth(parent) + 1 < max_depth (n when None)", okd and _depth_of_parent(gd[0], ev, leaf), {"get_depth calls": len(gd)})
        if not okd or other_q or any(len(e[3]) != 1 for e in apps):
            agg.setdefault("Kauri.fit:" + qname, Ob("Kauri.fit:" + qname, UNDECIDED, "fx-dataflow", "P",
                                                     {"why": "queue update not in the recognised form", "calls": other_q}, fn=fn))
            if agg["Kauri.fit:" + qname].status == PROVED:
                agg["Kauri.fit:" + qname] = Ob("Kauri.fit:" + qname, UNDECIDED, "fx-dataflow", "P", {"why": "queue update not in the recognised form"}, fn=fn)
        else:
            pd = ("callres", gd[0][1], gd[0][2], gd[0][3], gd[0][4])
            nrows = ("item", ("attr", Xv, "shape"), fx.C(0))
            max_depth = ("ite", ("cmp", ("Is",), (_attr(SELF, "max_depth"), fx.C(None))), nrows, _attr(SELF, "max_depth"))
            depth_ok = ("cmp", ("Lt",), (("binop", "Add", pd, fx.C(1)), max_depth))
            mss = _attr(SELF, "min_samples_split")
            tr = fxz3.Tr()
            verdicts, dets = [], {}
            appended = [e[3][0] for e in apps]
            for who, child, members in (("left", leaf, left), ("right", nlv, right)):
                cond = ("boolop", "And", (depth_ok, ("cmp", ("GtE",), (("callres", None, "len", (members,), ()), mss))))
                goal = tr.boo(cond) if appended.count(child) == 1 else (fxz3.z3.Not(tr.boo(cond)) if appended.count(child) == 0 else fxz3.z3.BoolVal(False))
                stt, dd = fxz3.entails(tr, st.pc, goal)
                verdicts.append(stt)
                dets[who] = {"appended": appended.count(child), **(dd or {})}
            extra = [fx.show(a)[:60] for a in appended if a not in (leaf, nlv)]
            stq = REFUTED if (REFUTED in verdicts or extra) else (UNDECIDED if UNDECIDED in verdicts else PROVED)
            cur = agg.get("Kauri.fit:" + qname)
            if cur is None or (stq != PROVED and cur.status == PROVED):
                agg["Kauri.fit:" + qname] = Ob("Kauri.fit:" + qname, stq, "fx-dataflow+z3", "P", dict(dets, other_appends=extra), fn=fn)
        # counters
        nl_out = st.env.get(nlv[2])
        ob("n_leaves += 1 per applied split", nl_out is not None and nl_out[:1] == ("loopout",) and nl_out[3] == ("binop", "Add", nlv, fx.C(1)))
        nc_out = st.env.get(ncv[2])
        lt, rt = _attr(bs, "left_target"), _attr(bs, "right_target")
        # semantic form: n_clusters_out == n_clusters + [left_target >= n_clusters] + [right_target >= n_clusters] for all integers, on this path
        # (an if / elif chain, a conditional increment and int(a) + int(b) are the same function)
        cname = "n_clusters += 2 / 1 / 0 when both / one / no target is a new cluster"
        if nc_out is None or nc_out[:1] != ("loopout",):
            ob(cname, False, {"got": fx.show(nc_out)[:200]})
        else:
            tr2 = fxz3.Tr()
            want_n = tr2.num(ncv) + fxz3.z3.If(tr2.num(lt) >= tr2.num(ncv), 1, 0) + fxz3.z3.If(tr2.num(rt) >= tr2.num(ncv), 1, 0)
            stc, dd = fxz3.entails(tr2, st.pc, tr2.num(nc_out[3]) == want_n)
            cur = agg.get("Kauri.fit:" + cname)
            if cur is None or (stc != PROVED and cur.status == PROVED):
                agg["Kauri.fit:" + cname] = Ob("Kauri.fit:" + cname, stc, "fx-dataflow+z3", "P", dict(dd or {}, got=fx.show(nc_out)[:200]), fn=fn)
        # result
        lab = [e for e in ev if e[0] == "store" and e[2] == "labels_"]
        okl = bool(lab) and lab[-1][3][:1] == ("callres",) and lab[-1][3][2].endswith(".argmax") and lab[-1][3][3] == (fx.C(0),)
        if okl:
            callee = [e for e in calls if e[1] == lab[-1][3][1]][0][6]
            okl = callee == ("attr", ("binop", "MatMult", Yt, Zt), "argmax")
        ob("labels_ = (Y @ Z).argmax(0)", okl)
        lv = [e for e in ev if e[0] == "store" and e[2] == "leaves_"]
        ob("leaves_ = Z.argmax(0)", bool(lv) and [e for e in calls if e[1] == lv[-1][3][1]][0][6] == ("attr", Zt, "argmax"))
        tr = [e for e in ev if e[0] == "store" and e[2] == "tree_"]
        ob("a fresh Tree() is created at each fit", len(tr) == 1 and tr[0][3][:1] == ("callres",) and tr[0][3][2] == "Tree" and not tr[0][4])
    from .forwarding import kauri_kernel_obligations
    return list(agg.values()) + tree_depth_obligations() + [o for o in kauri_kernel_obligations() if "stateless" in o.name]


def fresh_tree_obligations():
    """every fit starts from `Tree()`: a single root leaf of cluster 0 that shares no container with any tree built before --
    whatever was done to earlier trees (the node arrays are grown in place by _add_child).  History: build a tree, split it
    twice, build another one."""
    from gemclus.tree.kauri import Tree
    from .tree_predict import build_tree
    fn = "gemclus.tree.kauri.Tree.__init__"
    first = build_tree([0, 1], [0, 1], [0.5, 1.5])
    second = Tree()
    attrs = [a for a, v in vars(second).items() if isinstance(v, (list, dict, set, np.ndarray))]
    shared = [a for a in attrs if any(getattr(second, a) is v for v in vars(first).values())]
    single = (second.n_nodes == 1 and list(second.children_left) == [-1] and list(second.children_right) == [-1] and list(second.target) == [0]
              and all(len(getattr(second, a)) == 1 for a in attrs))
    ok = single and not shared
    return [Ob("Tree(): a new tree is a single root leaf of cluster 0 and shares no container with a tree built (and split) before it",
               PROVED if ok else REFUTED, "native-history", "P",
               {"history": "t1 = Tree(); two _add_child on t1; t2 = Tree()", "t2.n_nodes": second.n_nodes, "t2.children_left": list(second.children_left)[:9],
                "containers shared with t1": shared, "replayed": not ok}, fn=fn)]


def tree_depth_obligations():
    """Tree.get_depth (the callee of the depth test of Kauri.fit): for EVERY integer node, the root 0 included, the depth
    of that node; the whole-tree depth only when no node is given (FX, all tree sizes) + complete enumeration on the real class."""
    from gemclus.tree.kauri import Tree
    from .tree_predict import split_sequences, build_tree
    fn = "gemclus.tree.kauri.Tree.get_depth"
    sts = fx.Interp(Tree, inline_filter=lambda o, m: False).run_method("get_depth")
    node, dep = ("var", "node"), ("attr", SELF, "depths")
    isnone = ("cmp", ("Is",), (node, fx.C(None)))
    ok = len(sts) == 2 and all(st.ended == "return" for st in sts)
    for st in sts if ok else []:
        if st.pc == [(isnone, True)]:
            ok = ok and st.ret[:1] == ("callres",) and st.ret[2] == "max" and st.ret[3] == (dep,)
        elif st.pc == [(isnone, False)]:
            r = st.ret
            ok = ok and r[0] == "item" and r[1] == dep and fx.strip(r[2]) in (
                node, ("callres", None, "min", (("callres", None, "max", (node, fx.C(0)), ()), ("callres", None, "len", (dep,), ())), ()))
        else:
            ok = False
    obs = [Ob("Tree.get_depth: the only case split is `node is None` (whole-tree depth); any integer node, 0 included, gets depths[node]",
              PROVED if ok else REFUTED, "fx-dataflow", "P", {"paths": [[fx.show(c)[:80] for c, _ in st.pc] for st in sts]}, fn=fn)]
    obs += fresh_tree_obligations()
    if obs[-1].status != PROVED:
        # trees built one after the other are not independent: the enumeration below (many trees in one process) would measure
        # that defect, not get_depth
        obs.append(Ob("Tree.get_depth(i) == number of edges from the root to i, for every node of every tree with <= 4 leaves (complete enumeration)",
                      UNDECIDED, "enumeration", "P", {"why": "a new Tree() is not a fresh single-leaf tree (see that obligation)"}, fn=fn))
        return obs
    bad = None
    n = 0
    for seq in split_sequences(4):
        t = build_tree(seq, [0] * len(seq), [0.0] * len(seq))
        ref = {0: 0}
        for i in range(t.n_nodes):
            if t.children_left[i] != -1:
                ref[t.children_left[i]] = ref[t.children_right[i]] = ref[i] + 1
        for i in range(t.n_nodes):
            n += 1
            if t.get_depth(i) != ref[i]:
                bad = bad or {"splits": list(seq), "node": i, "got": t.get_depth(i), "want": ref[i]}
        if t.get_depth() != max(ref.values()):
            bad = bad or {"splits": list(seq), "node": None, "got": t.get_depth(), "want": max(ref.values())}
    obs.append(Ob("Tree.get_depth(i) == number of edges from the root to i, for every node of every tree with <= 4 leaves (complete enumeration)",
                  PROVED if bad is None else REFUTED, "enumeration", "P", {"cases": n, "native": bad, "replayed": bad is not None}, fn=fn))
    return obs
