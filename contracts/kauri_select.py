"""Lemma B of C08 (selection): the running-best logic of compute_all_splits returns the maximum.

Merge-mode symbolic execution (both branches of every `if` executed, states joined with ite; the loop over
k_prime unrolled for the concrete n_clusters) of the de-cythonised compute_all_splits, with ALL stocks free real
symbols and best.gain = g0 symbolic.  ensures: final gain == max(g0, max over the admissible candidates of the
code's own gain expression), where the admissible candidates are enumerated from the property statement:
  double star  iff n_clusters < K_max - 1 and the leaf is not its whole cluster
  both stars   iff n_clusters < K_max
  both switches to every other cluster
  every ordered reallocation pair k_l != k_r of other clusters iff n_clusters >= 3 and the leaf is not its whole cluster
and the recorded targets are those of a maximiser.  One z3 QF_LRA query per configuration.
(-inf initialisations are modelled by a sentinel below every gain; assumption stated in the evidence.)
"""
import ast
import time
from fractions import Fraction as Q

import z3

from .common import *  # noqa
from engine import decython, xcheck

NEG = z3.RealVal(-10 ** 9)


class Arr:
    def __init__(self, f):
        self.f = f

    def get(self, idx):
        return self.f(idx)


def isz(x):
    return isinstance(x, z3.ExprRef)


def merge(c, a, b):
    if a is b:
        return a
    if not (isz(a) or isinstance(a, (int, float))) or not (isz(b) or isinstance(b, (int, float))):
        return a            # decision / leaf bookkeeping (tuples, None): not part of the obligation
    if isinstance(a, (int, float)) and isinstance(b, (int, float)) and not isinstance(a, bool) and a == b:
        return a
    if isinstance(a, bool) or isinstance(b, bool) or (isz(a) and z3.is_bool(a)) or (isz(b) and z3.is_bool(b)):
        return z3.If(c, a if isz(a) else z3.BoolVal(a), b if isz(b) else z3.BoolVal(b))
    ta = a if isz(a) else (z3.IntVal(a) if isinstance(a, int) else z3.RealVal(a))
    tb = b if isz(b) else (z3.IntVal(b) if isinstance(b, int) else z3.RealVal(b))
    if ta.sort() != tb.sort():
        ta = z3.ToReal(ta) if ta.sort() == z3.IntSort() else ta
        tb = z3.ToReal(tb) if tb.sort() == z3.IntSort() else tb
    return z3.If(c, ta, tb)


class Cont(Exception):
    pass


class Unsupported(Exception):
    pass


def ev(e, env):
    if isinstance(e, ast.Constant):
        return e.value
    if isinstance(e, ast.Name):
        return env[e.id]
    if isinstance(e, ast.UnaryOp):
        v = ev(e.operand, env)
        if isinstance(e.op, ast.USub):
            return -v
        if isinstance(e.op, ast.UAdd):
            return v
        if isinstance(e.op, ast.Not):
            return z3.Not(v) if isz(v) else (not v)
    if isinstance(e, ast.Attribute):
        s = ast.unparse(e)
        if s == "np.inf":
            return -NEG
        if s == "best_split.gain":
            return env["best.gain"]
    if isinstance(e, ast.BinOp):
        a, b = ev(e.left, env), ev(e.right, env)
        if isinstance(e.op, ast.Add):
            return a + b
        if isinstance(e.op, ast.Sub):
            return a - b
        if isinstance(e.op, ast.Mult):
            return a * b
        if isinstance(e.op, ast.Div):
            if isinstance(a, int) and isinstance(b, int):
                return z3.RealVal(str(Q(a, b)))
            return a / b
    if isinstance(e, ast.Subscript):
        base = ev(e.value, env)
        idx = ev(e.slice, env) if not isinstance(e.slice, ast.Tuple) else tuple(ev(x, env) for x in e.slice.elts)
        return base.get(idx)
    if isinstance(e, ast.Compare) and len(e.ops) == 1:
        a = ev(e.left, env)
        b = ev(e.comparators[0], env)
        op = type(e.ops[0])
        return {ast.Lt: lambda: a < b, ast.LtE: lambda: a <= b, ast.Gt: lambda: a > b, ast.GtE: lambda: a >= b,
                ast.Eq: lambda: a == b, ast.NotEq: lambda: a != b}[op]()
    if isinstance(e, ast.BoolOp):
        vs = [ev(v, env) for v in e.values]
        if all(isinstance(v, bool) for v in vs):
            return all(vs) if isinstance(e.op, ast.And) else any(vs)
        vs = [v if isz(v) else z3.BoolVal(v) for v in vs]
        return z3.And(*vs) if isinstance(e.op, ast.And) else z3.Or(*vs)
    if isinstance(e, ast.Tuple):
        return tuple(ev(x, env) for x in e.elts)
    if isinstance(e, ast.Call) and ast.unparse(e.func) == "range":
        return range(*[ev(a, env) for a in e.args])
    raise Unsupported(ast.dump(e)[:160])


def assign(t, v, env):
    if isinstance(t, ast.Name):
        env[t.id] = v
    elif isinstance(t, ast.Tuple):
        for tt, vv in zip(t.elts, v):
            assign(tt, vv, env)
    else:
        raise Unsupported("assignment target")


def run(stmts, env):
    for s in stmts:
        if isinstance(s, ast.Expr):
            if isinstance(s.value, ast.Constant):
                continue
            c = s.value
            f = ast.unparse(c.func)
            args = [ev(a, env) for a in c.args]
            if f == "best_split.set_gain":
                env["best.gain"] = args[0]
                env["trace"].append(("gain",))
            elif f == "best_split.set_targets":
                env["best.lt"], env["best.rt"] = args
            elif f == "best_split.set_decision":
                env["best.dec"] = (args[0], args[1])
            elif f == "best_split.set_leaf":
                env["best.leaf"] = args[0]
            else:
                raise Unsupported(f)
        elif isinstance(s, ast.Assign):
            assign(s.targets[0], ev(s.value, env), env)
        elif isinstance(s, ast.AugAssign):
            v = ev(s.value, env)
            cur = env[s.target.id]
            env[s.target.id] = {ast.Add: lambda: cur + v, ast.Sub: lambda: cur - v}[type(s.op)]()
        elif isinstance(s, ast.If):
            c = ev(s.test, env)
            if isinstance(c, bool):
                run(s.body if c else s.orelse, env)
            else:
                e1 = dict(env)
                e2 = dict(env)
                run(s.body, e1)
                run(s.orelse, e2)
                for k in set(e1) | set(e2):
                    if k == "trace":
                        continue
                    if k in e1 and k in e2:
                        env[k] = merge(c, e1[k], e2[k])
        elif isinstance(s, ast.For):
            for v in ev(s.iter, env):
                env[s.target.id] = v
                try:
                    run(s.body, env)
                except Cont:
                    pass
        elif isinstance(s, ast.Continue):
            raise Cont()
        else:
            raise Unsupported(type(s).__name__)


def sizes(ncl):
    return [7 + 3 * i for i in range(ncl)]


def switch_expr(env, ncl, k, side, kp):
    """the gain of sending one side of the split to cluster kp, in the closed form the code uses (Lemma A
    proves this form equal to the real increase)"""
    cs = sizes(ncl)
    size = env["split_size"] if side == "l" else env["n_leaf"] - env["split_size"]
    sq = env["sl_square"] if side == "l" else env["sr_square"]
    cl = env["sl_clusters"] if side == "l" else env["sr_clusters"]
    dk, dkp = cs[k] - size, cs[kp] + size
    r = lambda a, b: z3.RealVal(str(Q(a, b)))
    return (sq * (r(1, dkp) + r(1, dk)) + env["gamma"].get((k, k)) * (r(1, dk) - r(1, cs[k])) - 2 * cl.get(k) * r(1, dk)
            + env["gamma"].get((kp, kp)) * (r(1, dkp) - r(1, cs[kp])) + 2 * cl.get(kp) * r(1, dkp))


def configuration(fn_node, ncl, Kmax, k, whole):
    cs = sizes(ncl)
    n_leaf = cs[k] if whole else 4
    split = 3 if whole else 2
    R = z3.Real
    env = {"best.gain": R("g0"), "best.lt": z3.IntVal(-1), "best.rt": z3.IntVal(-1), "best.dec": None, "best.leaf": None, "trace": [],
           "sl_square": R("sl2"), "sr_square": R("sr2"), "leaf_square": R("lf2"),
           "sl_clusters": Arr(lambda i: R(f"slc{i}")), "sr_clusters": Arr(lambda i: R(f"src{i}")),
           "cluster_sizes": Arr(lambda i: cs[i]), "gamma": Arr(lambda ij: R(f"gam{ij[0]}_{ij[1]}")),
           "omega": Arr(lambda ij: R(f"om{ij[0]}_{ij[1]}")),
           "n_leaf": n_leaf, "n_clusters": ncl, "K_max": Kmax, "k": k, "leaf_id": 0, "split_size": split, "feature_id": 0,
           "threshold": R("thr"), "np": None}
    run(fn_node.body, env)
    cands = []
    if ncl < Kmax - 1 and not whole:
        cands.append(("double-star", env["double_star_gain"], (ncl, ncl + 1)))
    if ncl < Kmax:
        cands += [("star-left", env["left_star"], (ncl, k)), ("star-right", env["right_star"], (k, ncl))]
    if ncl >= 2:
        L = {kp: switch_expr(env, ncl, k, "l", kp) for kp in range(ncl) if kp != k}
        Rr = {kp: switch_expr(env, ncl, k, "r", kp) for kp in range(ncl) if kp != k}
        for kp in L:
            cands += [(f"switch-left->{kp}", L[kp], (kp, k)), (f"switch-right->{kp}", Rr[kp], (k, kp))]
        if ncl >= 3 and not whole:
            corr = env["corrective_term"]
            for a in L:
                for b in Rr:
                    if a != b:
                        cands.append((f"reallocation {a}/{b}", L[a] + Rr[b] + corr, (a, b)))
    return env, cands


def obligations(tier):
    fn = "gemclus.tree._utils.compute_all_splits"
    src = decython.extracted_source()
    import warnings
    with warnings.catch_warnings():
        warnings.simplefilter("ignore", SyntaxWarning)
        mod = ast.parse(src)
    nodes = [n for n in mod.body if isinstance(n, ast.FunctionDef) and n.name == "compute_all_splits"]
    if len(nodes) != 1:
        return [Ob("lemmaB: compute_all_splits present in _utils.pyx", REFUTED, "extract", "P", {}, fn=fn)]
    node = nodes[0]
    obs = []
    maxc = 4 if tier == "quick" else 5
    for ncl in range(1, maxc + 1):
        for extra in (0, 1, 2):
            Kmax = ncl + extra
            for k in range(ncl):
                for whole in (False, True):
                    name = f"lemmaB[n_clusters={ncl},K_max={Kmax},k={k},leaf is {'the whole' if whole else 'part of its'} cluster]: chosen gain == max(previous best, every admissible candidate)"
                    t0 = time.time()
                    try:
                        env, cands = configuration(node, ncl, Kmax, k, whole)
                    except Unsupported as e:
                        obs.append(Ob(name, UNDECIDED, "merge-exec", "P", {"why": "outside the merge-mode subset: " + str(e)}, fn=fn))
                        continue
                    except KeyError as e:
                        obs.append(Ob(name, UNDECIDED, "merge-exec", "P", {"why": f"expected local {e} not defined by the code"}, fn=fn))
                        continue
                    final = env["best.gain"]
                    g0 = z3.Real("g0")
                    s = z3.Solver()
                    s.set("timeout", 60000)
                    for nm, c, tg in cands:
                        s.add(c > NEG + 1)
                    s.add(g0 > NEG + 1)
                    mx = g0
                    for nm, c, tg in cands:
                        mx = z3.If(c > mx, c, mx)
                    # targets of a maximiser: if some candidate strictly beats g0, the recorded targets are those
                    # of a candidate whose gain equals the final gain
                    tgt_ok = z3.Or([z3.And(final == c, env["best.lt"] == tg[0], env["best.rt"] == tg[1]) for nm, c, tg in cands]
                                   + [z3.And(final == g0, env["best.lt"] == -1, env["best.rt"] == -1)])
                    s.push()
                    s.add(final != mx)
                    r = s.check()
                    det = {"candidates": [nm for nm, _, _ in cands]}
                    st = PROVED if r == z3.unsat else (REFUTED if r == z3.sat else UNDECIDED)
                    if r == z3.unsat:
                        det["xcheck"] = xcheck.second_opinion(s)
                        if det["xcheck"].startswith("DISAGREE"):
                            st = UNDECIDED
                    if r == z3.sat:
                        m = s.model()
                        det["counter_model"] = {str(d): str(m[d]) for d in m.decls()}
                        det["final"] = str(m.eval(final))
                        det["max"] = str(m.eval(mx))
                        det["candidate_values"] = {nm: str(m.eval(c)) for nm, c, _ in cands}
                    s.pop()
                    obs.append(Ob(name, st, "z3-LRA", "P", det, time.time() - t0, fn))
                    if cands:
                        t1 = time.time()
                        s.add(z3.Not(tgt_ok))
                        r2 = s.check()
                        st2 = PROVED if r2 == z3.unsat else (REFUTED if r2 == z3.sat else UNDECIDED)
                        det2 = {}
                        if r2 == z3.unsat:
                            det2["xcheck"] = xcheck.second_opinion(s)
                            if det2["xcheck"].startswith("DISAGREE"):
                                st2 = UNDECIDED
                        obs.append(Ob(name.replace("chosen gain == max(previous best, every admissible candidate)",
                                                   "recorded targets are those of a candidate attaining the chosen gain"),
                                      st2, "z3-LRA", "P", det2, time.time() - t1, fn))
    return obs
