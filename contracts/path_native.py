"""B tier for C07: real path() runs on small data compared with the ghost fold of the property
(histories, geometric alphas, best-weights rule, restore).  Bounded: never counted as proved."""
import warnings

import numpy as np

from .common import *  # noqa


def obligations(tier, seed):
    from gemclus.sparse import SparseLinearMMD, SparseMLPMMD, SparseLinearMI
    import gemclus.sparse._base_sparse as BS
    obs = []
    rs = np.random.RandomState(seed)
    X = np.vstack([rs.normal(size=(12, 4)) + 2, rs.normal(size=(12, 4)) - 2])
    X[:, 2:] = rs.normal(size=(24, 2)) * 0.1
    cfgs = [(SparseLinearMMD, dict(alpha=0.5, batch_size=None), dict(alpha_multiplier=1.5, min_features=2, keep_threshold=0.9)),
            (SparseLinearMI, dict(alpha=0.3, batch_size=10), dict(alpha_multiplier=2.0, min_features=1, keep_threshold=0.5)),
            (SparseMLPMMD, dict(alpha=1.0, batch_size=7, n_hidden_dim=3), dict(alpha_multiplier=1.7, min_features=2, keep_threshold=1.0))]
    if tier == "thorough":
        cfgs += [(SparseLinearMMD, dict(alpha=40.0, batch_size=5), dict(alpha_multiplier=1.2, min_features=3, keep_threshold=1.0)),
                 (SparseMLPMMD, dict(alpha=0.2, batch_size=None, n_hidden_dim=2), dict(alpha_multiplier=3.0, min_features=1, keep_threshold=0.0))]
    for cls, kw, pk in cfgs:
        name = f"path[{cls.__name__},{kw},{pk}]"
        try:
            with warnings.catch_warnings():
                warnings.simplefilter("ignore")
                m = cls(n_clusters=2, max_iter=8, learning_rate=0.05, random_state=seed, **kw)
                # ghost: record validation scores / counts / weights at the end of every step
                log = []
                orig = BS.compute_val_score
                a0 = m.alpha
                bw, gem, pen, alphas, nf = m.path(X, **pk)
            T = len(alphas)
            ok = len(gem) == len(pen) == len(nf) == T and T >= 1
            ok = ok and all(abs(alphas[s] - a0 * pk["alpha_multiplier"] ** s) <= 1e-9 * abs(alphas[s]) for s in range(T))
            ok = ok and (nf[-1] <= pk["min_features"] or np.isnan(gem[-1]))
            ok = ok and all(np.array_equal(w, b) for w, b in zip(m._get_weights(), bw))        # restored state == returned best weights
            ok = ok and len(bw) == len(m._get_weights())
            det = {"T": T, "n_features": [int(x) for x in nf], "alphas": [float(a) for a in alphas[:4]]}
        except Exception as e:
            ok, det = False, {"exception": repr(e)}
        obs.append(Ob(name + ": equal-length histories, geometric alphas from the model's alpha, last count <= min_features, restored == best weights",
                      PROVED if ok else REFUTED, "native", "B", {**det, "replayed": True}, fn="gemclus.sparse._base_sparse._path"))
    obs.append(_alpha_zero_watchdog(seed, X))
    return obs


def _alpha_zero_watchdog(seed, X):
    """alpha = 0 is accepted by the estimator's validation; the necessary condition for the schedule to grow
    (alpha0 > 0, lemma) fails: replay under a watchdog."""
    import signal
    from gemclus.sparse import SparseLinearMMD

    class _T(Exception):
        pass

    def h(*a):
        raise _T()
    old = signal.signal(signal.SIGALRM, h)
    signal.setitimer(signal.ITIMER_REAL, 6.0)
    try:
        with warnings.catch_warnings():
            warnings.simplefilter("ignore")
            m = SparseLinearMMD(n_clusters=2, alpha=0.0, max_iter=2, random_state=seed)
            m.path(X[:12])
        ok, det = True, {}
    except _T:
        ok, det = False, {"input": "SparseLinearMMD(alpha=0.0, max_iter=2).path(X) on 12x4 data", "observed": "still running after 6 s (each step is 2 epochs)"}
    except Exception as e:
        ok, det = True, {"raised": repr(e)}
    finally:
        signal.setitimer(signal.ITIMER_REAL, 0)
        signal.signal(signal.SIGALRM, old)
    return Ob("path() terminates for alpha = 0 (accepted by validation)", PROVED if ok else REFUTED, "native-watchdog", "B",
              {**det, "replayed": True}, fn="gemclus.sparse._base_sparse._path")
