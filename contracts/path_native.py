"""B tier for C07: real path() runs on small data compared with the ghost fold of the property
(histories, geometric alphas, best-weights rule, restore).  Bounded: never counted as proved."""
import warnings

import numpy as np

from .common import *  # noqa


def obligations(tier, seed):
    from gemclus.sparse import SparseLinearMMD, SparseMLPMMD, SparseLinearMI
    import gemclus.sparse._base_sparse as BS
    obs = []
    rs = np.random.RandomState(seed)
    X = np.vstack([rs.normal(size=(12, 4)) + 2, rs.normal(size=(12, 4)) - 2])
    X[:, 2:] = rs.normal(size=(24, 2)) * 0.1
    cfgs = [(SparseLinearMMD, dict(alpha=0.5, batch_size=None), dict(alpha_multiplier=1.5, min_features=2, keep_threshold=0.9)),
            (SparseLinearMI, dict(alpha=0.3, batch_size=10), dict(alpha_multiplier=2.0, min_features=1, keep_threshold=0.5)),
            (SparseMLPMMD, dict(alpha=1.0, batch_size=7, n_hidden_dim=3), dict(alpha_multiplier=1.7, min_features=2, keep_threshold=1.0))]
    if tier == "thorough":
        cfgs += [(SparseLinearMMD, dict(alpha=40.0, batch_size=5), dict(alpha_multiplier=1.2, min_features=3, keep_threshold=1.0)),
                 (SparseMLPMMD, dict(alpha=0.2, batch_size=None, n_hidden_dim=2), dict(alpha_multiplier=3.0, min_features=1, keep_threshold=0.0))]
    for cls, kw, pk in cfgs:
        name = f"path[{cls.__name__},{kw},{pk}]"
        try:
            with warnings.catch_warnings():
                warnings.simplefilter("ignore")
                m = cls(n_clusters=2, max_iter=8, learning_rate=0.05, random_state=seed, **kw)
                # ghost: record validation scores / counts / weights at the end of every step
                log = []
                orig = BS.compute_val_score
                a0 = m.alpha
                bw, gem, pen, alphas, nf = m.path(X, **pk)
            T = len(alphas)
            ok = len(gem) == len(pen) == len(nf) == T and T >= 1
            ok = ok and all(abs(alphas[s] - a0 * pk["alpha_multiplier"] ** s) <= 1e-9 * abs(alphas[s]) for s in range(T))
            ok = ok and (nf[-1] <= pk["min_features"] or np.isnan(gem[-1]))
            ok = ok and all(np.array_equal(w, b) for w, b in zip(m._get_weights(), bw))        # restored state == returned best weights
            ok = ok and len(bw) == len(m._get_weights())
            det = {"T": T, "n_features": [int(x) for x in nf], "alphas": [float(a) for a in alphas[:4]]}
        except Exception as e:
            ok, det = False, {"exception": repr(e)}
        obs.append(Ob(name + ": equal-length histories, geometric alphas from the model's alpha, last count <= min_features, restored == best weights",
                      PROVED if ok else REFUTED, "native", "B", {**det, "replayed": True}, fn="gemclus.sparse._base_sparse._path"))
    obs += _last_score_is_the_models(seed, X, tier)
    obs.append(_dynamic_empty_selection())
    obs.append(_alpha_zero_watchdog(seed, X))
    return obs


def _last_score_is_the_models(seed, X, tier):
    """without restoration (dynamic mode, or restore_best_weights=False) the model ends in the state of the last step: the
    last recorded score must be the validation score of THAT model -- the size-weighted mean, over consecutive blocks, of the
    objective of its predictions with the affinity of the block, taken over the model's own current selection in dynamic mode.
    Recomputed here without compute_val_score."""
    from gemclus.sparse import SparseLinearMMD, SparseMLPMMD
    obs = []
    cfgs = [(SparseLinearMMD, dict(alpha=0.5, batch_size=None, dynamic=True), dict(alpha_multiplier=1.5, min_features=2)),
            (SparseLinearMMD, dict(alpha=0.2, batch_size=10, dynamic=True), dict(alpha_multiplier=1.3, min_features=2)),
            (SparseMLPMMD, dict(alpha=1.0, batch_size=7, n_hidden_dim=3, dynamic=True), dict(alpha_multiplier=1.7, min_features=2)),
            (SparseLinearMMD, dict(alpha=0.5, batch_size=9, dynamic=False), dict(alpha_multiplier=1.5, min_features=2, restore_best_weights=False))]
    for cls, kw, pk in cfgs:
        name = f"path[{cls.__name__},{kw},{pk}]: the last recorded score is the validation score of the model the path ends with"
        try:
            with warnings.catch_warnings():
                warnings.simplefilter("ignore")
                m = cls(n_clusters=2, max_iter=6, learning_rate=0.05, random_state=seed, **kw)
                bw, gem, pen, alphas, nf = m.path(X, **pk)
                g = m.get_gemini()
                cols = m.get_selection() if kw.get("dynamic") else np.arange(X.shape[1])
                b = kw["batch_size"] or len(X)
                tot = 0.0
                for j in range(0, len(X), b):
                    Xb = X[j:j + b]
                    tot += float(g(m.predict_proba(Xb), g.compute_affinity(Xb[:, cols]))) * len(Xb)
                want = tot / len(X)
            ok = bool(np.isnan(gem[-1])) or abs(gem[-1] - want) <= 1e-9 * (1 + abs(want))
            det = {"recorded": float(gem[-1]), "recomputed": float(want), "selection at the end": [int(c) for c in m.get_selection()],
                   "n_features history": [int(x) for x in nf]}
        except Exception as e:
            if kw.get("dynamic") and len(m.get_selection()) == 0:
                # the selection emptied inside a step and the validation score raised: the separate obligation below (finding D17)
                obs.append(Ob(name, UNDECIDED, "native", "I", {"why": "the selection became empty inside a step: see the obligation on dynamic paths "
                                                                        "whose last features vanish together", "exception": repr(e)[:200]},
                              fn="gemclus.sparse._base_sparse._path"))
                continue
            ok, det = False, {"exception": repr(e)}
        obs.append(Ob(name, PROVED if ok else REFUTED, "native", "B", {**det, "replayed": True}, fn="gemclus.sparse._base_sparse._path"))
    return obs


def _dynamic_empty_selection():
    """a fixed input (independent of the run's seed) on which the last two features are eliminated in the same step of a
    dynamic path: path() must still return its histories."""
    from gemclus.sparse import SparseLinearMMD
    rs = np.random.RandomState(1)
    X = np.vstack([rs.normal(size=(12, 4)) + 2, rs.normal(size=(12, 4)) - 2])
    X[:, 2:] = rs.normal(size=(24, 2)) * 0.1
    inp = "SparseLinearMMD(n_clusters=2, max_iter=6, learning_rate=0.05, random_state=1, alpha=0.3, batch_size=10, dynamic=True).path(X, alpha_multiplier=1.6, min_features=1), X = 24x4 blobs of RandomState(1)"
    try:
        with warnings.catch_warnings():
            warnings.simplefilter("ignore")
            m = SparseLinearMMD(n_clusters=2, max_iter=6, learning_rate=0.05, random_state=1, alpha=0.3, batch_size=10, dynamic=True)
            bw, gem, pen, alphas, nf = m.path(X, alpha_multiplier=1.6, min_features=1)
        ok = len(gem) == len(pen) == len(alphas) == len(nf) and nf[-1] <= 1
        det = {"n_features": [int(x) for x in nf]}
    except Exception as e:
        ok, det = False, {"input": inp, "exception": repr(e)[:300], "selection when it raised": [int(c) for c in m.get_selection()]}
    return Ob("dynamic path() returns its histories when the last features are eliminated in the same step (empty selection)",
              PROVED if ok else REFUTED, "native", "B", {**det, "replayed": True}, fn="gemclus.sparse._base_sparse._path")


def _alpha_zero_watchdog(seed, X):
    """alpha = 0 is accepted by the estimator's validation; the necessary condition for the schedule to grow
    (alpha0 > 0, lemma) fails: replay under a watchdog."""
    import signal
    from gemclus.sparse import SparseLinearMMD

    class _T(Exception):
        pass

    def h(*a):
        raise _T()
    old = signal.signal(signal.SIGALRM, h)
    signal.setitimer(signal.ITIMER_REAL, 6.0)
    try:
        with warnings.catch_warnings():
            warnings.simplefilter("ignore")
            m = SparseLinearMMD(n_clusters=2, alpha=0.0, max_iter=2, random_state=seed)
            m.path(X[:12])
        ok, det = True, {}
    except _T:
        ok, det = False, {"input": "SparseLinearMMD(alpha=0.0, max_iter=2).path(X) on 12x4 data", "observed": "still running after 6 s (each step is 2 epochs)"}
    except Exception as e:
        ok, det = True, {"raised": repr(e)}
    finally:
        signal.setitimer(signal.ITIMER_REAL, 0)
        signal.signal(signal.SIGALRM, old)
    return Ob("path() terminates for alpha = 0 (accepted by validation)", PROVED if ok else REFUTED, "native-watchdog", "B",
              {**det, "replayed": True}, fn="gemclus.sparse._base_sparse._path")
