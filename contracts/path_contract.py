"""Contracts for C07 on sparse._base_sparse._path and the path() wrappers (FX term interpretation of the real
AST; small z3 lemmas for the inductions).

Per iteration of the outer loop (state at the loop head havocked, so the statement holds for every step):
  defaults     out-of-range alpha_multiplier / keep_threshold / min_features are replaced by 1.05 / 0.9 / 2 with a
               warning, in-range values are used untouched
  init         alpha0 = clf.alpha read before clf.set_params(alpha=0); clf.fit(X, y); best score = validation score of
               that fit; best_weights = copies of the weights; optimiser re-created over the same weights list
  history      a completed step appends exactly once to each of alphas / n_features / geminis / penalties:
               the alpha the step trained with, clf._n_selected_features().item(), the last epoch's validation
               score, clf._group_lasso_penalty() -- with no weight update, fit or parameter change between the last
               epoch and these observations nor before the next evaluation of the loop guard;
               a NaN step appends nothing and leaves the loop; alpha' = alpha * multiplier
  best fold    best' = score if score >= best and all features selected else best;
               best_weights' = copies of the current weights if score >= keep_threshold * best' else unchanged
  inner loop   i increases by one per epoch (bounded by max_iter), the epoch body is the C03 training step
  result       (best_weights, geminis, penalties, alphas, n_features)
The induction lemmas (equal lengths, alphas[s] = alpha0 * m^s, last count <= min_features on normal exit) are
discharged by z3 from these per-step facts.
"""
import z3

from .common import *  # noqa
from engine import fx, xcheck

CLF = ("var", "clf")
MUTATORS = ("clf._update_weights", "clf.fit", "clf.set_params", "np.copyto", "clf.optimiser_.update_params")


def _is_copy_of_elem(t, weights, calls):
    """t is <element of weights>.copy() (the comprehension variable may have any name)"""
    if not (isinstance(t, tuple) and t[:1] == ("callres",) and t[2].endswith(".copy") and not t[3]):
        return False
    ev = [e for e in calls if e[1] == t[1]]
    return bool(ev) and ev[0][6] == ("attr", ("iter", weights, "comp"), "copy")


def _decided(st, term):
    for c, b in st.pc:
        if c == term:
            return b
    return None


def _find_pc(st, pred):
    for c, b in st.pc:
        if pred(c):
            return c, b
    return None, None


def path_obligations():
    from gemclus.sparse import _base_sparse as BS
    fn = "gemclus.sparse._base_sparse._path"
    it = fx.Interp(None)
    try:
        sts = it.run_function(BS._path)
    except fx.FxUnsupported as e:
        return [Ob("_path:analysable", UNDECIDED, "fx", "P", {"why": str(e)}, fn=fn)]
    agg = {}

    def ob(name, ok, det=None):
        cur = agg.get(name)
        if cur is None or (not ok and cur.status == PROVED):
            agg[name] = Ob(f"_path:{name}", PROVED if ok else REFUTED, "fx-dataflow", "P", det or {}, fn=fn)
    ob("every path returns (no explicit raise)", all(s.ended == "return" for s in sts), {"paths": len(sts)})
    V = lambda n: ("var", n)
    for st in sts:
        if st.ended != "return":
            continue
        ev = st.events
        calls = [e for e in ev if e[0] == "call"]
        names = [e[2] for e in calls]
        warns = [fx.show(e[3][0]) for e in calls if e[2] == "warnings.warn"]
        # ---------------- defaults
        c_m = _decided(st, ("cmp", ("LtE",), (V("alpha_multiplier"), fx.C(1))))
        c_k = _decided(st, ("boolop", "Or", (("cmp", ("Lt",), (V("keep_threshold"), fx.C(0))), ("cmp", ("Gt",), (V("keep_threshold"), fx.C(1))))))
        c_f = _decided(st, ("cmp", ("LtE",), (V("min_features"), fx.C(0))))
        ob("defaults: the three range tests are alpha_multiplier <= 1, keep_threshold outside [0,1], min_features <= 0",
           None not in (c_m, c_k, c_f))
        if None in (c_m, c_k, c_f):
            continue
        M = fx.C(1.05) if c_m else V("alpha_multiplier")
        Kt = fx.C(0.9) if c_k else V("keep_threshold")
        MF = fx.C(2) if c_f else V("min_features")
        ob("defaults: a warning is issued exactly when a value is replaced",
           any("alpha multiplier" in w for w in warns) == bool(c_m) and any("threshold to keep" in w for w in warns) == bool(c_k)
           and any("min_features to stop" in w for w in warns) == bool(c_f), {"warnings": warns})
        # ---------------- init
        order = ["clf.set_params", "clf.fit", "compute_val_score", "clf._get_weights", "SGDOptimizer"]
        idx = [names.index(n) if n in names else -1 for n in order]
        ob("init: set_params(alpha=0) -> fit(X, y) -> validation score -> weights -> new SGD optimiser, in this order",
           all(i >= 0 for i in idx) and idx == sorted(idx), {"order": idx})
        sp = [e for e in calls if e[2] == "clf.set_params"]
        ft = [e for e in calls if e[2] == "clf.fit"]
        ob("init: the path restarts from an unpenalised fit: set_params(alpha=0) then fit(X, y)",
           len(sp) >= 1 and sp[0][4] == (("alpha", fx.C(0)),) and len(ft) == 1 and ft[0][3] == (V("X"), V("y")) and not ft[0][5]
           and all(e[4] == (("alpha", ("attr", CLF, "alpha")),) and not e[5] and names.index("SGDOptimizer") < calls.index(e) for e in sp[1:]))
        reads = [i for i, e in enumerate(ev) if e[0] == "read" and e[1] == CLF and e[2] == "alpha"]
        ob("init: alpha0 is the model's alpha, read before it is reset", bool(reads) and bool(sp) and reads[0] < ev.index(sp[0]))
        gw = [e for e in calls if e[2] == "clf._get_weights"]
        weights = ("callres", gw[0][1], "clf._get_weights", (), ()) if gw else None
        opt = [e for e in ev if e[0] == "store" and e[1] == CLF and e[2] == "optimiser_"]
        ok_opt = (len(opt) == 1 and not opt[0][4] and opt[0][3][:1] == ("callres",) and opt[0][3][2] == "SGDOptimizer"
                  and opt[0][3][3] == (weights, ("attr", CLF, "learning_rate")))
        ob("init: optimiser re-created as SGDOptimizer(weights, clf.learning_rate) over the list the loop updates", ok_opt)
        cv = [e for e in calls if e[2] == "compute_val_score"]
        cv0 = ("callres", cv[0][1], "compute_val_score", cv[0][3], cv[0][4]) if cv else None
        gem = [e for e in calls if e[2] == "clf.get_gemini"]
        gterm = ("callres", gem[0][1], "clf.get_gemini", (), ()) if gem else None
        ob("init: validation scores are compute_val_score(clf, X, y, batch_size, clf.get_gemini())",
           bool(cv) and all(e[3][:3] == (CLF, V("X"), V("y")) and e[3][4] == gterm for e in cv))
        # every validation score -- at the start of a step, after each epoch -- is asked under the contract verified for
        # compute_val_score (contracts/batching.py): the model, the data, the effective batch size, the objective, and nothing
        # that would replace what the function derives from the model at the time of the call (its current selection)
        import inspect
        cvp = [p_ for p_ in inspect.signature(BS.compute_val_score).parameters]
        eff_b = ("ite", ("cmp", ("Is",), (("attr", CLF, "batch_size"), fx.C(None))), None, ("attr", CLF, "batch_size"))

        def _cv_ok(e):
            am = fx.argmap(("callres", e[1], e[2], e[3], e[4]), cvp)
            b_ = am.get("batch_size")
            okb = (isinstance(b_, tuple) and b_[0] == "ite" and b_[1] == eff_b[1] and b_[3] == eff_b[3]
                   and b_[2][:1] == ("callres",) and b_[2][2] == "len" and b_[2][3] == (V("X"),))
            extra = {k_: v_ for k_, v_ in am.items() if k_ not in ("clf", "X", "y", "batch_size", "gemini_objective")}
            return (am.get("clf") == CLF and am.get("X") == V("X") and am.get("y") == V("y") and okb and am.get("gemini_objective") == gterm
                    and all(v_ == fx.C(None) for v_ in extra.values()))
        ob("every validation score is compute_val_score(clf, X, y, effective batch size, objective) with no further argument "
           "(the selection scored is the model's own at the time of the call)", bool(cv) and all(_cv_ok(e) for e in cv),
           {"calls": [[fx.show(a_)[:80] for a_ in e[3]] + [k_ for k_, _ in e[4]] for e in cv][:3]})
        # ---------------- outer loop
        outer = [e for e in ev if e[0] == "loop-enter" and len(e[3]) == 1]
        if len(outer) != 1:
            ob("exactly one outer loop", False)
            continue
        L1 = outer[0][1]
        guard = [e for e in ev if e[0] == "loop-guard" and e[1] == L1]
        g = guard[0][2] if guard else None
        ok_g = (isinstance(g, tuple) and g[0] == "cmp" and g[1] == ("Gt",) and g[2][1] == MF and g[2][0][:1] == ("callres",)
                and g[2][0][2] == "clf._n_selected_features")
        ob("outer loop runs while clf._n_selected_features() > min_features (effective value)", ok_g, {"guard": fx.show(g)})
        inl = [e for e in ev if e[0] == "loop-enter" and len(e[3]) == 2 and e[3][0] == L1]
        L2 = inl[0][1] if inl else None
        body = [e for e in ev if (e[0] in ("call", "store", "break") and (L1 in (e[5] if e[0] == "call" else (e[4] if e[0] == "store" else e[1]))))]
        broke = any(e[0] == "break" and e[1] and e[1][-1] == L1 for e in ev)
        st_alpha = [e for e in ev if e[0] == "store" and e[1] == CLF and e[2] == "alpha"]
        # the step's alpha: the loop-carried variable (whatever its local name) that starts at the model's alpha
        alpha_lv = st_alpha[0][3] if st_alpha else None
        ok_alv = (isinstance(alpha_lv, tuple) and len(alpha_lv) == 4 and alpha_lv[0] == "loopvar" and alpha_lv[1] == L1[0]
                  and alpha_lv[3] == ("attr", CLF, "alpha"))
        ob("step: clf.alpha is set to the step's alpha (geometric schedule starting at the model's alpha) before training",
           len(st_alpha) == 1 and ok_alv and st_alpha[0][4] == (L1,), {"stores": [fx.show(e[3]) for e in st_alpha]})
        if not ok_alv:
            continue
        # the four history lists are identified by identity: positions 1..4 of the returned tuple (local names do not matter)
        ret0 = st.ret
        hist = {}
        if isinstance(ret0, tuple) and ret0[0] == "tuple" and len(ret0[1]) == 5:
            hist = dict(zip(("geminis", "group_lasso_penalties", "alphas", "n_features"), ret0[1][1:]))
        apps = {k: [e for e in calls if isinstance(e[6], tuple) and e[6][0] == "attr" and e[6][2] == "append" and e[6][1] == hist.get(k)]
                for k in ("alphas", "n_features", "geminis", "group_lasso_penalties")}
        x2 = [i for i, e in enumerate(ev) if e[0] == "loop-exit" and e[1] == L2]
        if broke:
            ob("NaN step: leaves the loop without recording anything (the four histories keep equal length)",
               all(len(v) == 0 for v in apps.values()))
            nanc, nb = _find_pc(st, lambda c: c[:1] == ("callres",) and c[2] == "np.isnan" and c[3][0][:1] == ("loopout",))
            ob("NaN step: the only early exit is the NaN test on the last epoch's validation score", nanc is not None and nb is True)
            continue
        ob("step: exactly one append to each of the four histories", all(len(v) == 1 for v in apps.values()),
           {k: len(v) for k, v in apps.items()})
        if not all(len(v) == 1 for v in apps.values()) or not x2:
            continue
        score = apps["geminis"][0][3][0]
        ok_s = (score[:1] == ("loopout",) and score[1] == L2[0] and score[3][0] == "item"
                and score[3][1][:1] == ("callres",) and score[3][1][2] == "compute_val_score" and score[3][2] == fx.C(0))
        ob("history: geminis gets the validation score computed after the last epoch of the step", ok_s, {"arg": fx.show(score)})
        ob("history: alphas gets the alpha the step trained with", apps["alphas"][0][3] == (alpha_lv,))
        nf_arg = apps["n_features"][0][3][0]
        ok_n = (nf_arg[:1] == ("callres",) and nf_arg[2].endswith(".item"))
        nsel_calls = [e for e in calls if e[2] == "clf._n_selected_features" and e[5] == (L1,)]
        ob("history: n_features gets clf._n_selected_features().item()", ok_n and bool(nsel_calls))
        pen = apps["group_lasso_penalties"][0][3][0]
        ob("history: penalties gets clf._group_lasso_penalty()", pen[:1] == ("callres",) and pen[2] == "clf._group_lasso_penalty")
        x1 = [i for i, e in enumerate(ev) if e[0] == "loop-exit" and e[1] == L1]
        after = ev[x2[-1]:(x1[-1] if x1 else len(ev))]
        muts = [e for e in after if (e[0] == "call" and e[2] in MUTATORS) or (e[0] == "store" and e[1] == CLF)]
        ob("history: no weight update, fit or parameter change between the last epoch and the end of the step "
           "(recorded counts / penalties are those of the model at that step and of the next guard test)", not muts,
           {"mutators": [e[2] for e in muts]})
        # alpha update
        a_out = st.env.get(alpha_lv[2])
        ok_a = (a_out is not None and a_out[:1] == ("loopout",) and a_out[3] == ("binop", "Mult", alpha_lv, M))
        ob("step: alpha' = alpha * alpha_multiplier (effective value), once per step", ok_a, {"alpha": fx.show(a_out)})
        # ---------------- best fold
        best_lv = None
        bw_out = ret0[1][0] if isinstance(ret0, tuple) and ret0[0] == "tuple" and ret0[1] else None
        init_best = ("item", cv0, fx.C(0))
        nsel_eq = None
        # the best score: the loop-carried variable (whatever its name) the step's score is compared with
        # (one merged test `score >= best and n_selected == d`, or two nested tests: decided semantically, engine/fxz3.py)
        def _conj(c_):
            return list(c_[2]) if c_[0] == "boolop" and c_[1] == "And" else [c_]
        atoms = [k_ for c_, _b in st.pc for k_ in _conj(c_)]
        ge = [k_ for k_ in atoms if k_[:2] == ("cmp", ("GtE",)) and k_[2][0] == score and k_[2][1][:2] == ("loopvar", L1[0])]
        cbest = ge[0] if ge else None
        best_lv = cbest[2][1] if cbest is not None else ("loopvar", L1[0], "?", None)
        b_out = st.env.get(best_lv[2])
        allsel = [k_ for k_ in atoms if k_[:2] == ("cmp", ("Eq",)) and k_[2][0][:1] == ("callres",) and k_[2][0][2] == "clf._n_selected_features"
                  and k_[2][1] == ("item", ("attr", V("X"), "shape"), fx.C(1))]
        ok_cb = cbest is not None
        bbest = None
        if ok_cb and allsel:
            # 'still selected' is the count of the model AFTER the step's last epoch (a count taken earlier in the step is stale)
            cid = allsel[0][2][0][1]
            at = [i for i, e in enumerate(ev) if e[0] == "call" and e[1] == cid]
            ok_cb = bool(at) and bool(x2) and at[0] > x2[-1]
        from engine import fxz3
        if ok_cb:
            # the raising condition of this path: score >= best AND all features still selected -- true or false under the path condition
            nsel_all = allsel[0] if allsel else None
            tr = fxz3.Tr()
            if nsel_all is not None:
                cond = fxz3.z3.And(tr.boo(cbest), tr.boo(nsel_all))
                up, _d = fxz3.entails(tr, st.pc, cond)
                dn, _d = fxz3.entails(tr, st.pc, fxz3.z3.Not(cond))
                bbest = True if up == "PROVED" else (False if dn == "PROVED" else None)
            else:
                # the count is not tested on this path: only sound if the score test already failed
                dn, _d = fxz3.entails(tr, st.pc, fxz3.z3.Not(tr.boo(cbest)))
                bbest = False if dn == "PROVED" else None
            ok_cb = bbest is not None
        ob("best fold: best score is raised iff score >= best and all features are still selected", ok_cb,
           {"cond": fx.show(cbest) if cbest else None})
        if not ok_cb:
            continue
        best_new = score if bbest else best_lv
        ob("best fold: best' = score if raised else unchanged", b_out is not None and b_out[:1] == ("loopout",) and b_out[3] == best_new, {"best": fx.show(b_out)})
        ckeep, bkeep = _find_pc(st, lambda c: c[:2] == ("cmp", ("GtE",)) and c[2][0] == score and c[2][1][:2] == ("binop", "Mult"))
        ok_ck = ckeep is not None and ckeep[2][1] == ("binop", "Mult", Kt, best_new)
        ob("best fold: weights are kept iff score >= keep_threshold (effective value) * best'", ok_ck, {"cond": fx.show(ckeep) if ckeep else None})
        init_bw = None
        bw_lv = bw_out[3] if bw_out is not None and bw_out[:1] == ("loopout",) else None
        if ok_ck:
            if bkeep:
                okw = (isinstance(bw_lv, tuple) and bw_lv[0] == "comp" and bw_lv[1] == "ListComp" and bw_lv[3] == (weights,)
                       and _is_copy_of_elem(bw_lv[2], weights, calls))
                ob("best fold: kept weights are copies (w.copy()) of the current weights, in _get_weights() order", okw, {"value": fx.show(bw_lv)})
            else:
                okw = isinstance(bw_lv, tuple) and bw_lv[0] == "loopvar" and bw_lv[1] == L1[0] and bw_lv[2] == bw_out[2]
                ob("best fold: otherwise the previous best weights are kept", okw)
                if okw:
                    i0 = bw_lv[3]
                    ob("init: best_weights starts as copies (w.copy()) of the weights of the unpenalised fit",
                       isinstance(i0, tuple) and i0[0] == "comp" and i0[3] == (weights,) and _is_copy_of_elem(i0[2], weights, calls),
                       {"value": fx.show(i0)})
        ob("init: best score starts as the validation score of the unpenalised fit", best_lv[3] == init_best)
        # ---------------- inner loop
        i_out = [e for e in ev if e[0] == "loop-exit" and e[1] == L2]
        # value of i at the end of an epoch body: find through loopout term in env is lost; use the guard structure
        g2 = [e for e in ev if e[0] == "loop-guard" and e[1] == L2]
        ok_g2 = bool(g2) and g2[0][2][0] == "boolop" and g2[0][2][1] == "And" and \
            g2[0][2][2][0][:2] == ("cmp", ("Lt",)) and g2[0][2][2][0][2][1] == ("attr", CLF, "max_iter") and \
            g2[0][2][2][0][2][0][:2] == ("loopvar", L2[0]) and g2[0][2][2][0][2][0][3] == fx.C(0)
        ob("inner loop: runs while i < clf.max_iter and patience < max_patience, i starting at 0", ok_g2,
           {"guard": fx.show(g2[0][2]) if g2 else None})
        # ---------------- result
        ret = st.ret
        lists = {k: v[0][6][1] for k, v in apps.items()}
        ok_r = (ret[0] == "tuple" and len(ret[1]) == 5 and ret[1][0] == bw_out and ret[1][1] == lists["geminis"]
                and ret[1][2] == lists["group_lasso_penalties"] and ret[1][3] == lists["alphas"] and ret[1][4] == lists["n_features"])
        ob("result: (best_weights, geminis, penalties, alphas, n_features), the lists the steps appended to", ok_r, {"ret": fx.show(ret)[:300]})
    return list(agg.values())


def _copyto_pairs(st, cps):
    """(destination, source) pairs of the np.copyto calls, written out one by one or as ONE call in a loop over
    enumerate((w0, w1, ...)) / zip((w0, w1, ...), best_weights) -- the same copies in the same order"""
    if len(cps) == 1 and cps[0][5]:
        lid = cps[0][5][-1]
        ent = [e for e in st.events if e[0] == "loop-enter" and e[1] == lid]
        it = ent[0][2] if ent else None
        if isinstance(it, tuple) and it[:1] == ("callres",) and len(it[3]) >= 1:
            elem = ("iter", it, lid[0])
            dst, src = cps[0][3][:2]
            if it[2] == "enumerate" and it[3][0][0] in ("tuple", "list") and dst == ("item", elem, fx.C(1)) \
                    and src[0] == "item" and src[2] == ("item", elem, fx.C(0)):
                return [(w, ("item", src[1], fx.C(i))) for i, w in enumerate(it[3][0][1])]
            if it[2] == "zip" and len(it[3]) == 2 and it[3][0][0] in ("tuple", "list") and dst == ("item", elem, fx.C(0)) \
                    and src == ("item", elem, fx.C(1)):
                return [(w, ("item", it[3][1], fx.C(i))) for i, w in enumerate(it[3][0][1])]
    return [e[3] for e in cps]


def epoch_counter_obligation():
    """i += 1 on every path of the epoch body (variant max_iter - i), by a dedicated walk of the inner loop."""
    import ast
    from gemclus.sparse import _base_sparse as BS
    node, _ = fx.fn_ast(BS._path)
    outer = [n for n in node.body if isinstance(n, ast.While)]
    inner = [n for o in outer for n in ast.walk(o) if isinstance(n, ast.While) and n is not o]
    ok = False
    if len(inner) == 1:
        body = inner[0].body
        last = body[-1]
        cmps = [c for c in ast.walk(inner[0].test) if isinstance(c, ast.Compare) and isinstance(c.left, ast.Name) and "max_iter" in ast.unparse(c)]
        ctr = cmps[0].left.id if cmps else None          # the epoch counter: the name compared with clf.max_iter in the guard
        # `i += 1`, `i = i + 1` and `i = 1 + i` are the same statement
        incr = ctr is not None and ast.unparse(last).replace(" ", "") in (f"{ctr}+=1", f"{ctr}={ctr}+1", f"{ctr}=1+{ctr}")
        ok = (ctr is not None and isinstance(last, (ast.AugAssign, ast.Assign)) and incr
              and not any(isinstance(n, (ast.Continue, ast.Break)) for n in ast.walk(inner[0]))
              and sum(1 for n in ast.walk(inner[0]) if isinstance(n, (ast.Assign, ast.AugAssign)) and ctr in
                      [getattr(t, "id", None) for t in (n.targets if isinstance(n, ast.Assign) else [n.target])]) == 1)
    return [Ob("_path:inner loop: i += 1 is the last statement of every epoch and nothing else writes i (variant max_iter - i)",
               PROVED if ok else REFUTED, "fx-syntax", "P", {}, fn="gemclus.sparse._base_sparse._path")]


def induction_lemmas():
    """z3: per-step facts => history facts."""
    obs = []
    fn = "gemclus.sparse._base_sparse._path"

    def lemma(name, assm, goal):
        s = z3.Solver()
        s.set("timeout", 10000)
        s.add(*assm)
        s.add(z3.Not(goal))
        r = s.check()
        det, st = {}, PROVED if r == z3.unsat else (REFUTED if r == z3.sat else UNDECIDED)
        if r == z3.unsat:
            det["xcheck"] = xcheck.second_opinion(s)
            if det["xcheck"].startswith("DISAGREE"):
                st = UNDECIDED
        obs.append(Ob(f"_path:lemma: {name}", st, "z3", "P", det, fn=fn))
    la, ln, lg, lp, t = z3.Ints("len_alphas len_n_features len_geminis len_penalties t")
    inv = z3.And(la == t, ln == t, lg == t, lp == t, t >= 0)
    lemma("equal lengths hold initially (all empty)", [la == 0, ln == 0, lg == 0, lp == 0, t == 0], inv)
    lemma("equal lengths preserved by a completed step (one append each)", [inv],
          z3.substitute(inv, (la, la + 1), (ln, ln + 1), (lg, lg + 1), (lp, lp + 1), (t, t + 1)))
    lemma("equal lengths preserved by a NaN step (no append)", [inv], inv)
    # geometric schedule: alphas[s] = alpha0 * m^s with pow axiomatised by its recurrence
    alpha, a0, m = z3.Reals("alpha alpha0 m")
    powf = z3.Function("pow", z3.RealSort(), z3.IntSort(), z3.RealSort())
    s_ = z3.Int("s")
    ax = [powf(m, 0) == 1, z3.ForAll([s_], z3.Implies(s_ >= 0, powf(m, s_ + 1) == powf(m, s_) * m))]
    lemma("alpha at step 0 is alpha0 * m^0", ax + [alpha == a0], alpha == a0 * powf(m, 0))
    lemma("alpha' = alpha * m keeps alpha == alpha0 * m^t (so alphas[t] = alpha0 * m^t)",
          ax + [t >= 0, alpha == a0 * powf(m, t)], alpha * m == a0 * powf(m, t + 1))
    lemma("with alpha0 > 0 and m > 1 the schedule strictly increases", [alpha > 0, m > 1], alpha * m > alpha)
    cnt, mf = z3.Ints("last_count min_features")
    lemma("normal exit: the guard count > min_features is false for the last recorded count", [z3.Not(cnt > mf)], cnt <= mf)
    return obs


def wrapper_obligations():
    """SparseLinearModel.path / SparseMLPModel.path: arguments forwarded to _path in the right positions; with
    restore_best_weights on a non-dynamic model each weight array receives the corresponding best_weights entry
    (in _get_weights() order) by np.copyto; the tuple returned is _path's."""
    from gemclus.sparse import SparseLinearModel, SparseMLPModel, SparseLinearMMD, SparseLinearMI, SparseMLPMMD
    obs = []
    SELF = ("var", "self")
    V = lambda n: ("var", n)
    for cls in (SparseLinearModel, SparseLinearMMD, SparseLinearMI, SparseMLPModel, SparseMLPMMD):
        fn = f"{cls.__module__}.{cls.__name__}.path"
        order = ["W_", "b_"] if issubclass(cls, SparseLinearModel) else ["W1_", "W2_", "W_skip_", "b1_", "b2_"]
        it = fx.Interp(cls, inline_filter=lambda o, m: False)
        sts = it.run_method("path")
        agg = {}

        def ob(name, ok, det=None):
            cur = agg.get(name)
            if cur is None or (not ok and cur.status == PROVED):
                agg[name] = Ob(f"{cls.__name__}.path:{name}", PROVED if ok else REFUTED, "fx-dataflow", "P", det or {}, fn=fn)
        # _get_weights order (read from the real method)
        gw = fx.Interp(cls, inline_filter=lambda o, m: False).run_method("_get_weights")
        gw_order = [x[2] for x in gw[0].ret[1]] if gw and gw[0].ret[0] == "list" else None
        ob("_get_weights() order is " + str(order), gw_order == order, {"got": gw_order})
        for st in sts:
            calls = [e for e in st.events if e[0] == "call"]
            pc = [e for e in calls if e[2] == "_path"]
            ob("calls _path exactly once", len(pc) == 1)
            if len(pc) != 1:
                continue
            want = (SELF, V("X"), V("y"), V("alpha_multiplier"), V("min_features"), V("keep_threshold"), V("early_stopping_factor"), V("max_patience"))
            got = pc[0][3] + tuple(v for _, v in pc[0][4])
            kwn = [k for k, _ in pc[0][4]]
            names = ["clf", "X", "y", "alpha_multiplier", "min_features", "keep_threshold", "early_stopping_factor", "max_patience"]
            bound = dict(zip(names, pc[0][3]))
            bound.update(dict(pc[0][4]))
            ob("_path receives (self, X, y, alpha_multiplier, min_features, keep_threshold, early_stopping_factor, max_patience)",
               [bound.get(n) for n in names] == list(want), {"args": [fx.show(x) for x in got]})
            res = ("callres", pc[0][1], "_path", pc[0][3], pc[0][4])
            bw = ("item", res, fx.C(0))
            restore = None
            dyn = None
            for c, b in st.pc:
                if c == V("restore_best_weights"):
                    restore = b
                if c == ("unop", "Not", ("attr", SELF, "dynamic")):
                    dyn = not b
                if c == ("attr", SELF, "dynamic"):
                    dyn = b
            cps = [e for e in calls if e[2] == "np.copyto"]
            if restore and dyn is False:
                wantc = [(("attr", SELF, a), ("item", bw, fx.C(i))) for i, a in enumerate(order)]
                ob("restore_best_weights on a non-dynamic model: np.copyto(weight_k, best_weights[k]) for every weight, in order",
                   _copyto_pairs(st, cps) == wantc, {"copyto": [[fx.show(x) for x in e[3]] for e in cps]})
            else:
                ob("no weights are overwritten when restore is off or the model is dynamic", not cps)
            ret = st.ret
            # the five results of _path, re-packed or handed over as the very tuple _path returned
            ok_r = st.ended == "return" and (ret == res or (ret[0] == "tuple" and list(ret[1]) == [("item", res, fx.C(i)) for i in range(5)]))
            ob("returns the tuple produced by _path", ok_r, {"ret": fx.show(ret)[:200]})
        obs.extend(agg.values())
    return obs
