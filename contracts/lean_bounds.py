"""LN: Lean 4 / Mathlib lemmas on the *specification* distances (for all finite sizes):
0 <= TV <= 1, 0 <= H^2 <= 1, 0 <= chi2, 0 <= KL, and the weighted average of distances in [0,1] is in [0,1].
Compiled by `lean` on every run (a few seconds when Mathlib's .olean files are warm)."""
import os
import subprocess
import time

from .common import *  # noqa

LEMMAS = ["tv_nonneg", "tv_le_one", "hell2_nonneg", "hell2_le_one", "chi2_nonneg", "kl_nonneg",
          "weighted_nonneg", "weighted_le_one"]


def obligations(tier, file="Distances.lean", lemmas=None, fn="specs.gemini.D"):
    lemmas = LEMMAS if lemmas is None else lemmas
    src = os.path.join(ROOT, "lean", file)
    text = open(src).read()
    t0 = time.time()
    env = dict(os.environ)
    try:
        r = subprocess.run(["lake", "env", "lean", src], cwd="/opt/veriftools/mathlib4", capture_output=True, text=True,
                           timeout=1500, env=env)
        out = (r.stdout + r.stderr)[-3000:]
        ok = r.returncode == 0 and "error" not in out and "sorry" not in out.lower() and "axiom" not in text and "admit" not in text
        status = PROVED if ok else UNDECIDED
    except (subprocess.TimeoutExpired, FileNotFoundError) as e:
        out, status = repr(e), UNDECIDED
    dt = time.time() - t0
    obs = []
    for nm in lemmas:
        present = f"theorem {nm}" in text
        st = status if present and "sorry" not in text else UNDECIDED
        obs.append(Ob(f"lean:{nm}", st, "lean4+mathlib", "P", {"file": "lean/" + file, "compile_s": round(dt, 1),
                                                                  "output": out if st != PROVED else ""},
                      time_s=dt / len(lemmas), fn=fn))
    return obs
