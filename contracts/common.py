"""Shared builders for the sidecar contracts."""
import os
import sys

import numpy as np

ROOT = os.path.dirname(os.path.dirname(os.path.abspath(__file__)))
if ROOT not in sys.path:
    sys.path.insert(0, ROOT)

from engine import dag, nf, sx, prove  # noqa: E402
from engine.runner import SxContract, run_sx  # noqa: E402
from engine.report import Ob, PROVED, REFUTED, UNDECIDED  # noqa: E402

EPS = 1e-12


def simplex_softmax_param(ctx, n, K, eps=EPS, name="t"):
    """row-stochastic P in the open simplex, parameterised as P[i,k] = t[i,k] / sum_j t[i,j], t > 0
    (a softmax parameterisation: every interior point of the simplex is reached), with the
    precondition eps < P[i,k] < 1 - eps."""
    T = sx.sym_array(ctx, name, (n, K), sign="+", lo=0.2, hi=1.5)
    P = T / T.sum(1, keepdims=True)
    for i in range(n):
        for k in range(K):
            ctx.assume_gt(P[i, k], eps)
            ctx.assume_gt(1 - eps, P[i, k])
    return T, P


def symbolic_eps(ctx, K):
    """the clipping precision as a symbol: 0 < eps < 1/(2K) (the constructor accepts (0,1); values
    with K*eps >= 1 leave no row-stochastic matrix inside the clipping bounds)."""
    e = ctx.var("eps", "+", lo=1e-9, hi=min(0.02, 0.4 / K))
    ctx.assume_gt(1, e * (2 * K))
    return e


def simplex_reduced(ctx, n, K, eps=EPS, name="p"):
    """row-stochastic P in the open simplex in reduced coordinates: P[i,k] free for k < K-1 and
    P[i,K-1] = 1 - sum_k P[i,k] (kept as one positive generator), precondition eps < P < 1-eps."""
    P = np.empty((n, K), dtype=object)
    for i in range(n):
        tot = dag.ZERO
        for k in range(K - 1):
            P[i, k] = ctx.var(f"{name}_{i}_{k}", "+", lo=0.02, hi=0.98)
            tot = dag.add(tot, P[i, k].n)
        P[i, K - 1] = sx.Sx(dag.defined(dag.sub(dag.ONE, tot), "+")) if K > 1 else sx.Sx(dag.ONE)
        for k in range(K):
            if K > 1:
                ctx.assume_gt(P[i, k], eps)
                ctx.assume_gt(1 - eps, P[i, k])

    def sampler(rs, m):
        out = {}
        for i in range(n):
            conc = rs.choice([0.3, 1.0, 3.0], size=(m, 1))
            t = rs.gamma(conc, size=(m, K)) + 1e-3
            t = t / t.sum(1, keepdims=True)
            for k in range(K - 1):
                out[f"{name}_{i}_{k}"] = t[:, k]
        return out
    ctx.samplers.append(sampler)
    return P


def tolist(A):
    return [[A[i, j] for j in range(A.shape[1])] for i in range(A.shape[0])]


def np_patches(*mods):
    return [(m, "np", sx.NPProxy()) for m in mods]


def close(a, b, rtol=1e-6, atol=1e-9):
    a, b = np.asarray(a, dtype=float), np.asarray(b, dtype=float)
    return bool(np.all(np.abs(a - b) <= atol + rtol * (np.abs(a) + np.abs(b))))
