"""B tier for C01 / C02 / C13: the symbolic contracts hold at small enumerated shapes (assumption A1); this bounded
check evaluates the real GEMINIs at LARGE sample counts (n > 1024, n not a power of two) against an independent
vectorised rendering of the specification, under sample reordering, and against central differences along random
simplex-tangent directions.  Never counted as proved."""
import numpy as np

from .common import *  # noqa


def ref_score(kind, ovo, P, A):
    n, K = P.shape
    pi = P.mean(0)
    q = P / (n * pi)
    r = np.full(n, 1.0 / n)

    def D(a, b):
        if kind == "kl":
            return float(np.sum(a * np.log(a / b)))
        if kind == "tv":
            return 0.5 * float(np.sum(np.abs(a - b)))
        if kind == "hellinger":
            return 1.0 - float(np.sum(np.sqrt(a * b)))
        if kind == "chi2":
            return (float(np.sum((a - b) ** 2 / b)) + 1.0) / 2.0
        if kind == "mmd":
            d = a - b
            return float(np.sqrt(max(d @ A @ d, 0.0)))
    if not ovo:
        return sum(pi[k] * D(q[:, k], r) for k in range(K))
    return sum(pi[a] * pi[b] * D(q[:, a], q[:, b]) for a in range(K) for b in range(K))


def obligations(seed, tier):
    from gemclus.gemini._utils import _str_to_gemini
    obs = []
    rs = np.random.RandomState(seed)
    # n > 1024 samples; and more than 64 clusters with few samples (K*K > 4096 entries per sample, n barely above K)
    sizes = [(1300, 3), (80, 66)] if tier == "quick" else [(1300, 3), (80, 66), (2051, 4), (1025, 2), (70, 70)]
    kinds = {"kl": "kl", "mi": "kl", "tv": "tv", "hellinger": "hellinger", "chi2": "chi2", "mmd": "mmd"}
    for n, K in sizes:
        X = rs.normal(size=(n, 2))
        A = X @ X.T
        P = rs.dirichlet(np.ones(K) * 2.0, size=n)
        perm = rs.permutation(n)
        for name in ("kl_ova", "kl_ovo", "mi", "tv_ova", "tv_ovo", "hellinger_ova", "hellinger_ovo", "chi2_ova", "chi2_ovo", "mmd_ova", "mmd_ovo"):
            g = _str_to_gemini(name)
            kind = kinds[name.split("_")[0]]
            ovo = name.endswith("ovo")
            s, gr = g(P, A, return_grad=True)
            s = float(s)
            want = ref_score(kind, ovo, P, A)
            sp = float(g(P[perm], A[perm][:, perm]))
            ok = abs(s - want) <= 1e-8 * (1 + abs(want)) and abs(sp - s) <= 1e-9 * (1 + abs(s)) and gr.shape == P.shape
            det = {"n": n, "K": K, "score": s, "reference": want, "score_after_reordering": sp}
            # directional derivative along a random tangent direction (rows sum to zero)
            V = rs.normal(size=(n, K))
            V -= V.mean(1, keepdims=True)
            # two step sizes: the Richardson value is compared with the gradient, the gap between the two estimates bounds the
            # error of the differences themselves (small probabilities have large higher derivatives)
            h = min(1e-6, 0.01 * float(P.min()) / (1e-12 + float(np.abs(V).max())))
            fd1 = (float(g(P + h * V, A)) - float(g(P - h * V, A))) / (2 * h)
            fd2 = (float(g(P + h / 2 * V, A)) - float(g(P - h / 2 * V, A))) / h
            fd = (4 * fd2 - fd1) / 3
            an = float((gr * V).sum())
            if name not in ("tv_ova", "tv_ovo"):
                ok = ok and abs(fd - an) <= 1e-4 * (1 + abs(fd) + abs(an)) + 10 * abs(fd2 - fd1)
                det.update(finite_difference=fd, from_gradient=an, difference_error_estimate=abs(fd2 - fd1))
            obs.append(Ob(f"large n: {name} at n={n}, K={K}: score == reference, invariant under reordering, gradient matches central differences",
                          PROVED if ok else REFUTED, "native-float64", "B", {**det, "replayed": True}, fn="gemclus.gemini.evaluate"))
    # many clusters: n * K^2 beyond 2^20 entries with n not a multiple of a power of two (block-wise evaluations of the (n, K, K) tensors);
    # TV is piecewise linear, so central differences along a random tangent direction are exact unless a kink lies within h
    n, K = 1100, 32
    P = rs.dirichlet(np.ones(K) * 2.0, size=n)
    for name in ("tv_ovo", "tv_ova", "hellinger_ovo"):
        g = _str_to_gemini(name)
        s, gr = g(P, None, return_grad=True)
        want = ref_score(kinds[name.split("_")[0]], name.endswith("ovo"), P, None)
        worst = 0.0
        ok = abs(float(s) - want) <= 1e-8 * (1 + abs(want)) and gr.shape == P.shape
        for _ in range(3):
            V = rs.normal(size=(n, K))
            V[:, rs.randint(K)] += 3.0          # a direction that moves the cluster proportions
            V -= V.mean(1, keepdims=True)
            h = 1e-7
            fd = (float(g(P + h * V, None)) - float(g(P - h * V, None))) / (2 * h)
            an = float((gr * V).sum())
            worst = max(worst, abs(fd - an) / (1 + abs(fd) + abs(an)))
        ok = ok and worst <= 2e-3
        obs.append(Ob(f"many clusters: {name} at n={n}, K={K} (n*K^2 > 2^20): score == reference, gradient matches central differences along 3 tangent directions",
                      PROVED if ok else REFUTED, "native-float64", "B", {"score": float(s), "reference": want, "worst relative gap": worst, "replayed": True},
                      fn="gemclus.gemini.evaluate"))
    return obs
