"""Documented parameters of the synthetic generators (C20), transcribed from the docstrings of
gemclus/data/synthetic_data.py and the articles they cite (GEMINI article for gstm; Celeux et al. 2014 /
Maugis et al. 2009 for the two Celeux datasets)."""
import math

import numpy as np


def gstm(alpha):
    """4 components, the first three Gaussian N(loc, I_2) with proportion 1/3 each on 3n//4 samples, the 4th a
    multivariate Student-t with df degrees of freedom, location loc[3], scale I_2, on the remaining samples"""
    return np.array([[1, 1], [1, -1], [-1, 1], [-1, -1]], dtype=float) * alpha


def celeux_one(mu):
    """3 equiprobable Gaussian components over 5 informative variables, means mu*1, -mu*1, 0, covariance I_5;
    p further variables are independent standard normal noise"""
    return [np.ones(5) * mu, -np.ones(5) * mu, np.zeros(5)]


def rot(theta):
    return np.array([[math.cos(theta), -math.sin(theta)], [math.sin(theta), math.cos(theta)]])


def celeux_two():
    means = [np.array([0., 0.]), np.array([4., 0.]), np.array([0., 2.]), np.array([4., 2.])]
    b = np.array([[0.5, 1], [2, 0], [0, 3], [-1, 2], [2, -4], [0.5, 0], [4, 0.5], [3, 0], [2, 1]], dtype=float).T    # 2 x 9
    offsets = np.array([0, 0, 0.4, 0.8, 1.2, 1.6, 2.0, 2.4, 2.8])
    om = np.zeros((9, 9))
    om[:3, :3] = np.eye(3)
    om[3:5, 3:5] = 0.5 * np.eye(2)
    om[5:7, 5:7] = rot(math.pi / 3).T @ np.diag([1., 3.]) @ rot(math.pi / 3)
    om[7:9, 7:9] = rot(math.pi / 6).T @ np.diag([2., 6.]) @ rot(math.pi / 6)
    noise_mean_last = np.array([3.2, 3.6, 4.0])
    return means, b, offsets, om, noise_mean_last
