"""Specification of the proximal operators, from the statement of C05.

group lasso:  argmin_z 0.5*||z-w||^2 + alpha*||z||_2  =  0 if ||w|| <= alpha else (1 - alpha/||w||) * w
(closed form stated in the property; that it is the unique minimiser is lemma L4: the objective is
strictly convex and the sub-gradient optimality condition  w - z in alpha * d||z||  has exactly this solution).

hierarchical (LassoNet HIER-PROX), one feature / group with skip weights v and hidden weights u:
  minimise 0.5*||beta-v||^2 + 0.5*||theta-u||^2 + alpha*||beta||_2  s.t. |theta_j| <= M*||beta||_2 for all j.
The feasible set is a product of second-order cones (convex) and the objective is convex, so a feasible
point with multipliers lambda_j >= 0 satisfying the conditions below is a global minimiser (lemma L5):
  theta_j = sign(u_j) * min(|u_j|, M*||beta||),  lambda_j = |u_j| - |theta_j| >= 0,
  lambda_j * (|theta_j| - M*||beta||) = 0,
  beta = x*v with x >= 0,  and  ||beta|| - ||v|| + alpha - M*sum_j lambda_j = 0  if beta != 0,
                                ||v|| - alpha + M*sum_j lambda_j <= 0           if beta == 0.
"""
import math


def _sqrt(x):
    return x.sqrt() if hasattr(x, "sqrt") else math.sqrt(x)


def norm(row):
    return _sqrt(sum(x * x for x in row))


def group_lasso_row(w, alpha):
    nw = norm(w)
    if nw <= alpha:
        return [0 * x for x in w]
    return [(1 - alpha / nw) * x for x in w]
