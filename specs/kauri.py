"""Specification side of C08 / C09, from the property statements.

objective(labels, K) = sum over clusters C of sigma(C x C) / |C|   (kernel-KMeans objective; sigma = grand sum)
A split of leaf N at (feature, threshold) sends S_l = {i in N : x_i[f] <= t} to cluster `left_target` and
S_r = N \\ S_l to `right_target`; its gain is objective(new labels) - objective(labels).
"""


def sigma(K, A, B):
    tot = 0
    for a in A:
        for b in B:
            tot = tot + K[a][b]
    return tot


def objective(labels, K):
    tot = 0
    for c in sorted(set(labels)):
        idx = [i for i, l in enumerate(labels) if l == c]
        tot = tot + sigma(K, idx, idx) / len(idx)
    return tot


def apply_split(labels, members_left, members_right, lt, rt):
    lab = list(labels)
    for i in members_left:
        lab[i] = lt
    for i in members_right:
        lab[i] = rt
    return lab


def restricted_growth(n, k):
    """all surjections {0..n-1} -> {0..k-1} in canonical (restricted growth) form."""
    def rec(i, cur, mx):
        if i == n:
            if mx + 1 == k:
                yield tuple(cur)
            return
        for v in range(min(mx + 1, k - 1) + 1):
            yield from rec(i + 1, cur + [v], max(mx, v))
    yield from rec(0, [], -1)


def states(n):
    """all (leaf_of, cl_of, n_clusters, K_max) with every leaf and cluster non-empty, K_max in ncl..ncl+2."""
    for nleaves in range(1, n):
        for leaf_of in restricted_growth(n, nleaves):
            for ncl in range(1, nleaves + 1):
                for cl_of in restricted_growth(nleaves, ncl):
                    for Kmax in range(ncl, ncl + 3):
                        yield leaf_of, cl_of, ncl, Kmax
