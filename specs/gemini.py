"""Specification of the GEMINI scores, written from the statement of property C01:

  score = sum_k pi_k D(q_k, r)                (one-vs-all)
  score = sum_{a,b} pi_a pi_b D(q_a, q_b)     (one-vs-one)

with pi = column means of P, q_k[i] = P[i,k] / (n pi_k) the empirical cluster-conditional
distribution over the n samples, r[i] = 1/n the empirical data distribution, and D the named
distance.  The chi-square family is reported through the fixed affine form (chi2 + 1) / 2.
Index-explicit Python on purpose: no NumPy idiom is shared with the implementation.
Works on floats and on symbolic scalars (anything with + - * / abs and .sqrt()/.log()).
"""
import math


def _sqrt(x):
    return x.sqrt() if hasattr(x, "sqrt") else math.sqrt(x)


def _log(x):
    return x.log() if hasattr(x, "log") else math.log(x)


def _pos(x):
    """max(x, 0)"""
    return x if x >= 0 else 0 * x


def D(kind, a, b, A=None):
    n = len(a)
    if kind == "kl":
        return sum(a[i] * _log(a[i] / b[i]) for i in range(n))
    if kind == "tv":
        return sum(abs(a[i] - b[i]) for i in range(n)) / 2
    if kind == "hellinger":
        return 1 - sum(_sqrt(a[i] * b[i]) for i in range(n))
    if kind == "chi2":
        chi2 = sum((a[i] - b[i]) * (a[i] - b[i]) / b[i] for i in range(n))
        return (chi2 + 1) / 2
    if kind == "mmd":
        d = [a[i] - b[i] for i in range(n)]
        quad = sum(d[i] * A[i][j] * d[j] for i in range(n) for j in range(n))
        return _sqrt(_pos(quad))
    raise ValueError(kind)


def cluster_conditionals(P):
    n, K = len(P), len(P[0])
    pi = [sum(P[i][k] for i in range(n)) / n for k in range(K)]
    q = [[P[i][k] / (n * pi[k]) for i in range(n)] for k in range(K)]
    return pi, q


def score(kind, ovo, P, A=None):
    n, K = len(P), len(P[0])
    pi, q = cluster_conditionals(P)
    if not ovo:
        r = [_one(P) / n] * n
        return sum(pi[k] * D(kind, q[k], r, A) for k in range(K))
    return sum(pi[a] * pi[b] * D(kind, q[a], q[b], A) for a in range(K) for b in range(K))


def _one(P):
    x = P[0][0]
    return x * 0 + 1


REGISTRY = {
    # name -> (class name, ovo) as the names read; "mi" denotes KL one-vs-all
    "mmd_ova": ("MMDGEMINI", False), "mmd_ovo": ("MMDGEMINI", True),
    "wasserstein_ova": ("WassersteinGEMINI", False), "wasserstein_ovo": ("WassersteinGEMINI", True),
    "kl_ova": ("KLGEMINI", False), "kl_ovo": ("KLGEMINI", True), "mi": ("KLGEMINI", False),
    "tv_ova": ("TVGEMINI", False), "tv_ovo": ("TVGEMINI", True),
    "hellinger_ova": ("HellingerGEMINI", False), "hellinger_ovo": ("HellingerGEMINI", True),
    "chi2_ova": ("ChiSquareGEMINI", False), "chi2_ovo": ("ChiSquareGEMINI", True),
}
KIND = {"KLGEMINI": "kl", "MI": "kl", "TVGEMINI": "tv", "HellingerGEMINI": "hellinger",
        "ChiSquareGEMINI": "chi2", "MMDGEMINI": "mmd", "WassersteinGEMINI": "wasserstein"}
