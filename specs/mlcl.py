"""Specification of the must-link / cannot-link validation (C14): a set of pairs is accepted iff no element is
paired with itself and no cannot-link pair lies inside one connected component of the must-link graph --
whatever the sample indices are."""


def components(pairs):
    parent = {}

    def find(a):
        parent.setdefault(a, a)
        while parent[a] != a:
            parent[a] = parent[parent[a]]
            a = parent[a]
        return a
    for a, b in pairs:
        ra, rb = find(a), find(b)
        if ra != rb:
            parent[ra] = rb
    return find, parent


def acceptable(must_link, cannot_link):
    if any(a == b for a, b in must_link) or any(a == b for a, b in cannot_link):
        return False
    find, parent = components(must_link)
    for a, b in cannot_link:
        if a in parent and b in parent and find(a) == find(b):
            return False
    return True
