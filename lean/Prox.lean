/-
Lemmas L4 and L5 of DESIGN.md (property C05), for every dimension.

L4  the closed form proved on the real `linear_prox_grad` (rows of norm <= alpha become 0, the others are
    shrunk radially by alpha) is the unique minimiser of 0.5*||z-w||^2 + alpha*||z||      (`gl_unique_min`)
L5  a pair (beta, theta) carrying the certificate proved clause by clause on the real `mlp_prox_grad`
    (contracts/prox.py, HierProx.ensures) is feasible and attains the minimum of
    0.5*||b-v||^2 + 0.5*||t-u||^2 + alpha*||b|| over all feasible pairs                 (`hier_certificate_min`)
-/
import Mathlib.Analysis.InnerProductSpace.PiL2
import Mathlib.Tactic
open Finset BigOperators Real

namespace ProxSpec

section GroupLasso
variable {E : Type*} [NormedAddCommGroup E] [InnerProductSpace ℝ E]

/-- objective of the group-lasso proximal problem -/
noncomputable def glObj (α : ℝ) (w z : E) : ℝ := (1/2) * ‖z - w‖^2 + α * ‖z‖

/-- the closed form stated by C05 (and proved on the real code) -/
noncomputable def glProx (α : ℝ) (w : E) : E := if ‖w‖ ≤ α then 0 else (1 - α / ‖w‖) • w

theorem gl_zero_min (α : ℝ) (w z : E) (h : ‖w‖ ≤ α) : glObj α w 0 ≤ glObj α w z := by
  unfold glObj
  have h1 : ‖z - w‖^2 = ‖z‖^2 - 2 * inner ℝ z w + ‖w‖^2 := norm_sub_sq_real z w
  have h2 : inner ℝ z w ≤ ‖z‖ * ‖w‖ := real_inner_le_norm z w
  have h3 : 0 ≤ ‖z‖ := norm_nonneg z
  have h4 : ‖z‖ * ‖w‖ ≤ ‖z‖ * α := mul_le_mul_of_nonneg_left h h3
  simp only [zero_sub, norm_neg, norm_zero, mul_zero, add_zero]
  nlinarith [sq_nonneg ‖z‖]

theorem gl_zero_unique (α : ℝ) (w z : E) (h : ‖w‖ ≤ α) (hz : glObj α w z ≤ glObj α w 0) : z = 0 := by
  unfold glObj at hz
  have h1 : ‖z - w‖^2 = ‖z‖^2 - 2 * inner ℝ z w + ‖w‖^2 := norm_sub_sq_real z w
  have h2 : inner ℝ z w ≤ ‖z‖ * ‖w‖ := real_inner_le_norm z w
  have h3 : 0 ≤ ‖z‖ := norm_nonneg z
  have h4 : ‖z‖ * ‖w‖ ≤ ‖z‖ * α := mul_le_mul_of_nonneg_left h h3
  simp only [zero_sub, norm_neg, norm_zero, mul_zero, add_zero] at hz
  have h5 : ‖z‖^2 ≤ 0 := by nlinarith
  have h6 : ‖z‖ = 0 := by nlinarith [sq_nonneg ‖z‖]
  exact norm_eq_zero.mp h6

/-- value of the objective at the radially shrunk point -/
theorem gl_shrink_val (α : ℝ) (hα : 0 ≤ α) (w : E) (h : α < ‖w‖) :
    glObj α w ((1 - α / ‖w‖) • w) = (1/2) * α^2 + α * (‖w‖ - α) := by
  have hw : 0 < ‖w‖ := lt_of_le_of_lt hα h
  have hc : 0 ≤ 1 - α / ‖w‖ := by
    have : α / ‖w‖ ≤ 1 := by rw [div_le_one hw]; exact le_of_lt h
    linarith
  unfold glObj
  have e1 : (1 - α / ‖w‖) • w - w = (-(α / ‖w‖)) • w := by
    rw [sub_smul, one_smul, neg_smul]; abel
  have n1 : ‖(1 - α / ‖w‖) • w - w‖ = α := by
    rw [e1, norm_smul, norm_neg, Real.norm_eq_abs, abs_of_nonneg (div_nonneg hα hw.le)]
    field_simp
  have n2 : ‖(1 - α / ‖w‖) • w‖ = ‖w‖ - α := by
    rw [norm_smul, Real.norm_eq_abs, abs_of_nonneg hc]
    field_simp
  rw [n1, n2]

theorem gl_shrink_min (α : ℝ) (hα : 0 ≤ α) (w z : E) (h : α < ‖w‖) :
    glObj α w ((1 - α / ‖w‖) • w) ≤ glObj α w z := by
  rw [gl_shrink_val α hα w h]
  unfold glObj
  have h1 : ‖z - w‖^2 = ‖z‖^2 - 2 * inner ℝ z w + ‖w‖^2 := norm_sub_sq_real z w
  have h2 : inner ℝ z w ≤ ‖z‖ * ‖w‖ := real_inner_le_norm z w
  nlinarith [sq_nonneg (‖z‖ - ‖w‖ + α), norm_nonneg z]

theorem gl_shrink_unique (α : ℝ) (hα : 0 ≤ α) (w z : E) (h : α < ‖w‖)
    (hz : glObj α w z ≤ glObj α w ((1 - α / ‖w‖) • w)) : z = (1 - α / ‖w‖) • w := by
  rw [gl_shrink_val α hα w h] at hz
  unfold glObj at hz
  have hw : 0 < ‖w‖ := lt_of_le_of_lt hα h
  have h1 : ‖z - w‖^2 = ‖z‖^2 - 2 * inner ℝ z w + ‖w‖^2 := norm_sub_sq_real z w
  have h2 : inner ℝ z w ≤ ‖z‖ * ‖w‖ := real_inner_le_norm z w
  have h3 : (‖z‖ - ‖w‖ + α)^2 ≤ 0 := by nlinarith [norm_nonneg z]
  have h4 : ‖z‖ = ‖w‖ - α := by nlinarith [sq_nonneg (‖z‖ - ‖w‖ + α)]
  have h5 : inner ℝ z w = ‖z‖ * ‖w‖ := by nlinarith [sq_nonneg (‖z‖ - ‖w‖ + α)]
  have h6 : ‖w‖ • z = ‖z‖ • w := (inner_eq_norm_mul_iff_real).mp h5
  have h7 : z = (‖z‖ / ‖w‖) • w := by
    rw [div_eq_inv_mul, mul_smul, ← h6, smul_smul, inv_mul_cancel₀ hw.ne', one_smul]
  rw [h7, h4]
  congr 1
  field_simp

/-- L4: for every alpha >= 0 and every w (any dimension; a group flattened to one row is one such w), the closed
form is a minimiser, and every minimiser equals it. -/
theorem gl_unique_min (α : ℝ) (hα : 0 ≤ α) (w z : E) :
    glObj α w (glProx α w) ≤ glObj α w z ∧ (glObj α w z ≤ glObj α w (glProx α w) → z = glProx α w) := by
  unfold glProx
  by_cases h : ‖w‖ ≤ α
  · simp only [h, if_true]
    exact ⟨gl_zero_min α w z h, gl_zero_unique α w z h⟩
  · simp only [h, if_false]
    have h' : α < ‖w‖ := lt_of_not_ge h
    exact ⟨gl_shrink_min α hα w z h', gl_shrink_unique α hα w z h'⟩

end GroupLasso

section Hier

/-- one hidden weight: the change of its quadratic term is bounded below by the linearisation of the KKT argument -/
theorem hier_term (u θ t M r s : ℝ) (ht : |t| ≤ M * s)
    (hΛ : 0 ≤ |u| - |θ|) (hCS : (|u| - |θ|) * (|θ| - M * r) = 0) (hSG : 0 ≤ θ * u) :
    - (M * (|u| - |θ|) * (s - r)) ≤ (1/2) * (t - u)^2 - (1/2) * (θ - u)^2 := by
  have e1 : θ * u = |θ| * |u| := by rw [← abs_mul, abs_of_nonneg hSG]
  have e2 : (θ - u)^2 = (|u| - |θ|)^2 := by
    have := sq_abs θ; have := sq_abs u; nlinarith
  have e3 : (|u| - |t|)^2 ≤ (t - u)^2 := by
    have h1 := sq_abs t; have h2 := sq_abs u
    have h3 : t * u ≤ |t| * |u| := by rw [← abs_mul]; exact le_abs_self _
    nlinarith
  rw [e2]
  set a := |u| with ha
  set lam := a - |θ| with hl
  rcases mul_eq_zero.mp hCS with h0 | h0
  · rw [h0]; nlinarith [sq_nonneg (t - u)]
  · have hθ : |θ| = M * r := by linarith
    have hlam : lam = a - M * r := by rw [hl, hθ]
    by_cases hp : 0 ≤ a - M * s
    · have h5 : (a - M * s)^2 ≤ (a - |t|)^2 := by
        have : a - M * s ≤ a - |t| := by linarith
        nlinarith
      nlinarith [sq_nonneg (M * (s - r))]
    · have hp' : a - M * s < 0 := lt_of_not_ge hp
      have h6 : lam ≤ M * (s - r) := by rw [hlam]; nlinarith
      nlinarith [sq_nonneg (t - u), mul_nonneg hΛ (sub_nonneg.mpr h6)]

variable {E : Type*} [NormedAddCommGroup E] [InnerProductSpace ℝ E]
variable {ι : Type*} [Fintype ι]

/-- objective of the hierarchical (LassoNet) proximal problem for one feature / group -/
noncomputable def hierObj (α : ℝ) (v : E) (u : ι → ℝ) (b : E) (t : ι → ℝ) : ℝ :=
  (1/2) * ‖b - v‖^2 + (1/2) * ∑ j, (t j - u j)^2 + α * ‖b‖

/-- KKT sufficiency in an arbitrary inner-product space for the skip weights -/
theorem hier_kkt_min (α M : ℝ) (v β : E) (u θ : ι → ℝ)
    (hΛ : ∀ j, 0 ≤ |u j| - |θ j|)
    (hCS : ∀ j, (|u j| - |θ j|) * (|θ j| - M * ‖β‖) = 0)
    (hSG : ∀ j, 0 ≤ θ j * u j)
    (hIn : inner ℝ β v = ‖β‖ * ‖v‖)
    (hST0 : ‖β‖ = 0 → ‖v‖ - α + M * ∑ j, (|u j| - |θ j|) ≤ 0)
    (hST1 : ‖β‖ ≠ 0 → ‖β‖ - ‖v‖ + α - M * ∑ j, (|u j| - |θ j|) = 0)
    (b : E) (t : ι → ℝ) (hfeas : ∀ j, |t j| ≤ M * ‖b‖) :
    hierObj α v u β θ ≤ hierObj α v u b t := by
  unfold hierObj
  have hsum : - (M * (∑ j, (|u j| - |θ j|)) * (‖b‖ - ‖β‖)) ≤
      (1/2) * ∑ j, (t j - u j)^2 - (1/2) * ∑ j, (θ j - u j)^2 := by
    have hterm : ∀ j ∈ (Finset.univ : Finset ι), - (M * (|u j| - |θ j|) * (‖b‖ - ‖β‖)) ≤ (1/2) * (t j - u j)^2 - (1/2) * (θ j - u j)^2 :=
      fun j _ => hier_term (u j) (θ j) (t j) M ‖β‖ ‖b‖ (hfeas j) (hΛ j) (hCS j) (hSG j)
    have h := Finset.sum_le_sum hterm
    have hL : ∑ j, - (M * (|u j| - |θ j|) * (‖b‖ - ‖β‖)) = - (M * (∑ j, (|u j| - |θ j|)) * (‖b‖ - ‖β‖)) := by
      rw [Finset.sum_neg_distrib, ← Finset.sum_mul, ← Finset.mul_sum]
    have hR : ∑ j, ((1/2) * (t j - u j)^2 - (1/2) * (θ j - u j)^2) = (1/2) * ∑ j, (t j - u j)^2 - (1/2) * ∑ j, (θ j - u j)^2 := by
      rw [Finset.sum_sub_distrib, ← Finset.mul_sum, ← Finset.mul_sum]
    rw [hL, hR] at h
    exact h
  have h1 : ‖b - v‖^2 = ‖b‖^2 - 2 * inner ℝ b v + ‖v‖^2 := norm_sub_sq_real b v
  have h2 : ‖β - v‖^2 = ‖β‖^2 - 2 * inner ℝ β v + ‖v‖^2 := norm_sub_sq_real β v
  have h3 : inner ℝ b v ≤ ‖b‖ * ‖v‖ := real_inner_le_norm b v
  have hs : 0 ≤ ‖b‖ := norm_nonneg b
  set Λ := ∑ j, (|u j| - |θ j|) with hΛdef
  by_cases hr : ‖β‖ = 0
  · have h0 := hST0 hr
    rw [hr] at hsum h2 hIn ⊢
    have h5 := mul_nonneg hs (by linarith : 0 ≤ -(‖v‖ - α + M * Λ))
    nlinarith [sq_nonneg ‖b‖]
  · have h0 := hST1 hr
    have key : M * Λ = ‖β‖ - ‖v‖ + α := by linarith
    rw [key] at hsum
    nlinarith [sq_nonneg (‖b‖ - ‖β‖)]

/-- colinearity and equal direction, coordinate by coordinate, give <beta, v> = ||beta|| ||v|| -/
theorem inner_of_colinear {k : ℕ} (β v : EuclideanSpace ℝ (Fin k))
    (hcol : ∀ i j, β i * v j = β j * v i) (hdir : ∀ j, 0 ≤ β j * v j) :
    inner ℝ β v = ‖β‖ * ‖v‖ := by
  have hin : inner ℝ β v = ∑ i, β i * v i := by
    simp [PiLp.inner_apply, mul_comm]
  have hnb : ‖β‖^2 = ∑ i, (β i)^2 := by
    rw [EuclideanSpace.norm_sq_eq]; simp [sq_abs]
  have hnv : ‖v‖^2 = ∑ i, (v i)^2 := by
    rw [EuclideanSpace.norm_sq_eq]; simp [sq_abs]
  have hpos : 0 ≤ inner ℝ β v := by
    rw [hin]; exact Finset.sum_nonneg (fun j _ => hdir j)
  have hsq : (inner ℝ β v)^2 = (‖β‖ * ‖v‖)^2 := by
    rw [mul_pow, hnb, hnv, hin, sq, Finset.sum_mul_sum, Finset.sum_mul_sum]
    apply Finset.sum_congr rfl; intro i _
    apply Finset.sum_congr rfl; intro j _
    have := hcol i j
    calc β i * v i * (β j * v j) = β i * v j * (β j * v i) := by ring
      _ = β i * v j * (β i * v j) := by rw [← this]
      _ = β i ^ 2 * v j ^ 2 := by ring
  have hnn : 0 ≤ ‖β‖ * ‖v‖ := mul_nonneg (norm_nonneg _) (norm_nonneg _)
  calc inner ℝ β v = Real.sqrt ((inner ℝ β v)^2) := (Real.sqrt_sq hpos).symm
    _ = Real.sqrt ((‖β‖ * ‖v‖)^2) := by rw [hsq]
    _ = ‖β‖ * ‖v‖ := Real.sqrt_sq hnn

/-- L5, with exactly the clauses of HierProx.ensures as hypotheses (k skip weights, h hidden weights, any k and h):
feasible, lambda >= 0, complementary slackness, sign, colinear, same direction, stationarity. -/
theorem hier_certificate_min {k h : ℕ} (α M : ℝ) (v β : EuclideanSpace ℝ (Fin k)) (u θ : Fin h → ℝ)
    (hF : ∀ j, 0 ≤ M * ‖β‖ - |θ j|)
    (hΛ : ∀ j, 0 ≤ |u j| - |θ j|)
    (hCS : ∀ j, (|u j| - |θ j|) * (|θ j| - M * ‖β‖) = 0)
    (hSG : ∀ j, 0 ≤ θ j * u j)
    (hcol : ∀ i j, β i * v j = β j * v i)
    (hdir : ∀ j, 0 ≤ β j * v j)
    (hST0 : ‖β‖ = 0 → ‖v‖ - α + M * ∑ j, (|u j| - |θ j|) ≤ 0)
    (hST1 : ‖β‖ ≠ 0 → ‖β‖ - ‖v‖ + α - M * ∑ j, (|u j| - |θ j|) = 0) :
    (∀ j, |θ j| ≤ M * ‖β‖) ∧
    ∀ (b : EuclideanSpace ℝ (Fin k)) (t : Fin h → ℝ), (∀ j, |t j| ≤ M * ‖b‖) → hierObj α v u β θ ≤ hierObj α v u b t := by
  refine ⟨fun j => by linarith [hF j], fun b t hfeas => ?_⟩
  exact hier_kkt_min α M v β u θ hΛ hCS hSG (inner_of_colinear β v hcol hdir) hST0 hST1 b t hfeas

end Hier

end ProxSpec
