import Mathlib.Analysis.SpecialFunctions.Log.Basic
import Mathlib.Analysis.SpecialFunctions.Sqrt
import Mathlib.Analysis.MeanInequalities
import Mathlib.Algebra.BigOperators.Field
import Mathlib.Tactic
open Finset BigOperators Real

namespace GemSpec

variable {n : ℕ}

/-- a finite probability vector -/
structure IsProb (a : Fin n → ℝ) : Prop where
  nonneg : ∀ i, 0 ≤ a i
  sum_one : ∑ i, a i = 1

noncomputable def tv (a b : Fin n → ℝ) : ℝ := (1/2) * ∑ i, |a i - b i|
noncomputable def hell2 (a b : Fin n → ℝ) : ℝ := 1 - ∑ i, Real.sqrt (a i * b i)
noncomputable def chi2 (a b : Fin n → ℝ) : ℝ := ∑ i, (a i - b i)^2 / b i
noncomputable def kl (a b : Fin n → ℝ) : ℝ := ∑ i, a i * Real.log (a i / b i)

theorem tv_nonneg (a b : Fin n → ℝ) : 0 ≤ tv a b := by
  unfold tv
  have : 0 ≤ ∑ i, |a i - b i| := Finset.sum_nonneg (fun i _ => abs_nonneg _)
  linarith

theorem tv_le_one (a b : Fin n → ℝ) (ha : IsProb a) (hb : IsProb b) : tv a b ≤ 1 := by
  unfold tv
  have h : ∑ i, |a i - b i| ≤ ∑ i, (a i + b i) := by
    apply Finset.sum_le_sum
    intro i _
    rw [abs_le]
    constructor <;> linarith [ha.nonneg i, hb.nonneg i]
  rw [Finset.sum_add_distrib, ha.sum_one, hb.sum_one] at h
  linarith

theorem sqrt_mul_le_half (x y : ℝ) (hx : 0 ≤ x) (hy : 0 ≤ y) : Real.sqrt (x * y) ≤ (x + y) / 2 := by
  rw [show (x + y) / 2 = Real.sqrt (((x + y) / 2)^2) from (Real.sqrt_sq (by linarith)).symm]
  apply Real.sqrt_le_sqrt
  nlinarith [sq_nonneg (x - y)]

theorem hell2_nonneg (a b : Fin n → ℝ) (ha : IsProb a) (hb : IsProb b) : 0 ≤ hell2 a b := by
  unfold hell2
  have h : ∑ i, Real.sqrt (a i * b i) ≤ ∑ i, (a i + b i) / 2 :=
    Finset.sum_le_sum (fun i _ => sqrt_mul_le_half _ _ (ha.nonneg i) (hb.nonneg i))
  rw [← Finset.sum_div, Finset.sum_add_distrib, ha.sum_one, hb.sum_one] at h
  linarith

theorem hell2_le_one (a b : Fin n → ℝ) : hell2 a b ≤ 1 := by
  unfold hell2
  have : 0 ≤ ∑ i, Real.sqrt (a i * b i) := Finset.sum_nonneg (fun i _ => Real.sqrt_nonneg _)
  linarith

theorem chi2_nonneg (a b : Fin n → ℝ) (hb : ∀ i, 0 < b i) : 0 ≤ chi2 a b := by
  unfold chi2
  apply Finset.sum_nonneg
  intro i _
  exact div_nonneg (sq_nonneg _) (le_of_lt (hb i))

/-- Gibbs' inequality for strictly positive finite distributions -/
theorem kl_nonneg (a b : Fin n → ℝ) (ha : IsProb a) (hb : IsProb b)
    (hapos : ∀ i, 0 < a i) (hbpos : ∀ i, 0 < b i) : 0 ≤ kl a b := by
  unfold kl
  have key : ∀ i, a i - b i ≤ a i * Real.log (a i / b i) := by
    intro i
    have hq : 0 < b i / a i := div_pos (hbpos i) (hapos i)
    have hlog : Real.log (b i / a i) ≤ b i / a i - 1 := Real.log_le_sub_one_of_pos hq
    have hinv : Real.log (a i / b i) = - Real.log (b i / a i) := by
      rw [← Real.log_inv, inv_div]
    rw [hinv]
    have hne : a i ≠ 0 := ne_of_gt (hapos i)
    have h1 : a i * (b i / a i - 1) = b i - a i := by
      field_simp
    have h2 : a i * Real.log (b i / a i) ≤ a i * (b i / a i - 1) :=
      mul_le_mul_of_nonneg_left hlog (le_of_lt (hapos i))
    rw [h1] at h2
    linarith
  have h : ∑ i, (a i - b i) ≤ ∑ i, a i * Real.log (a i / b i) :=
    Finset.sum_le_sum (fun i _ => key i)
  rw [Finset.sum_sub_distrib, ha.sum_one, hb.sum_one] at h
  linarith

/-- a π-weighted average of non-negative distances is non-negative (OvA and OvO forms) -/
theorem weighted_nonneg {K : ℕ} (w : Fin K → ℝ) (d : Fin K → ℝ) (hw : ∀ k, 0 ≤ w k) (hd : ∀ k, 0 ≤ d k) :
    0 ≤ ∑ k, w k * d k := Finset.sum_nonneg (fun k _ => mul_nonneg (hw k) (hd k))

theorem weighted_le_one {K : ℕ} (w : Fin K → ℝ) (d : Fin K → ℝ) (hw : ∀ k, 0 ≤ w k) (hs : ∑ k, w k = 1)
    (hd : ∀ k, d k ≤ 1) : ∑ k, w k * d k ≤ 1 := by
  calc ∑ k, w k * d k ≤ ∑ k, w k * 1 := Finset.sum_le_sum (fun k _ => mul_le_mul_of_nonneg_left (hd k) (hw k))
    _ = 1 := by simp [hs]

end GemSpec
