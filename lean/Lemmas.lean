import Mathlib.GroupTheory.Perm.Sign
import Mathlib.GroupTheory.Perm.Fin
import Mathlib.Algebra.BigOperators.Fin
import Mathlib.Tactic
open Finset BigOperators

namespace GemLemmas

/-- L2: two gradients whose differences to the last column agree act identically on every simplex-tangent direction -/
theorem tangent_agree {K : ℕ} (g h δ : Fin (K+1) → ℝ)
    (hd : ∀ k, g k - g (Fin.last K) = h k - h (Fin.last K)) (hδ : ∑ k, δ k = 0) :
    ∑ k, g k * δ k = ∑ k, h k * δ k := by
  have e : ∀ k, g k * δ k = h k * δ k + (g (Fin.last K) - h (Fin.last K)) * δ k := by
    intro k
    have e1 : g k = h k + (g (Fin.last K) - h (Fin.last K)) := by linarith [hd k]
    rw [e1]; ring
  simp_rw [e, Finset.sum_add_distrib, ← Finset.mul_sum, hδ, mul_zero, add_zero]

/-- L6: telescoping -- if every recorded gain is the increase of the score at its step, the final score is the root score plus the gains -/
theorem telescoping (T : ℕ) (score : ℕ → ℝ) (gain : ℕ → ℝ) (hstep : ∀ t < T, score (t+1) = score t + gain t) :
    score T = score 0 + ∑ t ∈ Finset.range T, gain t := by
  induction T with
  | zero => simp
  | succ n ih =>
    rw [Finset.sum_range_succ, hstep n (Nat.lt_succ_self n), ih (fun t ht => hstep t (Nat.lt_succ_of_lt ht))]
    ring

/-- L8: adjacent transpositions generate every permutation of n+1 items -/
theorem adjacent_swaps_generate (n : ℕ) :
    Submonoid.closure (Set.range fun i : Fin n => Equiv.swap i.castSucc i.succ) = ⊤ :=
  Equiv.Perm.mclosure_swap_castSucc_succ n

end GemLemmas
