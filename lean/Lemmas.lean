import Mathlib.GroupTheory.Perm.Sign
import Mathlib.GroupTheory.Perm.Fin
import Mathlib.Algebra.BigOperators.Fin
import Mathlib.Tactic
open Finset BigOperators

namespace GemLemmas

/-- L2: two gradients whose differences to the last column agree act identically on every simplex-tangent direction -/
theorem tangent_agree {K : ℕ} (g h δ : Fin (K+1) → ℝ)
    (hd : ∀ k, g k - g (Fin.last K) = h k - h (Fin.last K)) (hδ : ∑ k, δ k = 0) :
    ∑ k, g k * δ k = ∑ k, h k * δ k := by
  have e : ∀ k, g k * δ k = h k * δ k + (g (Fin.last K) - h (Fin.last K)) * δ k := by
    intro k
    have e1 : g k = h k + (g (Fin.last K) - h (Fin.last K)) := by linarith [hd k]
    rw [e1]; ring
  simp_rw [e, Finset.sum_add_distrib, ← Finset.mul_sum, hδ, mul_zero, add_zero]

/-- L6: telescoping -- if every recorded gain is the increase of the score at its step, the final score is the root score plus the gains -/
theorem telescoping (T : ℕ) (score : ℕ → ℝ) (gain : ℕ → ℝ) (hstep : ∀ t < T, score (t+1) = score t + gain t) :
    score T = score 0 + ∑ t ∈ Finset.range T, gain t := by
  induction T with
  | zero => simp
  | succ n ih =>
    rw [Finset.sum_range_succ, hstep n (Nat.lt_succ_self n), ih (fun t ht => hstep t (Nat.lt_succ_of_lt ht))]
    ring

/-- L8: adjacent transpositions generate every permutation of n+1 items -/
theorem adjacent_swaps_generate (n : ℕ) :
    Submonoid.closure (Set.range fun i : Fin n => Equiv.swap i.castSucc i.succ) = ⊤ :=
  Equiv.Perm.mclosure_swap_castSucc_succ n

/-- a sequence that strictly increases on every step of [a, b) is strictly larger at b than at a -/
theorem chain_up (ℓ : ℕ → ℝ) (a : ℕ) : ∀ b, a < b → (∀ j, a ≤ j → j < b → ℓ j < ℓ (j+1)) → ℓ a < ℓ b := by
  intro b
  induction b with
  | zero => intro h; omega
  | succ n ih =>
    intro hab hstep
    rcases Nat.lt_or_ge a n with h | h
    · have h1 := ih h (fun j hj hjn => hstep j hj (Nat.lt_succ_of_lt hjn))
      have h2 := hstep n (Nat.le_of_lt h) (Nat.lt_succ_self n)
      linarith
    · have : a = n := by omega
      subst this
      exact hstep a (le_refl a) (Nat.lt_succ_self a)

theorem chain_down (ℓ : ℕ → ℝ) (a : ℕ) : ∀ b, a < b → (∀ j, a ≤ j → j < b → ℓ (j+1) < ℓ j) → ℓ b < ℓ a := by
  intro b hab h
  have := chain_up (fun j => - ℓ j) a b hab (fun j hj hjb => by simpa using neg_lt_neg (h j hj hjb))
  simpa using neg_lt_neg this

/-- L9: Douglas soft binning. With sorted cut points, logits whose consecutive differences are (x - c_j)/T (T > 0), and r cut
points below x (x on no cut point), bin r has the strictly largest logit -- for every temperature, hence the hard assignment
reached as T -> 0 is "number of cut points below x", constant on the cells of the grid. -/
theorem bin_argmax (m r : ℕ) (hr : r ≤ m) (c ℓ : ℕ → ℝ) (x T : ℝ) (hT : 0 < T)
    (hstep : ∀ j < m, ℓ (j+1) - ℓ j = (x - c j) / T)
    (hbelow : ∀ j < r, c j < x) (habove : ∀ j, r ≤ j → j < m → x < c j) :
    ∀ j ≤ m, j ≠ r → ℓ j < ℓ r := by
  intro j hjm hjr
  rcases Nat.lt_or_gt_of_ne hjr with h | h
  · apply chain_up ℓ j r h
    intro i hji hir
    have hi : i < m := lt_of_lt_of_le hir hr
    have e := hstep i hi
    have : 0 < (x - c i) / T := div_pos (by linarith [hbelow i hir]) hT
    linarith
  · apply chain_down ℓ r j h
    intro i hri hij
    have hi : i < m := lt_of_lt_of_le hij hjm
    have e := hstep i hi
    have : (x - c i) / T < 0 := div_neg_of_neg_of_pos (by linarith [habove i hri hi]) hT
    linarith

end GemLemmas
