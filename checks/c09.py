"""C09 -- KAURI trees respect their structural limits and reproduce their own partition."""
META = dict(level="proof", trusted_base=["FX term interpreter", "own normal-form prover", "mechanical de-cythonisation of _utils.pyx",
                                         "NumPy boolean-mask indexing in Tree.predict"])


def tasks(tier, seed):
    to = 1500 if tier == "quick" else 6000
    return [("contracts.tree_predict", "task", (tier, seed), to, "Tree._add_child / Tree.predict"),
            ("contracts.kauri_gain", "task_stocks", (tier, seed), to, "find_best_split window and thresholds"),
            ("contracts.kauri_gain", "task_objective", (tier, seed), to, "gemini_objective")]


def extra(led, tier, seed):
    from contracts import kauri_fit, kauri_native, kauri_conformance, predict_glue
    led.extend(kauri_fit.obligations())
    led.extend(o for o in predict_glue.obligations() if o.name.startswith("Kauri."))
    led.extend(kauri_conformance.obligations(seed))
    from contracts import dtype_native
    led.extend(dtype_native.predict_dtypes(seed, only=("Kauri",)))
    led.extend(o for o in kauri_native.obligations(tier, seed) if "structural limits" in o.name)
    from contracts import infer_local
    led.extend(o for o in infer_local.native_locality_large(seed, tier) if "Kauri" in o.name)
    led.assume("A1", "A2", "A3", "A4", "A7: extraction of _utils.pyx (see engine/decython.py); conformance with the compiled extension checked on random states",
               "limits follow from the loop contracts: n_leaves < max_leaves in the guard and +1 per split => leaves <= max_leaves; a child is queued only when "
               "depth+1 < max_depth => depth <= max_depth; targets < n_clusters + (0|1|2) and n_clusters grows by exactly the number of new targets => labels contiguous from 0 "
               "and <= max_clusters (find_best_split offers new clusters only while n_clusters < K_max, C08 Lemma B candidates); nodes = 2*leaves-1 (Tree contract)",
               "thresholds are observed feature values and both sides hold >= min_samples_leaf samples: Stocks contract (visited positions are exactly the admissible data thresholds)")
