"""C16 -- invalid hyper-parameters and malformed inputs are rejected, never trained on."""
META = dict(level="proof", trusted_base=["z3 (interval equivalences)", "scikit-learn _validate_params / Interval / StrOptions semantics", "scikit-learn check_array / validate_data / check_is_fitted",
                                         "FX term interpreter", "the documented-domain table contracts/domains.py"])


def tasks(tier, seed):
    return []


def extra(led, tier, seed):
    from contracts import validation as V, sparse_sel, kauri_fit, predict_glue, mlcl_valid, tree_print
    led.extend(V.domain_equivalence())
    led.extend(V.probe_table(tier))
    led.extend(V.cross_parameter())
    led.extend(V.validation_first())
    led.extend(V.unfitted())
    led.extend(V.function_domains())
    led.extend(V.malformed_data())
    led.extend(o for o in kauri_fit.obligations() if "raises ValueError" in o.name or "_validate_params() first" in o.name)
    led.extend(o for o in predict_glue.obligations() if "check_is_fitted" in o.name)
    led.extend(sparse_sel.check_groups_exhaustive(4 if tier == "thorough" else 3))
    led.extend(mlcl_valid.malformed())
    # add_mlcl_constraint is a validated function too: an inconsistent combination (a cannot-link pair inside a must-link
    # component) is rejected, every consistent one accepted (ghost typing for all inputs + exhaustive small id universes)
    led.extend(mlcl_valid.ghost_typing())
    led.extend(mlcl_valid.exhaustive(tier))
    led.extend(o for o in tree_print.rejection_table() if "unfitted" in o.name or "refused" in o.name or "names" in o.name)
    led.assume("A4", "A5: sklearn Interval / StrOptions / _validate_params implement the declared constraints; check_array / validate_data reject non-finite, non-numeric, "
               "non-2-D, empty and too-small data (relied upon for the malformed-data rows, labelled B)",
               "the documented domains are the table contracts/domains.py (transcribed from the docstrings and reconciled with C05/C06/C11 as listed there)",
               "'without a fitted model' is read behaviourally: predict after the failed fit raises")
