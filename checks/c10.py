"""C10 -- mini-batches partition the data and stay aligned with the affinity matrix."""
META = dict(level="proof", trusted_base=["z3 5.1 (QF_NIA)", "VC generator (engine/vc.py) and its stated Python subset", "FX term interpreter",
                                         "NumPy indexing axioms; permutation contract of RandomState"])


def tasks(tier, seed):
    return [("contracts.mlcl_grads", "task", (tier, seed), 900, "mlcl.decorate (batches, indices, injection)")]


def extra(led, tier, seed):
    from contracts import batching, fit_loop
    led.extend(batching.vc_obligations())
    led.extend(batching.fx_obligations())
    # fit performs max_iter x (one _update_weights per yielded pair): loop structure contracts of C03
    led.extend(o for o in fit_loop.obligations() if any(k in o.name for k in (
        "exactly one _update_weights call site", "batch loop iterates _batchify", "epoch loop is range(self.max_iter)",
        "n_iter_ = max_iter", "_batchify(X, affinity, rng)", "the array cut into batches", "the affinity is computed on that same array")))
    # the batch size the loops use is the one the caller gave: every constructor stores batch_size (and the other options) unchanged
    from contracts import forwarding
    led.extend(o for o in forwarding.init_obligations() if "GEMINI" not in o.name and not o.name.startswith("MI."))
    from contracts import sparse_sel
    led.extend(o for o in sparse_sel.update_weights_flow() if "optimiser update" in o.name or "two paths" in o.name)
    led.extend(forwarding.update_step_obligations())
    # B: real fits at larger / awkward sizes take exactly max_iter * ceil(n / batch_size) optimiser steps (counted at the optimiser)
    from contracts import rt_obligations
    led.extend(rt_obligations.ladder_obligations(seed, tier))
    led.assume("A2", "A4", "A8",
               "random_state.permutation(n) returns a permutation of 0..n-1 (contract on NumPy)",
               "NumPy indexing axioms: X[idx][a] = X[idx[a]], (A[r][:, c])[a,b] = A[r[a], c[b]], arange(n)[part] = part",
               "number of optimiser steps = max_iter * ceil(n/batch_size): epoch loop range(max_iter) x one _update_weights per pair yielded "
               "by _batchify (fit-loop contracts) x ceil(n/b) pairs per call (exit obligation of the _batchify contract)")
    led.notes.append("P-inf: all n >= 1, all batch sizes >= 1 or None, any permutation; decorated models additionally at enumerated n/perms/batch sizes")
