"""C14 -- must-link / cannot-link constraints: exact validation, right samples, right sign."""
META = dict(level="proof", trusted_base=["FX term interpreter + ghost-kind inference", "own normal-form prover (gradient injection identities)",
                                         "scipy csgraph.breadth_first_order returns the nodes reachable from the start node"])


def tasks(tier, seed):
    return [("contracts.mlcl_grads", "task", (tier, seed), 1500, "mlcl.decorate_grads"),
            # B: the same contract replayed on the real code with more samples, batches and pairs per sample (stand-in for the missing induction over sizes)
            ("contracts.size_ladder", "task", ("mlcl", tier, seed), 1500, "size ladder: constraint injection")]


def extra(led, tier, seed):
    from contracts import mlcl_valid, batching
    led.extend(mlcl_valid.ghost_typing())
    led.extend(mlcl_valid.malformed())
    led.extend(mlcl_valid.exhaustive(tier))
    # the decoration learns which sample sits in which row only through _batchify: every training loop (fit of every estimator
    # and the sparse path) must draw its batches from it, one lazily consumed generator per epoch
    from contracts import fit_loop
    led.extend(o for o in fit_loop.obligations() if "batch loop iterates _batchify" in o.name or "_batchify(X, affinity, rng)" in o.name
               or "the array cut into batches" in o.name)
    led.extend(o for o in batching.fx_obligations() if "disguise_batch" in o.name)
    led.assume("A2", "A3", "A8", "A5: csgraph.breadth_first_order(graph, i, directed=False) returns exactly the nodes of the connected component of i",
               "gradient injection proved for all real predictions / upstream gradients / factors at n = 3 (4 thorough) over the enumerated permutations, batch sizes and pair sets (P@S)",
               "accept/reject equivalence is enumerated exhaustively over small id universes (B); the ghost-typing obligation is the all-inputs part")
