"""C08 -- KAURI gains are real objective increases and the chosen split is the best one."""
META = dict(level="proof", trusted_base=["own normal-form prover (linear identities in the kernel entries)", "z3 5.1 (QF_LRA) for the selection lemma",
                                         "mechanical de-cythonisation of _utils.pyx (engine/decython.py)", "FX term interpreter for Kauri.fit"])

NCH = 8


def tasks(tier, seed):
    t = []
    to = 1500 if tier == "quick" else 6000
    for c in range(NCH):
        t.append(("contracts.kauri_gain", "task_lemma_a", (4, c, NCH, seed), to, f"lemmaA[n=4,chunk {c}]"))
    if tier == "thorough":
        for c in range(32):
            t.append(("contracts.kauri_gain", "task_lemma_a", (5, c, 32, seed), to, f"lemmaA[n=5,chunk {c}]"))
    t.append(("contracts.kauri_gain", "task_stocks", (tier, seed), to, "stocks"))
    return t


def merge_chunks(obs):
    """Lemma A obligations are aggregated per (n, n_clusters, K_max - n_clusters, kind) across chunks."""
    from engine.report import Ob
    rank = {"REFUTED": 3, "UNDECIDED": 2, "PROVED": 1}
    agg, rest = {}, []
    for o in obs:
        if not o.name.startswith("lemmaA["):
            rest.append(o)
            continue
        cur = agg.get(o.name)
        if cur is None:
            agg[o.name] = o
        else:
            c = cur.detail.get("candidates", 0) + o.detail.get("candidates", 0)
            if rank[o.status] > rank[cur.status] or (o.status == cur.status != "PROVED" and
                                                      (o.detail.get("state", ""), o.detail.get("clause", "")) < (cur.detail.get("state", ""), cur.detail.get("clause", ""))):
                agg[o.name] = o
            agg[o.name].detail["candidates"] = c
            agg[o.name].time = cur.time + o.time
    return rest + list(agg.values())


def extra(led, tier, seed):
    from contracts import kauri_select, kauri_fit, kauri_native, kauri_conformance
    from engine.report import Ob, PROVED, REFUTED
    led.obs = merge_chunks(led.obs)
    led.extend(kauri_select.obligations(tier))
    led.extend(o for o in kauri_fit.obligations())
    led.extend(kauri_conformance.obligations(seed))
    led.extend(kauri_native.obligations(tier, seed))
    f = kauri_native.selection_search(seed)
    led.add(Ob("native search: the compiled find_best_split returns the best admissible candidate (n_clusters = 4, no double-star admissible)",
               PROVED if f is None else REFUTED, "native", "B", {"native": f, "replayed": f is not None}, fn="gemclus.tree._utils.find_best_split"))
    from contracts import lean_bounds
    led.extend(lean_bounds.obligations(tier, file="Lemmas.lean", lemmas=["telescoping"], fn="specs.kauri (lemma L6)"))
    led.assume("A1", "A2", "A3", "A8",
               "A7: the de-cythonised source has the semantics of the compiled extension up to the dropped C typing (int64 wrap-around, double rounding, "
               "typed-memoryview coercions); the installed .so is the build of the current .pyx (conformance runs; cannot be rebuilt: no Cython)",
               "L6 (telescoping; machine-checked for any number of splits: lean/Lemmas.lean telescoping): if every applied gain equals the real increase (Lemma A) the final score is the root score plus the sum of the recorded gains",
               "Lemma B models the -inf initialisations by a sentinel below every gain",
               "kernel symmetric, NOT assumed positive semi-definite")
    led.notes.append("P@S: Lemma A / stocks for every tree state with n <= 4 (5 thorough) samples and every symmetric kernel; Lemma B for n_clusters <= 4 (5) with free real stocks; Kauri.fit loop P-inf")
