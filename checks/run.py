"""Entry point of every MANIFEST command: python -m checks.run <Cxx> [--tier T] [--replay FILE]

exit 0  every obligation proved or matched by a known finding
exit 1  a violation (line `VIOLATION property=<id> replay=<path>` per violation)
exit 2  undecided: no violation, but a P-tier obligation was left open (solver unknown / budget / obligation of the
        reference list not generated); never reported as a violation, never counted as held
exit 3  internal error of the checker (never used for a property violation)
"""
import argparse
import importlib
import json
import os
import sys
import traceback

ROOT = os.path.dirname(os.path.dirname(os.path.abspath(__file__)))


def replay(prop, tier, path):
    """re-decide the obligation recorded in a replay file on the CURRENT tree: the check of its property is run again (same
    tier, same seed; evidence and replay files go to a scratch directory), the obligation is looked up by name, and its
    present verdict is printed together with the recorded failing input and the native replay on the real code.
    exit 1 if the obligation is still refuted, 0 if it now holds, 2 if it is undecided / no longer generated."""
    import subprocess
    import tempfile
    j = json.load(open(path if os.path.isabs(path) else os.path.join(os.environ.get("VERIF_OUT") or ROOT, path)))
    print("recorded:", json.dumps({k: j.get(k) for k in ("property", "obligation", "function", "backend", "replayed_on_real_code")}, indent=1))
    det = j.get("detail") or {}
    for k in ("env", "counter_model", "native", "native_exception", "exception", "solver_output", "why"):
        if k in det:
            print(f"recorded {k}:", json.dumps(det[k], indent=1)[:3000])
    with tempfile.TemporaryDirectory(prefix="verif_replay_") as tmp:
        env = dict(os.environ, VERIF_OUT=tmp)
        r = subprocess.run([sys.executable, "-m", "checks.run", prop, "--tier", tier], cwd=ROOT, env=env, capture_output=True, text=True)
        ob_path = os.path.join(tmp, "evidence", f"{prop}.obligations.json")
        if not os.path.exists(ob_path):
            print("replay: the check did not complete:\n" + (r.stdout + r.stderr)[-2000:])
            return 3
        hits = [o for o in json.load(open(ob_path)) if o["name"] == j.get("obligation")]
    if not hits:
        print("replay: the obligation is no longer generated on the current tree (undecided)")
        return 2
    o = hits[0]
    print("now:", o["status"], "backend:", o["backend"])
    print(json.dumps(o.get("detail"), indent=1)[:4000])
    return 1 if o["status"] == "REFUTED" else (0 if o["status"] == "PROVED" else 2)


def main():
    ap = argparse.ArgumentParser()
    ap.add_argument("prop")
    ap.add_argument("--tier", default=os.environ.get("VERIF_TIER", "quick"))
    ap.add_argument("--replay", default=None)
    ap.add_argument("--verbose", "-v", action="store_true")
    ap.add_argument("--only", default=None, help="substring filter on task labels (debugging)")
    a = ap.parse_args()
    tier = "thorough" if a.tier == "thorough" else "quick"
    os.environ["VERIF_TIER_EFFECTIVE"] = tier          # read by engine/runner.py (exploration time budgets scale with the tier)
    seed = int(os.environ.get("VERIF_SEED", "0") or 0)
    prop = a.prop.upper()
    if a.replay:
        return replay(prop, tier, a.replay)
    from engine.report import Ledger
    from engine.runner import run_tasks
    try:
        mod = importlib.import_module(f"checks.{prop.lower()}")
        import shutil
        shutil.rmtree(os.path.join(os.environ.get("VERIF_OUT") or ROOT, "replays", prop), ignore_errors=True)
        led = Ledger(prop, tier, seed)
        tasks = mod.tasks(tier, seed)
        if a.only:
            tasks = [t for t in tasks if a.only in t[4]]
        obs, errors = run_tasks(tasks, verbose=a.verbose)
        led.extend(obs)
        if hasattr(mod, "extra"):
            mod.extra(led, tier, seed)
        if errors:
            for label, err in errors:
                print(f"[{prop}] internal error in task {label}:\n{err}", file=sys.stderr)
            led.finish(**mod.META)
            return 3
        return led.finish(**mod.META)
    except Exception:
        traceback.print_exc()
        return 3


if __name__ == "__main__":
    sys.exit(main())
