"""Entry point of every MANIFEST command: python -m checks.run <Cxx> [--tier T] [--replay FILE]

exit 0  every obligation proved or matched by a known finding
exit 1  a violation (line `VIOLATION property=<id> replay=<path>` per violation)
exit 2  undecided: no violation, but a P-tier obligation was left open (solver unknown / budget / obligation of the
        reference list not generated); never reported as a violation, never counted as held
exit 3  internal error of the checker (never used for a property violation)
"""
import argparse
import importlib
import json
import os
import sys
import traceback

ROOT = os.path.dirname(os.path.dirname(os.path.abspath(__file__)))


def main():
    ap = argparse.ArgumentParser()
    ap.add_argument("prop")
    ap.add_argument("--tier", default=os.environ.get("VERIF_TIER", "quick"))
    ap.add_argument("--replay", default=None)
    ap.add_argument("--verbose", "-v", action="store_true")
    ap.add_argument("--only", default=None, help="substring filter on task labels (debugging)")
    a = ap.parse_args()
    tier = "thorough" if a.tier == "thorough" else "quick"
    os.environ["VERIF_TIER_EFFECTIVE"] = tier          # read by engine/runner.py (exploration time budgets scale with the tier)
    seed = int(os.environ.get("VERIF_SEED", "0") or 0)
    prop = a.prop.upper()
    if a.replay:
        j = json.load(open(a.replay if os.path.isabs(a.replay) else os.path.join(ROOT, a.replay)))
        print(json.dumps(j, indent=1))
        return 0
    from engine.report import Ledger
    from engine.runner import run_tasks
    try:
        mod = importlib.import_module(f"checks.{prop.lower()}")
        import shutil
        shutil.rmtree(os.path.join(os.environ.get("VERIF_OUT") or ROOT, "replays", prop), ignore_errors=True)
        led = Ledger(prop, tier, seed)
        tasks = mod.tasks(tier, seed)
        if a.only:
            tasks = [t for t in tasks if a.only in t[4]]
        obs, errors = run_tasks(tasks, verbose=a.verbose)
        led.extend(obs)
        if hasattr(mod, "extra"):
            mod.extra(led, tier, seed)
        if errors:
            for label, err in errors:
                print(f"[{prop}] internal error in task {label}:\n{err}", file=sys.stderr)
            led.finish(**mod.META)
            return 3
        return led.finish(**mod.META)
    except Exception:
        traceback.print_exc()
        return 3


if __name__ == "__main__":
    sys.exit(main())
