"""C01 -- GEMINI scores equal their defining statistical distances."""
from engine.report import Ob, PROVED, REFUTED, UNDECIDED
from contracts.gemini_eval import CLASSES

SHAPES = {
    "quick": [(1, 2), (2, 2), (3, 2), (1, 3), (2, 3)],
    "thorough": [(1, 2), (2, 2), (3, 2), (1, 3), (2, 3), (3, 3), (4, 2), (4, 3), (3, 4), (2, 5)],
}
META = dict(level="proof",
            trusted_base=["z3 5.1", "own normal-form prover (engine/nf.py)", "NumPy object-array semantics",
                          "contract stub of ot.emd2 (optimal cost, duals)"])


def shapes_for(cls, ovo, tier):
    out = []
    for n, K in SHAPES[tier]:
        if cls == "TVGEMINI" and ovo and n * K > (6 if tier == "quick" else 9):
            continue
        if cls == "TVGEMINI" and n * K > 12:
            continue
        if ovo and n * K > 12:
            continue
        out.append((n, K))
    return out


def tasks(tier, seed):
    t = []
    for cls in CLASSES:
        for ovo in (False, True):
            for n, K in shapes_for(cls, ovo, tier):
                t.append(("contracts.gemini_eval", "task", (cls, ovo, n, K, "C01", "interior", seed),
                          600 if tier == "quick" else 3000, f"{cls}[{'ovo' if ovo else 'ova'},{n}x{K}]"))
    # B: the same contracts replayed on the real code at a ladder of larger shapes (stand-in for the missing induction over n, K)
    t.append(("contracts.size_ladder", "task", ("gemini", tier, seed, (("modes", ("C01",)),)), 1500, "size ladder: GEMINI scores"))
    return t


def extra(led, tier, seed):
    from contracts import gemini_registry
    led.extend(gemini_registry.obligations())
    led.extend(gemini_registry.frame_obligations())
    led.extend(gemini_registry.options_at_call_time(seed))
    # named kernels / metrics with parameters: the affinity handed to the score is the named one with exactly the given parameters
    from contracts import forwarding
    led.extend(forwarding.affinity_obligations())
    # the objective evaluated is the one the object's option attributes name AT CALL TIME: constructors store their parameters and
    # nothing derived from them (no variant bound once in __init__), evaluate reads the options themselves
    from gemclus import gemini as G_
    led.extend(forwarding.init_obligations(classes=[getattr(G_, n) for n in ("KLGEMINI", "MI", "TVGEMINI", "HellingerGEMINI", "ChiSquareGEMINI", "MMDGEMINI", "WassersteinGEMINI")]))
    from contracts import dtype_native
    led.extend(dtype_native.gemini_dtypes(seed))
    from contracts import gemini_large
    led.extend(gemini_large.obligations(seed, tier))
    led.assume("A1", "A2", "A3", "A4", "A8", "A9",
               "A5: ot.emd2 returns the optimal transport cost W1 of its arguments (contract of POT); "
               "W1 is symmetric for a symmetric cost matrix",
               "L1: score identities proved on the open differentiability regions extend to their closure by continuity of both sides",
               "precomputed / named kernels and metrics: the affinity is an arbitrary symmetric symbolic matrix here; which matrix a name produces is C11")
    led.notes.append("level P@S for evaluate() identities (all real inputs at each listed shape), P-inf for the registry table")
    led.extra["shapes"] = {cls: {("ovo" if o else "ova"): shapes_for(cls, o, tier) for o in (False, True)} for cls in CLASSES}
