"""C06 -- unselected features are inert; selection reads exact zeros; groups stay whole."""
import itertools

META = dict(level="proof", trusted_base=["z3 5.1", "own normal-form prover", "FX term interpreter", "installed sklearn softmax run on exact reals under its own contract"])


def tasks(tier, seed):
    t = []
    to = 900 if tier == "quick" else 3000
    for fam in ("sparse_linear", "sparse_mlp"):
        cfgs = [(2, 2, 2, ()), (2, 2, 2, (0,)), (2, 2, 2, (1,)), (1, 3, 2, (0, 2)), (2, 2, 2, (0, 1))]
        if tier == "thorough":
            cfgs += [(2, 3, 3, z) for z in [(1,), (0, 1), (2,)]]
        for n, d, K, z in cfgs:
            t.append(("contracts.sparse_sel", "task", (fam, n, d, K, z, seed), to, f"{fam}[n={n},d={d},K={K},zero={list(z)}]"))
    # M = 0 is legal: first-layer rows are zero while the skip rows are not -- the selection is read off the skip weights
    t.append(("contracts.sparse_sel", "task", ("sparse_mlp", 2, 2, 2, (), seed, (0, 1)), to, "sparse_mlp[n=2,d=2,K=2,zero=[],first layer zero=[0,1]]"))
    t.append(("contracts.sparse_sel", "task", ("sparse_mlp", 2, 3, 2, (1,), seed, (0,)), to, "sparse_mlp[n=2,d=3,K=2,zero=[1],first layer zero=[0]]"))
    # groups stay whole: group prox contracts (all partitions)
    from contracts.prox import partitions
    for d in (2, 3):
        for part in partitions(range(d)):
            t.append(("contracts.prox", "task", ("group_linear", (d, 2, part), seed), to, f"group_linear[d={d},{part}]"))
    # a group is a SET of features: listed in any order, interleaved with other groups, it must still be shrunk as a whole
    t.append(("contracts.prox", "task", ("group_linear", (4, 1, [[0, 3, 2], [1]]), seed), to, "group_linear[d=4,[[0,3,2],[1]]]"))
    t.append(("contracts.prox", "task", ("group_linear", (4, 1, [[2, 0], [3, 1]]), seed), to, "group_linear[d=4,[[2,0],[3,1]]]"))
    t.append(("contracts.prox", "task", ("group_hier", (3, 1, 1, [[2, 0], [1]]), seed), to, "group_hier[d=3,[[2,0],[1]]]"))
    for part in partitions(range(2)):
        t.append(("contracts.prox", "task", ("group_hier", (2, 1, 1, part), seed), to, f"group_hier[d=2,{part}]"))
    t.append(("contracts.prox", "task", ("hier", (1, 2, "generic", 1), seed), to, "hier[k=1,h=2] (feasibility: hierarchy)"))
    # boundary values of the hierarchy step: M = 0 forces the first layer to zero (|W1| <= 0 * ||W_skip||), alpha = 0 keeps the hierarchy
    t.append(("contracts.prox", "task", ("hier", (1, 2, "M0", 1), seed), to, "hier[k=1,h=2,M0] (feasibility: hierarchy)"))
    t.append(("contracts.prox", "task", ("hier", (2, 1, "alpha0", 1), seed), to, "hier[k=2,h=1,alpha0] (feasibility: hierarchy)"))
    # the threshold alpha * optimiser_.learning_rate reads the optimiser's *current* step size: contract on the installed optimisers
    from contracts import external_deps
    t += external_deps.softmax_tasks(tier, seed) + external_deps.optimiser_tasks(tier, seed)
    # B: the same contracts replayed on the real code at a ladder of larger shapes (stand-in for the missing induction over sizes)
    t.append(("contracts.size_ladder", "task", ("prox", tier, seed), 1500, "size ladder: proximal operators"))
    t.append(("contracts.size_ladder", "task", ("selection", tier, seed), 1500, "size ladder: selection / inertness"))
    return t


def extra(led, tier, seed):
    from contracts import sparse_sel, prox_native
    led.extend(prox_native.unordered_groups(seed))
    led.extend(sparse_sel.selection_frame())
    led.extend(sparse_sel.native_selection_histories(seed))
    led.extend(sparse_sel.update_weights_flow())
    led.extend(sparse_sel.training_steps_flow())
    led.extend(sparse_sel.fit_groups_flow())
    led.extend(sparse_sel.check_groups_exhaustive(4 if tier == "thorough" else 3))
    led.assume("A1", "A2", "A3", "A4", "A8",
               "discharged, no longer assumed: the installed sklearn softmax equals the stub used by the inertness contracts; the installed SGDOptimizer keeps learning_rate at the "
               "constructor value and AdamOptimizer stores lr_init*sqrt(1-beta2^t)/(1-beta1^t) in learning_rate at every step (the value the proximal threshold reads)",
               "hierarchy: feasibility |W1[f,j]| <= M*||W_skip[f]|| of the hierarchical prox (C05 contract, re-checked here) makes the first-layer row of an "
               "unselected feature zero after every update, which is the precondition of the inertness contract",
               "a generic (symbolic) weight row is non-zero except on a measure-zero set; exact zero rows are modelled as concrete zeros",
               "check_groups: complete enumeration over small feature sets is a bounded stand-in (B), as the property itself asks for exhaustive small sets")
