"""C15 -- Douglas: masked features inert, valid soft bins, active points as defined."""
import itertools

META = dict(level="proof", trusted_base=["Lean 4.33 kernel + Mathlib (lemma L9)", "z3 5.1", "own normal-form prover", "installed sklearn softmax run on exact reals under its own contract", "NumPy object-array semantics (einsum, argsort, cumsum)"])


def tasks(tier, seed):
    t = []
    to = 900 if tier == "quick" else 3000
    bins = [(2, 1, 2, 1, (True,)), (2, 2, 2, 1, (True, False)), (2, 2, 2, 1, (False, True)), (2, 2, 2, 1, (True, True)),
            (1, 1, 2, 2, (True,)), (2, 2, 2, 2, (False, True)), (1, 1, 2, 3, (True,))]
    if tier == "thorough":
        bins += [(2, 3, 2, 1, m) for m in itertools.product([True, False], repeat=3) if any(m)] + [(2, 2, 3, 2, (True, True)), (2, 1, 2, 3, (True,))]
    for b in bins:
        t.append(("contracts.douglas", "task", ("bins", b, seed), to, f"bins{list(b)}"))
    act = [(2, 1, 1), (2, 1, 2), (3, 1, 2), (2, 2, 2), (2, 1, 3)] + ([(3, 1, 3), (3, 2, 2)] if tier == "thorough" else [])
    for a in act:
        t.append(("contracts.douglas", "task", ("active", a, seed), to, f"active{list(a)}"))
    from contracts import external_deps
    t += external_deps.softmax_tasks(tier, seed)
    # B: the same contracts replayed on the real code at a ladder of larger shapes (stand-in for the missing induction over sizes)
    t.append(("contracts.size_ladder", "task", ("douglas_bins", tier, seed), 1500, "size ladder: soft bins / active points"))
    return t


def extra(led, tier, seed):
    from contracts import douglas
    led.extend(douglas.init_params_table())
    from contracts import predict_glue
    led.extend(o for o in predict_glue.infer_frame() if o.name.startswith("Douglas."))
    led.extend(o for o in predict_glue.obligations() if o.name.startswith("Douglas."))
    from contracts import dtype_native
    led.extend(dtype_native.predict_dtypes(seed, only=("Douglas",)))
    from contracts import infer_local
    led.extend(o for o in infer_local.native_locality_large(seed, tier) if "Douglas" in o.name)
    from contracts import lean_bounds
    led.extend(lean_bounds.obligations(tier, file="Lemmas.lean", lemmas=["bin_argmax"], fn="specs.douglas (lemma L9)"))
    led.extend(douglas.lemma_link_L9(led.obs))
    led.assume("A1", "A2", "A3", "A4", "A8", "A5 (discharged, no longer assumed): the installed sklearn softmax has positive entries summing to 1 per row and equals the stub exp(h)/sum exp(h) (contracts/external_deps.py)",
               "L9 (machine-checked for any number of cut points and every T > 0: lean/Lemmas.lean bin_argmax): with logit differences (x - c_(j))/T the strictly largest "
               "logit of a sample is that of bin r = number of cut points below its value, whatever the temperature; hence the hard assignment reached as T -> 0 is constant on the "
               "cells of the grid drawn by the cut points. What stays stated, not machine-checked: softmax(l) tends to the one-hot vector of the strict arg-max as the scale of l grows",
               "back-propagation through the bins is the C03 VJP contract")
