"""C19 -- the printed KAURI tree is a faithful description of the fitted tree."""
META = dict(level="proof", trusted_base=["fork engine (comparisons of symbolic points with symbolic thresholds)", "the reference reader of the printed grammar (contracts/tree_print.py)"])


def tasks(tier, seed):
    return [("contracts.tree_print", "task", (tier, seed), 1500 if tier == "quick" else 6000, "print_kauri_tree")]


def extra(led, tier, seed):
    from contracts import tree_print
    led.extend(tree_print.rejection_table())
    led.extend(tree_print.native_end_to_end(seed))
    from contracts import infer_local
    led.extend(o for o in infer_local.native_locality_large(seed, tier) if "Kauri" in o.name)
    # the printed tree is compared with Tree.predict: the model's predict must BE tree_.predict on the user's columns, and fit must
    # have grown tree_ on those same columns (features of tree_ index the validated data, nothing dropped or reordered)
    from contracts import predict_glue, kauri_fit
    led.extend(o for o in predict_glue.obligations() if o.name.startswith("Kauri.predict"))
    led.extend(o for o in kauri_fit.obligations() if o.name.startswith("Kauri.fit:") and any(k in o.name for k in (
        "find_best_split(kernel(X, y), X", "left = samples of the chosen leaf", "tree: _add_child", "the split handed to the tree", "a fresh Tree()")))
    # the printed tree is compared with predict: predict itself must give integer-typed / float32 points the cluster of their float64 copy
    from contracts import dtype_native
    led.extend(dtype_native.predict_dtypes(seed, only=("Kauri",)))
    led.assume("A1 (trees with <= 3 (4 thorough) leaves, d = 3 features; thresholds and points symbolic)", "A2",
               "fitted Kauri models are represented by their tree_ (the C09 contracts tie tree_ to fit)",
               "the reference reader renders the property's 'read back' faithfully (A9)")
