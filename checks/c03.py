"""C03 -- every training update follows the true gradient of the regularised objective."""
META = dict(level="proof",
            trusted_base=["z3 5.1", "own normal-form prover", "symbolic differentiation on the DAG", "FX term interpreter (engine/fx.py)",
                          "installed scikit-learn softmax / SGDOptimizer / AdamOptimizer: run on exact reals under their own contracts (contracts/external_deps.py)"])

SHAPES = {
    "quick": {
        "linear": [dict(n=2, d=2, K=2), dict(n=2, d=1, K=3)],
        "sparse_linear": [dict(n=2, d=2, K=2)],
        "mlp": [dict(n=2, d=2, K=2, h=2), dict(n=2, d=1, K=3, h=2)],
        "sparse_mlp": [dict(n=2, d=2, K=2, h=2), dict(n=3, d=2, K=2, h=1)],
        "categorical": [dict(n=2, K=2), dict(n=3, K=3)],
        "douglas": [dict(n=2, d=1, K=2, cuts=1), dict(n=2, d=2, K=2, cuts=1), dict(n=2, d=1, K=2, cuts=2), dict(n=1, d=1, K=2, cuts=3)],
        "kernel_rim": [dict(N=3, K=2, idx=(0, 1, 2)), dict(N=3, K=2, idx=(2, 0, 1)), dict(N=3, K=2, idx=(1,)),
                       dict(N=3, K=2, idx=(2, 0))],
    },
}
SHAPES["thorough"] = {k: list(v) for k, v in SHAPES["quick"].items()}
SHAPES["thorough"]["linear"] += [dict(n=3, d=2, K=3)]
SHAPES["thorough"]["mlp"] += [dict(n=2, d=2, K=3, h=3), dict(n=3, d=2, K=3, h=2)]
SHAPES["thorough"]["sparse_mlp"] += [dict(n=2, d=2, K=3, h=3)]
SHAPES["thorough"]["douglas"] += [dict(n=2, d=2, K=2, cuts=2), dict(n=2, d=1, K=3, cuts=3), dict(n=3, d=2, K=3, cuts=1)]
SHAPES["thorough"]["kernel_rim"] += [dict(N=4, K=3, idx=(3, 1, 0, 2)), dict(N=4, K=2, idx=(1, 3))]


def tasks(tier, seed):
    t = []
    for fam, shapes in SHAPES[tier].items():
        for s in shapes:
            lab = f"{fam}[{','.join(f'{k}={v}' for k, v in s.items())}]"
            t.append(("contracts.models_vjp", "task", (fam, tuple(s.items()), "", seed), 900 if tier == "quick" else 3000, lab))
    t.append(("contracts.models_vjp", "task", ("sparse_mlp", tuple(dict(n=1, d=2, K=2, h=2).items()), "eliminated0", seed), 900, "sparse_mlp[n=1,d=2,K=2,h=2,eliminated0]"))
    # the first shape of every family once more with data, predictions and incoming gradient handed in column-major
    for fam, shapes in SHAPES[tier].items():
        if fam == "kernel_rim":
            continue
        s = shapes[0]
        t.append(("contracts.models_vjp", "task", (fam, tuple(s.items()), "column-major", seed), 900 if tier == "quick" else 3000,
                  f"{fam}[{','.join(f'{k}={v}' for k, v in s.items())},column-major]"))
    t.append(("contracts.models_vjp", "task_rim", (2, 2, seed), 300, "RIM._update_weights[2x2]"))
    t.append(("contracts.models_vjp", "task_rim", (1, 3, seed), 300, "RIM._update_weights[1x3]"))
    t.append(("contracts.models_vjp", "task_rim", (2, 2, seed, "sgd"), 300, "RIM._update_weights[2x2,sgd]"))
    t.append(("contracts.mlcl_grads", "task", (tier, seed), 900, "mlcl.decorate_grads"))
    # the third-party pieces the contracts above lean on, themselves under contract (real installed functions on exact reals)
    from contracts import external_deps
    t += external_deps.softmax_tasks(tier, seed) + external_deps.optimiser_tasks(tier, seed)
    # B: the same contracts replayed on the real code at a ladder of larger shapes (stand-in for the missing induction over sizes)
    t.append(("contracts.size_ladder", "task", ("vjp", tier, seed), 1500, "size ladder: back-propagation"))
    t.append(("contracts.size_ladder", "task", ("mlcl", tier, seed), 1500, "size ladder: constraint injection"))
    return t


def extra(led, tier, seed):
    from contracts import fit_loop
    led.extend(fit_loop.obligations())
    led.assume("A1", "A2", "A3", "A4", "A8",
               "A5 (discharged, no longer assumed): " + "the installed sklearn.utils.extmath.softmax is itself under contract (run on exact reals, every row ordering): it equals exp(h_ik)/sum_j exp(h_ij), the stub the other contracts use -- no longer assumed",
               "A5 (discharged, no longer assumed): the installed SGDOptimizer / AdamOptimizer, constructed as GemClus constructs them, apply the documented momentum-Nesterov / Adam recurrence "
               "entry by entry, in place, to the parameter list they were built over, each entry moved by its own gradient entries only; the first step is -(1+momentum)*lr*grad resp. against the sign of grad "
               "(P@S: enumerated list shapes and 2-3 consecutive steps; decay rates symbolic)",
               "L3 (chain rule): VJP contract of _compute_grads composed with the C02 contract of the GEMINI gives the direction -grad_theta[GEMINI(_infer(X_b)) - penalty]",
               "ReLU kinks / Douglas cut ties (measure zero) are excluded")
    led.notes.append("VJP contracts are P@S (all real X, parameters, upstream gradients at each shape; every ReLU pattern and cut ordering); the loop-body data-flow contracts on fit/_path are P-inf")
    led.extra["shapes"] = SHAPES[tier]
