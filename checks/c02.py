"""C02 -- GEMINI gradients are the exact derivative of the returned score."""
from contracts.gemini_eval import CLASSES
from checks.c01 import shapes_for

META = dict(level="proof",
            trusted_base=["z3 5.1", "own normal-form prover (engine/nf.py)", "symbolic differentiation on the expression DAG (engine/dag.py)",
                          "NumPy object-array semantics", "contract stub of ot.emd2 (strong duality, envelope theorem)"])


def tasks(tier, seed):
    t = []
    for cls in CLASSES:
        for ovo in (False, True):
            for n, K in shapes_for(cls, ovo, tier):
                to = 600 if tier == "quick" else 3000
                t.append(("contracts.gemini_eval", "task", (cls, ovo, n, K, "C02", "interior", seed), to,
                          f"{cls}[{'ovo' if ovo else 'ova'},{n}x{K}]"))
                if n >= 2 and (n, K) in ((2, 2), (2, 3), (3, 2), (3, 3)):
                    t.append(("contracts.gemini_eval", "task", (cls, ovo, n, K, "C02", "clipped", seed), to,
                              f"{cls}[{'ovo' if ovo else 'ova'},{n}x{K},clipped]"))
                if (n, K) in ((2, 2), (2, 3)):
                    t.append(("contracts.gemini_eval", "task", (cls, ovo, n, K, "C02", "clipped-sym", seed), to,
                              f"{cls}[{'ovo' if ovo else 'ova'},{n}x{K},clipped-sym]"))
                if (n, K) == (2, 3):
                    # the same contract with the predictions handed in column-major and as a strided view
                    for lay in ("F", "strided"):
                        t.append(("contracts.gemini_eval", "task", (cls, ovo, n, K, "C02", "interior", seed, lay), to,
                                  f"{cls}[{'ovo' if ovo else 'ova'},{n}x{K},layout {lay}]"))
                    t.append(("contracts.gemini_eval", "task", (cls, ovo, n, K, "C02", "clipped-mixed", seed), to,
                              f"{cls}[{'ovo' if ovo else 'ova'},{n}x{K},clipped-mixed]"))
    # B: the same contracts replayed on the real code at a ladder of larger shapes (stand-in for the missing induction over n, K)
    t.append(("contracts.size_ladder", "task", ("gemini", tier, seed, (("modes", ("C02",)),)), 1500, "size ladder: GEMINI gradients"))
    return t


def extra(led, tier, seed):
    from contracts import gemini_large, gemini_registry
    led.extend(o for o in gemini_registry.frame_obligations() if ".compute_affinity" not in o.name)
    led.extend(gemini_large.obligations(seed, tier))
    from contracts import lean_bounds
    led.extend(lean_bounds.obligations(tier, file="Lemmas.lean", lemmas=["tangent_agree"], fn="specs.gemini (lemma L2)"))
    led.assume("A1", "A2", "A3", "A4", "A8",
               "A5: ot.emd2 contract: cost = <u,a> + <v,b> and the dual potentials are the derivative of the cost "
               "(envelope theorem on a non-degenerate optimal basis)",
               "L2 (linear-algebra half machine-checked: lean/Lemmas.lean tangent_agree, any K): agreement of d score/d P[i,k] - d score/d P[i,K-1] with grad[i,k] - grad[i,K-1] for all i,k is agreement along "
               "every simplex-tangent direction, hence (chain rule) through any softmax parameterisation",
               "differentiability regions: measure-zero boundaries between regions (TV ties, MMD zero distances) are excluded, as the property states")
    led.notes.append("level P@S: all real inputs at each listed shape, every differentiability region at that shape")
    led.extra["shapes"] = {cls: {("ovo" if o else "ova"): shapes_for(cls, o, tier) for o in (False, True)} for cls in CLASSES}
