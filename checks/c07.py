"""C07 -- the regularisation path honours its stopping, history and best-weights contract."""
META = dict(level="proof", trusted_base=["FX term interpreter (engine/fx.py)", "VC generator + z3 for compute_val_score and the induction lemmas"])


def tasks(tier, seed):
    return []


def extra(led, tier, seed):
    from contracts import path_contract as pc, batching, path_native
    led.extend(pc.path_obligations())
    led.extend(pc.epoch_counter_obligation())
    led.extend(pc.induction_lemmas())
    led.extend(pc.wrapper_obligations())
    led.extend(o for o in batching.vc_obligations() if o.name.startswith("compute_val_score"))
    led.extend(path_native.obligations(tier, seed))
    led.assume("A2", "A4", "A8",
               "clf.fit, clf._update_weights, clf.set_params and np.copyto are the only mutators of the model reachable from _path "
               "(observers _n_selected_features, _group_lasso_penalty, compute_val_score, get_gemini, _get_weights are pure: C06 / C10 contracts)",
               "termination of the OUTER loop is a liveness property depending on optimisation dynamics: not decidable by contracts (NA part); "
               "the necessary condition 'alpha strictly increases' needs alpha0 > 0 (lemma) -- alpha = 0 is accepted by the estimator's validation "
               "and is recorded as a known finding",
               "inner loop terminates: variant max_iter - i")
    led.notes.append("P-inf: statements about every step of every path() run (loop state havocked); bounded native runs (B) compare real paths with the ghost fold")
