"""C05 -- proximal operators return the exact minimiser of their penalised problem."""
from contracts.prox import partitions

META = dict(level="proof", trusted_base=["z3 5.1", "own normal-form prover", "NumPy object-array semantics (sort, cumsum, take_along_axis, linalg.norm)"])


def tasks(tier, seed):
    t = []
    to = 900 if tier == "quick" else 3000

    def add(kind, args, label):
        t.append(("contracts.prox", "task", (kind, args, seed), to, label))
    for d, h in ([(1, 1), (2, 2), (1, 3)] if tier == "quick" else [(1, 1), (2, 2), (1, 3), (3, 2), (2, 4)]):
        add("linear", (d, h, "generic"), f"linear[{d}x{h}]")
        add("linear", (d, h, "zero_row"), f"linear[{d}x{h},zero_row]")
        add("linear", (d, h, "alpha0"), f"linear[{d}x{h},alpha0]")
        if h >= 2:
            add("linear", (d, h, "tie"), f"linear[{d}x{h},tie]")
    dmax = 3 if tier == "quick" else 4
    for d in range(1, dmax + 1):
        for part in partitions(range(d)):
            add("group_linear", (d, 2 if d < 4 else 1, part), f"group_linear[d={d},{part}]")
    add("group_linear", (3, 2, [[0, 2], [1]], 0), "group_linear[d=3,zero group]")
    add("group_linear", (2, 1, [[0, 1]], 0), "group_linear[d=2,zero group]")
    hier = [(1, 1), (2, 1), (1, 2), (2, 2)] if tier == "quick" else [(1, 1), (2, 1), (1, 2), (2, 2), (3, 2), (1, 3), (2, 3)]
    for k, h in hier:
        add("hier", (k, h, "generic", 1), f"hier[k={k},h={h}]")
    add("hier", (1, 2, "M0", 1), "hier[k=1,h=2,M0]")
    add("hier", (2, 1, "alpha0", 1), "hier[k=2,h=1,alpha0]")
    add("hier", (1, 1, "generic", 2), "hier[k=1,h=1,rows=2]")
    for d in (2,) if tier == "quick" else (2, 3):
        for part in partitions(range(d)):
            if all(len(g) == 1 for g in part) and d == 3:
                continue
            add("group_hier", (d, 1, 1, part), f"group_hier[d={d},{part}]")
    if tier == "quick":
        add("group_hier", (2, 2, 1, [[0, 1]]), "group_hier[d=2,k=2,[[0,1]]]")
    return t


def extra(led, tier, seed):
    from contracts import prox_native
    led.extend(prox_native.zero_case())
    led.assume("A1", "A2", "A3", "A4", "A8",
               "L4: the group-lasso closed form is the unique minimiser of 0.5||z-w||^2 + alpha||z|| (strict convexity + sub-gradient optimality; stated, not machine-checked)",
               "L5: a feasible point of the hierarchical problem with the stated multipliers is a global minimiser (convex objective over a product of second-order cones; stated, not machine-checked)",
               "the in-scope zero case v = 0, u = 0, alpha > 0 is reached through IEEE arithmetic (alpha/0 = inf, max(-inf,0) = 0): checked natively (B), outside real-arithmetic contracts")
    led.notes.append("P@S: all real W/v/u, alpha > 0 (and == 0), M > 0 (and == 0) at each shape; every sign pattern, ordering of |u| and break-point index explored")
