"""C05 -- proximal operators return the exact minimiser of their penalised problem."""
from contracts.prox import partitions

META = dict(level="proof", trusted_base=["z3 5.1", "Lean 4.33 kernel + Mathlib (lemmas L4, L5)", "own normal-form prover", "NumPy object-array semantics (sort, cumsum, take_along_axis, linalg.norm)"])


def tasks(tier, seed):
    t = []
    to = 900 if tier == "quick" else 3000

    def add(kind, args, label):
        t.append(("contracts.prox", "task", (kind, args, seed), to, label))
    for d, h in ([(1, 1), (2, 2), (1, 3)] if tier == "quick" else [(1, 1), (2, 2), (1, 3), (3, 2), (2, 4)]):
        add("linear", (d, h, "generic"), f"linear[{d}x{h}]")
        add("linear", (d, h, "zero_row"), f"linear[{d}x{h},zero_row]")
        add("linear", (d, h, "alpha0"), f"linear[{d}x{h},alpha0]")
        add("linear", (d, h, "zero_row_alpha0"), f"linear[{d}x{h},zero_row,alpha0]")
        if h >= 2:
            add("linear", (d, h, "tie"), f"linear[{d}x{h},tie]")
    dmax = 3 if tier == "quick" else 4
    for d in range(1, dmax + 1):
        for part in partitions(range(d)):
            add("group_linear", (d, 2 if d < 4 else 1, part), f"group_linear[d={d},{part}]")
    # a group is a set of features: its indices may be listed in any order (unordered, interleaved groups)
    add("group_linear", (4, 1, [[0, 3, 2], [1]]), "group_linear[d=4,[[0,3,2],[1]]]")
    add("group_linear", (4, 1, [[2, 0], [3, 1]]), "group_linear[d=4,[[2,0],[3,1]]]")
    add("group_linear", (3, 2, [[0, 2], [1]], 0), "group_linear[d=3,zero group]")
    add("group_linear", (2, 1, [[0, 1]], 0), "group_linear[d=2,zero group]")
    add("group_linear", (3, 2, [[0, 2], [1]], 0, True), "group_linear[d=3,zero group,alpha0]")
    add("group_linear", (3, 1, [[0], [1, 2]], None, True), "group_linear[d=3,alpha0]")
    hier = [(1, 1), (2, 1), (1, 2), (2, 2)] if tier == "quick" else [(1, 1), (2, 1), (1, 2), (2, 2), (3, 2), (1, 3), (2, 3)]
    for k, h in hier:
        add("hier", (k, h, "generic", 1), f"hier[k={k},h={h}]")
    add("hier", (1, 2, "M0", 1), "hier[k=1,h=2,M0]")
    add("hier", (2, 1, "alpha0", 1), "hier[k=2,h=1,alpha0]")
    add("hier", (1, 1, "generic", 2), "hier[k=1,h=1,rows=2]")
    for d in (2,) if tier == "quick" else (2, 3):
        for part in partitions(range(d)):
            if all(len(g) == 1 for g in part) and d == 3:
                continue
            add("group_hier", (d, 1, 1, part), f"group_hier[d={d},{part}]")
    if tier == "quick":
        add("group_hier", (2, 2, 1, [[0, 1]]), "group_hier[d=2,k=2,[[0,1]]]")
    # B: the same contracts replayed on the real code at a ladder of larger shapes (stand-in for the missing induction over sizes)
    t.append(("contracts.size_ladder", "task", ("prox", tier, seed), 1500, "size ladder: proximal operators"))
    return t


def extra(led, tier, seed):
    from contracts import prox_native, lean_bounds, prox
    led.extend(prox_native.zero_case())
    from contracts import dtype_native, sparse_sel
    led.extend(dtype_native.prox_dtypes(seed))
    led.extend(prox_native.unordered_groups(seed))
    # the group structure handed to the operators: check_groups completes a partial list with singletons and rejects non-partitions
    led.extend(sparse_sel.check_groups_exhaustive(3))
    # lemmas L4 / L5, machine-checked for every dimension (Lean 4 + Mathlib), and their link to the discharged clauses
    led.extend(lean_bounds.obligations(tier, file="Prox.lean", lemmas=prox.LEAN_LEMMAS, fn="specs.prox"))
    led.extend(prox.lemma_links(led.obs))
    led.assume("A1", "A2", "A3", "A4", "A8",
               "L4 / L5 are no longer assumed: lean/Prox.lean proves, for every dimension, that the closed form is the unique minimiser (gl_unique_min) and that "
               "the certificate discharged on mlp_prox_grad implies feasibility and minimality over all feasible pairs (hier_certificate_min); trusted: Lean 4 kernel + Mathlib, "
               "and the reading of NumPy's norm / abs as the Euclidean norm / absolute value of the Lean statement",
               "the in-scope zero case v = 0, u = 0, alpha > 0 is reached through IEEE arithmetic (alpha/0 = inf, max(-inf,0) = 0): checked natively (B), outside real-arithmetic contracts")
    led.notes.append("P@S: all real W/v/u, alpha > 0 (and == 0), M > 0 (and == 0) at each shape; every sign pattern, ordering of |u| and break-point index explored")
