"""C12 -- fitting is reproducible, history-independent and free of side effects."""
META = dict(level="proof", trusted_base=["FX term interpreter (frames, def-use, effects, randomness flow through the real MRO)",
                                         "scikit-learn get_params/set_params/clone work from __init__ signatures and same-named attributes",
                                         "NumPy / BLAS are deterministic given equal inputs"])


def tasks(tier, seed):
    return []


def extra(led, tier, seed):
    from contracts import repro, forwarding
    led.extend(repro.fit_obligations())
    led.extend(repro.predict_effects())
    from contracts import gemini_registry
    led.extend(gemini_registry.frame_obligations())
    led.extend(repro.path_frame())
    led.extend(repro.path_wrapper_frame())
    from contracts import batching
    led.extend(o for o in batching.fx_obligations() if 'disguise_batch' in o.name)
    led.extend(forwarding.init_obligations(forwarding.estimators_all()))
    led.extend(repro.native_histories(seed, tier))
    led.assume("A4", "A5: check_random_state(int) returns a fresh RandomState seeded with that int; sklearn validation returns new arrays or the same array unmodified",
               "A5: get_params / set_params / clone round-trip every constructor parameter that __init__ stores unchanged under its own name (scikit-learn contract)",
               "bit-level determinism of NumPy / BLAS given equal inputs is assumed",
               "generators (_batchify) are covered by their own contract (C10): the permutation is drawn from check_random_state(random_state) of the argument")
