"""C04 -- fit succeeds on every valid configuration and yields a coherent model."""
from contracts.gemini_eval import CLASSES

META = dict(level="proof", trusted_base=["FX term interpreter (linkage through the installed packages and the real MRO, glue data-flow)", "own normal-form prover",
                                         "installed sklearn softmax under its own contract; argmax / scikit-learn validation contracts"])


def tasks(tier, seed):
    t = []
    to = 1500 if tier == "quick" else 6000
    # shape safety of the numeric kernels at the corner shapes (K = 1, n = 1, n = K)
    for cls in CLASSES:
        for ovo in (False, True):
            for n, K in ((1, 1), (2, 1), (3, 1), (1, 2), (2, 2), (1, 3), (3, 3)):
                t.append(("contracts.gemini_invariance", "task", (cls, ovo, n, K, "onehot", seed), to, f"shape {cls}[{'ovo' if ovo else 'ova'},{n}x{K}]"))
    for fam, shapes in {"linear": [dict(n=1, d=1, K=1), dict(n=2, d=2, K=1), dict(n=1, d=2, K=3)],
                        "mlp": [dict(n=1, d=1, K=1, h=1), dict(n=2, d=1, K=1, h=2)],
                        "sparse_mlp": [dict(n=1, d=2, K=1, h=1)], "categorical": [dict(n=1, K=1), dict(n=2, K=1)],
                        "douglas": [dict(n=1, d=1, K=1, cuts=1), dict(n=2, d=2, K=1, cuts=1)],
                        "kernel_rim": [dict(N=2, K=1, idx=(1, 0)), dict(N=3, K=2, idx=(1,))]}.items():
        for s in shapes:
            t.append(("contracts.models_vjp", "task", (fam, tuple(s.items()), "", seed), to, f"shape {fam}{s}"))
    for c in (("linear", 1, 1, 1, 1, 1), ("mlp", 2, 1, 1, 2, 1), ("douglas", 2, 1, 2, 2, 1), ("sparse_mlp", 2, 2, 2, 2, 1)):
        t.append(("contracts.infer_local", "task", c + (seed,), to, f"_infer {c}"))
    from contracts import external_deps
    t += external_deps.softmax_tasks(tier, seed)
    # B: the same contracts replayed on the real code at a ladder of larger shapes (stand-in for the missing induction over sizes)
    t.append(("contracts.size_ladder", "task", ("vjp", tier, seed), 1500, "size ladder: back-propagation shapes"))
    t.append(("contracts.size_ladder", "task", ("infer", tier, seed), 1500, "size ladder: forward passes"))
    return t


def extra(led, tier, seed):
    from contracts import fit_loop, predict_glue, kauri_fit, rt_obligations
    led.extend(fit_loop.obligations())
    led.extend(predict_glue.obligations())
    led.extend(kauri_fit.obligations())
    led.extend(rt_obligations.lattice_obligations(seed, tier))
    led.extend(rt_obligations.ladder_obligations(seed, tier))
    from contracts import infer_local
    led.extend(infer_local.native_locality_large(seed, tier))
    led.extend(rt_obligations.int_data_obligations(seed))
    led.extend(rt_obligations.offset_data_obligations(seed))
    led.assume("A1", "A2", "A4", "A5 (discharged for softmax): rows of the installed sklearn softmax are positive and sum to 1 (contracts/external_deps.py, real function on exact reals); assumed: argmax over K columns lies in [0, K); scikit-learn validation accepts finite 2-D numeric data with enough samples",
               "fit terminates: range(max_iter) x a finite generator (C10) x terminating third-party calls (ot.emd2, scikit-learn) -- termination of third-party code is assumed",
               "'every configuration the validation accepts' is covered deductively by (i) linkage / glue data-flow contracts for all classes, (ii) shape-safety of the numeric kernels at corner shapes "
               "and (iii) the C11 table 'every validated kernel / metric builds its GEMINI'; the cross product of options is sampled by the bounded lattice (B)")
