"""C11 -- kernel, metric and GEMINI choices are forwarded faithfully; precomputed = named."""
META = dict(level="proof", trusted_base=["FX term interpreter (engine/fx.py)", "sklearn pairwise_kernels / pairwise_distances compute the named kernel / metric",
                                         "sklearn _validate_params / StrOptions"])


def tasks(tier, seed):
    return []


def extra(led, tier, seed):
    from contracts import forwarding as F, predict_glue
    led.extend(F.affinity_obligations())
    led.extend(F.init_obligations())
    led.extend(F.get_gemini_obligations())
    led.extend(F.copy_obligations())
    from contracts import gemini_registry
    led.extend(o for o in gemini_registry.obligations() if o.name.startswith("registry"))
    led.extend(F.domain_linkage())
    led.extend(F.kauri_kernel_obligations())
    led.extend(F.read_set_obligations())
    from contracts import fit_loop
    led.extend(o for o in fit_loop.obligations() if any(k in o.name for k in (
        "affinity = gemini.compute_affinity", "with this batch's affinity block", "the objective called is the model's GEMINI")))
    led.extend(o for o in predict_glue.obligations() if "KernelRIM._compute_kernel" in o.name or ".score:" in o.name)
    led.extend(F.native_equivalence(seed, tier))
    # 'precomputed = named' under mini-batches rests on the block contracts of C10: every training batch and every validation block
    # gets exactly the rows AND columns of the user's matrix that belong to its samples
    from contracts import batching
    led.extend(o for o in batching.vc_obligations() if "affinity" in o.name or "within the VC subset" in o.name or "bounded replay" in o.name)
    led.assume("A4", "A5: sklearn.metrics.pairwise_kernels / pairwise_distances(X, metric=name, **params) are the named kernel / metric with those parameters",
               "L7: by the read-set obligations, fit / score depend on the kernel choice only through the value of compute_affinity(X, y); with C12 determinism the fitted "
               "model is a function of that value, so a precomputed matrix equal to the named kernel yields the same model (the dynamic mode of path() recomputes the affinity "
               "on selected features and is skipped when y is given: documented exception)")
