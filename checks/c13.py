"""C13 -- GEMINI scores obey their invariances and bounds."""
from contracts.gemini_eval import CLASSES

META = dict(level="proof", trusted_base=["z3 5.1", "own normal-form prover", "Lean 4 / Mathlib (bounds of the specification distances)",
                                         "contract of ot.emd2 incl. determinism and marginal-swap symmetry"])


def tasks(tier, seed):
    t = []
    to = 900 if tier == "quick" else 3000
    shapes = [(2, 2), (2, 3), (3, 2)] + ([(3, 3)] if tier == "thorough" else [])
    for cls in CLASSES:
        for ovo in (False, True):
            for n, K in shapes:
                if cls == "TVGEMINI" and ovo and n * K > 6:
                    continue
                tag = f"{cls}[{'ovo' if ovo else 'ova'},{n}x{K}"
                if cls != "WassersteinGEMINI":
                    t.append(("contracts.gemini_invariance", "task", (cls, ovo, n, K, "perm-rows", seed), to, tag + ",perm-rows]"))
                t.append(("contracts.gemini_invariance", "task", (cls, ovo, n, K, "perm-cols", seed), to, tag + ",perm-cols]"))
                t.append(("contracts.gemini_invariance", "task", (cls, ovo, n, K, "indep", seed), to, tag + ",indep]"))
                t.append(("contracts.gemini_invariance", "task", (cls, ovo, n, K, "onehot", seed), to, tag + ",onehot]"))
                if (n, K) != (3, 3):
                    t.append(("contracts.gemini_invariance", "task", (cls, ovo, n, K, "empty", seed), to, tag + ",empty]"))
                if (n, K) == (2, 2):
                    t.append(("contracts.gemini_invariance", "task", (cls, ovo, n, K, "empty2", seed), to, tag + ",empty2]"))
                    t.append(("contracts.gemini_invariance", "task", (cls, ovo, n, K, "empty-perm", seed), to, tag + ",empty-perm]"))
    # B: the same contracts replayed on the real code at a ladder of larger shapes (stand-in for the missing induction over sizes)
    t.append(("contracts.size_ladder", "task", ("invariance", tier, seed, (("whats", ("perm-rows", "perm-cols", "indep")),)), 1500, "size ladder: equivariance, independence"))
    t.append(("contracts.size_ladder", "task", ("invariance", tier, seed, (("whats", ("onehot", "empty", "empty2", "empty-perm")),)), 1500, "size ladder: hard partitions, empty clusters"))
    return t


def extra(led, tier, seed):
    from contracts import gemini_invariance, lean_bounds
    led.extend(gemini_invariance.bounded())
    from contracts import dtype_native
    led.extend(dtype_native.gemini_dtypes(seed))
    from contracts import gemini_registry
    led.extend(o for o in gemini_registry.frame_obligations() if ".compute_affinity" not in o.name)
    from contracts import gemini_large
    led.extend(gemini_large.obligations(seed, tier))
    led.extend(lean_bounds.obligations(tier))
    led.extend(lean_bounds.obligations(tier, file="Lemmas.lean", lemmas=["adjacent_swaps_generate"], fn="specs.gemini (lemma L8)"))
    led.assume("A1", "A2", "A3", "A4", "A8",
               "L8 (Mathlib: Equiv.Perm.mclosure_swap_castSucc_succ, re-checked in lean/Lemmas.lean): adjacent transpositions generate the symmetric group, so equivariance under them gives all permutations",
               "Wasserstein: W(a, a) = 0 (the affinity is a metric: zero self-distance), determinism and marginal-swap symmetry of ot.emd2 are part of its assumed contract",
               "Wasserstein: invariance under a reordering of the samples is relative to the permutation-equivariance of ot.emd2 (assumed; not checked)",
               "non-negativity and the unit bounds of TV / Hellinger follow from the Lean lemmas on the specification distances together with the C01 identity score == sum pi * D and pi >= 0, sum pi = 1",
               "log K for balanced hard partitions and 'unchanged by an empty cluster' hold up to O(eps log 1/eps) because of the epsilon clipping: checked numerically at eps = 1e-12 (B), exact parts (zero gradient of the empty cluster, finiteness on one-hot rows) are proved")
