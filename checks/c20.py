"""C20 -- synthetic data generators follow their documented distributions."""
META = dict(level="proof", trusted_base=["ghost random generator: NumPy's samplers follow their documented laws (engine/ghost_rng.py)", "own normal-form prover",
                                         "documented parameters transcribed in specs/datasets.py"])


def tasks(tier, seed):
    return [("contracts.datasets", "task", (tier, seed), 1500, "generators with the ghost RandomState")]


def extra(led, tier, seed):
    from contracts import datasets, validation
    led.extend(datasets.flow_obligations())
    led.extend(o for o in validation.function_domains() if any(k in o.name for k in ("draw_gmm", "student", "gstm", "celeux")))
    led.extend(datasets.bounded_moments(seed, tier))
    led.extend(datasets.native_streams())
    led.extend(datasets.native_int_float())
    led.assume("A1 (n <= 3 (4) samples and all enumerated label vectors; dimensions as documented)", "A2", "A3",
               "A5: RandomState.normal / multivariate_normal / chisquare / choice / permutation follow the laws their contracts state",
               "'within sampling error' is replaced by the exact statement of which tagged draw each returned entry is; the empirical moments of finite samples are a bounded check (B)")
