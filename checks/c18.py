"""C18 -- predictions are per-sample functions of the fitted model."""
META = dict(level="proof", trusted_base=["z3 5.1", "own normal-form prover", "FX term interpreter", "installed sklearn softmax run on exact reals under its own contract",
                                         "pairwise_kernels is row-local (scikit-learn contract)"])


def tasks(tier, seed):
    t = []
    to = 900 if tier == "quick" else 3000
    cfg = [("linear", 2, 2, 2, 2, 1), ("sparse_linear", 2, 1, 3, 2, 1), ("mlp", 2, 2, 2, 2, 1), ("sparse_mlp", 2, 2, 2, 2, 1),
           ("douglas", 2, 1, 2, 2, 1), ("douglas", 2, 2, 2, 2, 1), ("douglas", 2, 1, 2, 2, 2)]
    if tier == "thorough":
        cfg += [("linear", 3, 2, 3, 2, 1), ("mlp", 3, 2, 2, 2, 1), ("mlp", 2, 2, 3, 2, 1), ("sparse_mlp", 3, 1, 3, 2, 1),
                ("douglas", 3, 2, 3, 2, 1), ("douglas", 2, 2, 2, 2, 2), ("douglas", 2, 1, 3, 2, 3)]
    for c in cfg:
        t.append(("contracts.infer_local", "task", c + (seed,), to, f"{c[0]}[n={c[1]},d={c[2]},K={c[3]},h={c[4]},cuts={c[5]}]"))
    t.append(("contracts.tree_predict", "task", (tier, seed), to, "Tree.predict"))
    from contracts import external_deps
    t += external_deps.softmax_tasks(tier, seed)
    # B: the same contracts replayed on the real code at a ladder of larger shapes (stand-in for the missing induction over sizes)
    t.append(("contracts.size_ladder", "task", ("infer", tier, seed), 1500, "size ladder: forward passes"))
    return t


def extra(led, tier, seed):
    from contracts import predict_glue
    led.extend(predict_glue.obligations())
    led.extend(predict_glue.infer_frame())
    from contracts import dtype_native
    led.extend(dtype_native.predict_dtypes(seed))
    # training-set predictions equal labels_: what fit stores is argmax of _infer on the training data in the caller's row order
    from contracts import fit_loop
    led.extend(o for o in fit_loop.obligations() if "labels_ = _infer(X).argmax(1)" in o.name)
    from contracts import infer_local
    led.extend(infer_local.native_locality(seed, tier))
    led.extend(infer_local.native_locality_large(seed, tier))
    # Kauri: predict(X_train) == labels_ needs the tree to store exactly the rule that partitioned the samples during fit
    from contracts import kauri_fit, kauri_native
    led.extend(o for o in kauri_fit.obligations() if o.name.startswith("Kauri.fit:") and any(k in o.name for k in (
        "left = samples of the chosen leaf", "tree: _add_child", "the split handed to the tree", "labels_ = (Y @ Z).argmax(0)", "Z: the right samples", "Y: the old leaf")))
    led.extend(o for o in kauri_native.obligations(tier, seed) if "structural limits" in o.name)
    led.assume("A1", "A2", "A3", "A4", "A8",
               "A5 (discharged for softmax): the installed sklearn softmax is row-wise -- it equals the row-wise stub for every row ordering (contracts/external_deps.py); assumed: check_array returns the validated array; np.argmax(axis=1) is row-wise",
               "A5: sklearn pairwise_kernels(X, Y)[i] depends only on X[i] and Y; a callable base_kernel is assumed row-local (user code)",
               "training-set predictions equal labels_: labels_ = _infer(X).argmax(1) (C03 fit contract), predict = argmax(_infer(X, retain=False)), and _infer is independent of the retain flag and of retained state (proved here)")
