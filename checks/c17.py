"""C17 -- results stay finite on degenerate and badly scaled but legal inputs."""
from contracts.gemini_eval import CLASSES

META = dict(level="other",
            explanation="Real-arithmetic contracts (every denominator non-zero, log arguments positive, radicands non-negative, result shapes, no IEEE token reaching a result) are proved "
                        "for the real numeric kernels on the degenerate structures the property lists (one-hot rows, one cluster, n = K, one-sample batches, duplicated samples / clusters, exact zero "
                        "weight rows); the floating-point content of the property (overflow / underflow under scaling by 1000) is outside contract-based verification over the reals and is covered "
                        "by bounded native fits with finiteness post-conditions (B). The claim is therefore 'other': proof of the real-arithmetic part, bounded check of the IEEE part.",
            trusted_base=["own normal-form prover / sign analysis", "reals for floats (A2) -- the IEEE part is bounded only"])


def tasks(tier, seed):
    t = []
    to = 1500 if tier == "quick" else 6000
    shapes = [(1, 1), (2, 1), (1, 2), (2, 2), (3, 3), (2, 3), (1, 3)] + ([(4, 2), (4, 4)] if tier == "thorough" else [])
    for cls in CLASSES:
        for ovo in (False, True):
            for n, K in shapes:
                if cls == "TVGEMINI" and ovo and n * K > 9:
                    continue
                t.append(("contracts.gemini_invariance", "task", (cls, ovo, n, K, "onehot", seed), to, f"{cls}[{'ovo' if ovo else 'ova'},{n}x{K},onehot]"))
            for n, K in ((2, 2), (4, 2), (3, 3)):
                t.append(("contracts.gemini_invariance", "task", (cls, ovo, n, K, "duplicates", seed), to, f"{cls}[{'ovo' if ovo else 'ova'},{n}x{K},duplicates]"))
            t.append(("contracts.gemini_invariance", "task", (cls, ovo, 2, 2, "empty", seed), to, f"{cls}[{'ovo' if ovo else 'ova'},2x2,empty]"))
            t.append(("contracts.gemini_invariance", "task", (cls, ovo, 2, 2, "empty2", seed), to, f"{cls}[{'ovo' if ovo else 'ova'},2x2,empty2]"))
    for d, h in ((1, 1), (2, 2)):
        for st in ("zero_row", "alpha0", "generic"):
            t.append(("contracts.prox", "task", ("linear", (d, h, st), seed), to, f"linear_prox[{d}x{h},{st}]"))
    t.append(("contracts.prox", "task", ("group_linear", (3, 2, [[0, 2], [1]], 0), seed), to, "group_linear_prox[zero group]"))
    t.append(("contracts.prox", "task", ("group_linear", (2, 1, [[0, 1]], 0), seed), to, "group_linear_prox[zero group, h=1]"))
    for k, h, st in ((1, 1, "generic"), (2, 1, "alpha0"), (1, 2, "M0")):
        t.append(("contracts.prox", "task", ("hier", (k, h, st, 1), seed), to, f"hier_prox[{k},{h},{st}]"))
    for s in (dict(n=1, d=1, K=2, cuts=1), dict(n=2, d=2, K=2, cuts=1), dict(n=1, d=1, K=2, cuts=2)):
        t.append(("contracts.models_vjp", "task", ("douglas", tuple(s.items()), "", seed), to, f"douglas backprop {s}"))
    # B: the same contracts replayed on the real code at a ladder of larger shapes (stand-in for the missing induction over sizes)
    t.append(("contracts.size_ladder", "task", ("invariance", tier, seed, (("whats", ("onehot", "duplicates", "empty", "empty2")),)), 1500, "size ladder: degenerate predictions"))
    return t


def extra(led, tier, seed):
    from contracts import rt_obligations, prox_native
    led.obs = [o for o in led.obs if o.name.endswith((":safety", ":no-exception", ":grad shape", "finite (no non-finite value reaches them)", ":shapes", ":shape"))
               or "empty cluster gradient" in o.name or ":paths-explored" in o.name or o.name.startswith("size ladder") or "direction[" in o.name or "len(grads)" in o.name or ".shape" in o.name]
    led.extend(rt_obligations.degenerate_obligations(seed, tier))
    led.extend(rt_obligations.mlcl_degenerate_obligations(seed))
    led.extend(prox_native.zero_case())
    led.assume("A1", "A2: machine arithmetic treated as mathematical -- overflow, underflow and NaN propagation are NOT decided by the contracts; they are covered by the bounded native runs only",
               "the hierarchical proximal step on a feature whose skip and hidden weights are already zero relies on IEEE arithmetic (alpha/0 = inf, max(-inf, 0) = 0): native check (B)",
               "Douglas back-propagation is division-free after the D14 repair; its exactness is the C03 VJP contract (re-run here)")
